(* Line-oriented driver for the C13 model (subscription table).
   Normal mode: reads "Q <id> <op> <op> ..." lines, runs the extracted model, prints
     "Q <id> <out>#<digest> ... | <final state>"   (same format as harness/src/bin/c13.rs).
   Spec mode (argv[1] = "spec"): reads "T <id> <op>~<snapshot>~<ob> ..." lines produced by the
   harness from the REAL table and evaluates the extracted property on those snapshots. *)
open Model
open Util

let imax_s = "18446744073709551615"
let imax = n_of_string imax_s

(* ---- the attribute universe: 24 "near" paths, index k -> (k/8, 10 + (k/4) mod 2, k mod 4), and 20 "far"
   paths, index 24+j -> (10+j, 100+j, 7), each on an endpoint and cluster of its own *)
let npaths = 44
let path_of_index (k : int) : path =
  if k >= 24 then { p_ep = n_of_int (10 + k - 24); p_cl = n_of_int (100 + k - 24); p_at = n_of_int 7 }
  else { p_ep = n_of_int (k / 8); p_cl = n_of_int (10 + (k / 4) mod 2); p_at = n_of_int (k mod 4) }
let index_of_path (p : path) : int =
  if int_of_n p.p_ep >= 10 then 24 + int_of_n p.p_ep - 10
  else int_of_n p.p_ep * 8 + (int_of_n p.p_cl - 10) * 4 + int_of_n p.p_at
let paths_of_mask (m : int) : path list =
  List.filter_map (fun k -> if m land (1 lsl k) <> 0 then Some (path_of_index k) else None)
    (List.init npaths (fun k -> k))
let mask_of_paths (l : path list) : int =
  List.fold_left (fun m p -> m lor (1 lsl index_of_path p)) 0 l

(* ---- numbers *)
let rec i64_of_pos (p : positive) : int64 =
  match p with
  | XH -> 1L
  | XO q -> Int64.shift_left (i64_of_pos q) 1
  | XI q -> Int64.logor (Int64.shift_left (i64_of_pos q) 1) 1L
let i64_of_n (x : n) : int64 = match x with N0 -> 0L | Npos p -> i64_of_pos p
let inst (x : n) : string = if x = imax then "M" else string_of_n x
let n_of_inst (s : string) : n = if s = "M" then imax else n_of_string s

(* ---- ops *)
let parse_op (t : string) : op =
  match String.split_on_char ':' t with
  | ["C"; ep; cl; at] -> OChange (n_of_string ep, n_of_string cl, n_of_string at)
  | ["E"] -> OEvent
  | ["S"; fab; peer; mn; mx; mask; now; lag] ->
      OSubBegin (n_of_string fab, n_of_string peer, n_of_string mn, n_of_string mx,
                 paths_of_mask (int_of_string mask), n_of_string now, n_of_string lag)
  | ["R"; sid; k] -> OCtxRead (n_of_string sid, path_of_index (int_of_string k))
  | ["X"; sid; "o"] -> OCtxEnd (n_of_string sid, EOk)
  | ["X"; sid; "s"] -> OCtxEnd (n_of_string sid, ESkip)
  | ["X"; sid; "f"] -> OCtxEnd (n_of_string sid, EFail)
  | ["X"; sid; "d"] -> OCtxEnd (n_of_string sid, EDrop)
  | ["B"; now; lag] -> OReportBegin (n_of_string now, n_of_string lag)
  | ["P"] -> OPurge
  | ["M"; fab; "-"] -> ORemove (n_of_string fab, None)
  | ["M"; fab; peer] -> ORemove (n_of_string fab, Some (n_of_string peer))
  | ["W"; now] -> OWake (n_of_string now)
  | ["K"] -> OPersist
  | ["Z"; now; lag] -> ORestart (n_of_string now, n_of_string lag)
  | _ -> failwith ("bad op: " ^ t)

let op_now (o : op) : n option =
  match o with
  | OSubBegin (_, _, _, _, _, now, _) -> Some now
  | OReportBegin (now, _) -> Some now
  | OWake now -> Some now
  | ORestart (now, _) -> Some now
  | _ -> None

(* ---- printing *)
let sub_str (s : sub0) : string =
  String.concat "." [ string_of_n s.s_id; string_of_n s.s_fab; string_of_n s.s_peer;
    string_of_n s.s_min; string_of_n s.s_max; inst s.s_rep_at; inst s.s_acc; inst s.s_retry_at;
    string_of_n s.s_fail; string_of_n s.s_seen; string_of_n s.s_seen_ev;
    string_of_int (mask_of_paths s.s_paths) ]
let ctx_str (x : ctx) : string =
  String.concat "." [ sub_str x.x_sub; (if x.x_prim then "1" else "0"); string_of_n x.x_nseen;
    string_of_n x.x_nseen_ev; inst x.x_now ]
let entry_str (e : entry) : string =
  String.concat "." [ string_of_n e.e_ep; string_of_n e.e_cl; string_of_n e.e_at; string_of_n e.e_id ]
let state_str (st : state) : string =
  Printf.sprintf "n%s.%s.%s.%s.%d/T%s/S%s/X%s"
    (string_of_n st.next_sid) (string_of_n st.count) (string_of_n st.next_chg)
    (match st.reporting with Some s -> string_of_n s.s_id | None -> "-")
    (if st.cancelled then 1 else 0)
    (String.concat "," (List.map entry_str st.tab))
    (String.concat "," (List.map sub_str st.subs))
    (String.concat "," (List.map ctx_str st.ctxs))

(* ---- digest of the non-ghost state and of every timing decision at (clock, evn) *)
let digest_state (st : state) (clock : n) : int64 =
  let h = ref digest_init in
  let p x = h := digest_push !h x in
  let pn x = p (i64_of_n x) in
  let pb b = p (if b then 1L else 0L) in
  let psub (s : sub0) =
    pn s.s_id; pn s.s_fab; pn s.s_peer; pn s.s_min; pn s.s_max; pn s.s_rep_at; pn s.s_acc; pn s.s_retry_at;
    pn s.s_fail; pn s.s_seen; pn s.s_seen_ev; p (Int64.of_int (mask_of_paths s.s_paths)) in
  pn st.next_sid; pn st.count; pn st.next_chg;
  (match st.reporting with Some s -> pn s.s_id | None -> p 0L);
  pb st.cancelled;
  p (Int64.of_int (List.length st.tab));
  List.iter (fun e -> pn e.e_ep; pn e.e_cl; pn e.e_at; pn e.e_id) st.tab;
  p (Int64.of_int (List.length st.subs));
  let nra = ref imax in
  List.iter (fun s ->
    psub s;
    pn (report_allowed_at s); pn (report_due_at s);
    let nr = next_report_at s st.tab st.evn in
    pn nr;
    if N.ltb nr !nra then nra := nr;
    pb (is_reportable s clock st.tab st.evn);
    pb (is_expired s clock)) st.subs;
  p (Int64.of_int (List.length st.ctxs));
  List.iter (fun x -> psub x.x_sub; pb x.x_prim; pn x.x_nseen; pn x.x_nseen_ev; pn x.x_now) st.ctxs;
  pn !nra;
  !h

let out_str (o : out) : string =
  match o with
  | UNone -> "-"
  | UBool b -> if b then "t" else "f"
  | USid None -> "s-"
  | USid (Some i) -> "s" ^ string_of_n i

(* ---- snapshot parsing (spec mode) *)
let parse_sub (f : string list) : sub0 * string list =
  match f with
  | id :: fab :: peer :: mn :: mx :: rep :: acc :: retry :: fail :: seen :: seenev :: mask :: rest ->
      ({ s_id = n_of_string id; s_fab = n_of_string fab; s_peer = n_of_string peer;
         s_min = n_of_string mn; s_max = n_of_string mx; s_rep_at = n_of_inst rep; s_acc = n_of_inst acc;
         s_retry_at = n_of_inst retry; s_fail = n_of_string fail; s_seen = n_of_string seen;
         s_seen_ev = n_of_string seenev; s_paths = paths_of_mask (int_of_string mask);
         s_del = []; s_dev = N0; s_since = N0 }, rest)
  | _ -> failwith "bad sub"

let dummy_sub (id : n) : sub0 =
  { s_id = id; s_fab = N0; s_peer = N0; s_min = N0; s_max = N0; s_rep_at = N0; s_acc = N0; s_retry_at = N0;
    s_fail = N0; s_seen = N0; s_seen_ev = N0; s_paths = []; s_del = []; s_dev = N0; s_since = N0 }

let parse_snapshot (s : string) : state =
  match String.split_on_char '/' s with
  | [hd; t; sb; x] ->
      let hd = String.sub hd 1 (String.length hd - 1) in
      let t = String.sub t 1 (String.length t - 1) in
      let sb = String.sub sb 1 (String.length sb - 1) in
      let x = String.sub x 1 (String.length x - 1) in
      (match String.split_on_char '.' hd with
       | [nsid; cnt; nchg; rep; canc] ->
           let tab = List.map (fun e ->
             match String.split_on_char '.' e with
             | [ep; cl; at; id] ->
                 { e_ep = n_of_string ep; e_cl = n_of_string cl; e_at = n_of_string at; e_id = n_of_string id }
             | _ -> failwith "bad entry") (split_on ',' t) in
           let subs = List.map (fun u -> fst (parse_sub (String.split_on_char '.' u))) (split_on ',' sb) in
           let ctxs = List.map (fun u ->
             let (sub, rest) = parse_sub (String.split_on_char '.' u) in
             match rest with
             | [prim; nseen; nseenev; now] ->
                 { x_sub = sub; x_prim = (prim = "1"); x_nseen = n_of_string nseen;
                   x_nseen_ev = n_of_string nseenev; x_now = n_of_inst now; x_pend = []; x_vis = [] }
             | _ -> failwith "bad ctx") (split_on ',' x) in
           { next_sid = n_of_string nsid; count = n_of_string cnt; subs; tab;
             next_chg = n_of_string nchg;
             reporting = (if rep = "-" then None else Some (dummy_sub (n_of_string rep)));
             cancelled = (canc = "1"); ctxs; kv = []; log = []; nchg = N0; evn = N0 }
       | _ -> failwith "bad snapshot head")
  | _ -> failwith ("bad snapshot: " ^ s)

(* ---- monitor: which clause of the invariant fails *)
let inv_clause (st : state) : string option =
  if inv_b st then None
  else if not (ids_ok st) then Some "ids"
  else if not (N.eqb st.count (n_of_int (List.length st.subs + List.length st.ctxs))) then Some "count"
  else match List.find_opt (fun s -> not (kept_ok st.log st.tab s)) st.subs with
    | Some s -> Some ("no_lost_change sub=" ^ string_of_n s.s_id)
    | None ->
      match List.find_opt (fun x -> not (ctx_ok st.log st.tab x)) st.ctxs with
      | Some x -> Some ("no_lost_change_in_flight sub=" ^ string_of_n x.x_sub.s_id)
      | None -> Some "events"

let spec_case (id : string) (toks : string list) : unit =
  let g = ref init in
  let viol = ref None in
  let flag k name = if !viol = None then viol := Some (Printf.sprintf "%s step=%d" name k) in
  List.iteri (fun k tok ->
    if !viol = None then
      match String.split_on_char '~' tok with
      | [optext; snap; ob] ->
          let o = parse_op optext in
          let snap = parse_snapshot snap in
          let ob = (match ob with "t" -> Some true | "f" -> Some false | _ -> None) in
          let before = !g in
          let after = mon_step before o ob snap in
          g := after;
          (match inv_clause after with Some c -> flag k c | None -> ());
          List.iter (fun s -> if not (due_ok s) then flag k ("liveness_due sub=" ^ string_of_n s.s_id)) after.subs;
          (match o with
           | OReportBegin (now, _) ->
               List.iter (fun x ->
                 if not x.x_prim && find_ctx x.x_sub.s_id before.ctxs = None then
                   if not (begin_ok x.x_sub now) then flag k ("min_interval sub=" ^ string_of_n x.x_sub.s_id))
                 after.ctxs
           | OCtxEnd (sid, EFail) ->
               (match find_ctx sid before.ctxs, List.find_opt (fun s -> N.eqb s.s_id sid) after.subs with
                | Some x, Some s' -> if not (retry_ok x s') then flag k ("retry_same_content sub=" ^ string_of_n sid)
                | _ -> ())
           | OCtxEnd (sid, ESkip) ->
               (* the implementation did not send the report (its answer 'f'): reported_at must not have moved *)
               (match ob, find_ctx sid before.ctxs, List.find_opt (fun s -> N.eqb s.s_id sid) after.subs with
                | Some false, Some x, Some s' ->
                    if not (skip_ok x s') then flag k ("liveness_reference_moved sub=" ^ string_of_n sid)
                | _ -> ())
           | OWake now ->
               List.iter (fun s ->
                 if not (expiry_ok s now) then flag k ("expiry sub=" ^ string_of_n s.s_id)) after.subs
           | _ -> ())
      | _ -> failwith ("bad trace token: " ^ tok)) toks;
  match !viol with
  | Some v -> Printf.printf "T %s VIOL %s\n" id v
  | None -> Printf.printf "T %s ok\n" id

let model_case (id : string) (toks : string list) : unit =
  let st = ref init and clock = ref N0 in
  let buf = Buffer.create 1024 in
  List.iter (fun t ->
    let o = parse_op t in
    (match op_now o with Some n -> if N.ltb !clock n then clock := n | None -> ());
    let (st', out) = step !st o in
    st := st';
    Buffer.add_string buf (Printf.sprintf " %s#%016Lx" (out_str out) (digest_state st' !clock))) toks;
  Printf.printf "Q %s%s | %s\n" id (Buffer.contents buf) (state_str !st)

(* ---- event queue (component stream V): capacity 256 as in the harness build *)
let vcap = n_of_int 256

let tier_str (l : ev list) : string =
  String.concat "," (List.map (fun e ->
    Printf.sprintf "%s.%s.%s" (string_of_n e.v_num) (string_of_n e.v_prio) (string_of_n e.v_len)) l)
let evq_str (q : evq) : string =
  Printf.sprintf "c[%s]i[%s]d[%s]n%s" (tier_str q.q_crit) (tier_str q.q_info) (tier_str q.q_dbg) (string_of_n q.q_next)

let parse_tier (s : string) : ev list =
  List.map (fun t -> match String.split_on_char '.' t with
    | [n; p; l] -> { v_num = n_of_string n; v_prio = n_of_string p; v_len = n_of_string l }
    | _ -> failwith "bad event") (split_on ',' s)

(* "c[..]i[..]d[..]n<next>" *)
let parse_evq (s : string) : evq =
  match String.split_on_char '[' s with
  | [_; c; i; d] ->
      let upto x = String.sub x 0 (String.index x ']') in
      let nx = String.rindex d 'n' in
      { q_crit = parse_tier (upto c); q_info = parse_tier (upto i); q_dbg = parse_tier (upto d);
        q_next = n_of_string (String.sub d (nx + 1) (String.length d - nx - 1)) }
  | _ -> failwith ("bad queue dump: " ^ s)

let model_v (id : string) (toks : string list) : unit =
  let q = ref evq_init in
  let buf = Buffer.create 512 in
  List.iter (fun t ->
    match String.split_on_char ':' t with
    | [prio; _pay; len] ->
        let (q', ok) = push vcap (n_of_string prio) (n_of_string len) !q in
        q := q';
        Buffer.add_string buf (Printf.sprintf " %s%s" (if ok then "+" else "!") (evq_str q'))
    | _ -> failwith ("bad V token: " ^ t)) toks;
  Printf.printf "V %s%s\n" id (Buffer.contents buf)

(* monitor on the dumps of the real queue: ascending iteration order, capacities, priorities per buffer *)
let spec_v (id : string) (toks : string list) : unit =
  let bad = ref None in
  List.iteri (fun k t ->
    if !bad = None then begin
      let body = String.sub t 1 (String.length t - 1) in
      if not (qinv_b vcap (parse_evq body)) then bad := Some k
    end) toks;
  match !bad with
  | Some k -> Printf.printf "V %s VIOL event_queue_order step=%d\n" id k
  | None -> Printf.printf "V %s ok\n" id

(* ---- end-to-end traces (stream U) *)
let spec_u (id : string) (line : string) : unit =
  match String.split_on_char '|' line with
  | [outcome; toks; fin] ->
      let toks = List.filter (fun t -> t <> "") (String.split_on_char ' ' toks) in
      let fin = List.filter (fun t -> t <> "") (String.split_on_char ' ' fin) in
      let g = ref init in
      let viol = ref None and diff = ref None and pend_est = ref None in
      let iter_now = ref N0 and iter_evw = ref N0 in
      let flag k name = if !viol = None then viol := Some (Printf.sprintf "%s step=%d" name k) in
      let dflag k name = if !diff = None then diff := Some (Printf.sprintf "%s step=%d" name k) in
      List.iteri (fun k tok ->
        if !viol = None then
          match String.split_on_char '~' tok with
          | [optext; snap; ob] ->
              let o = parse_op optext in
              let snap = if snap = "-" then None else Some (parse_snapshot snap) in
              (* the reporter's iteration: its `now` and event watermark are fixed when it wakes up *)
              (match o with
               | OWake now -> iter_now := now
               | OReportBegin (now, lag) when ob <> "q" -> iter_now := now; iter_evw := N.sub (!g).evn lag
               | OReportBegin (now, lag) ->
                   (* a report that followed another one: same iteration if the model finds something reportable
                      with the iteration's stale values, else the reporter found nothing, purged and woke up again *)
                   let lag_it = N.sub (!g).evn !iter_evw in
                   (match snd (step_gen true true true None !g (OReportBegin (!iter_now, lag_it))) with
                    | USid (Some _) -> ()
                    | _ ->
                        g := fst (step_gen true true true None !g OPurge);
                        g := fst (step_gen true true true None !g (OWake now));
                        iter_now := now; iter_evw := N.sub (!g).evn lag)
               | _ -> ());
              let o = (match o with
                       | OReportBegin (_, _) when ob = "q" -> OReportBegin (!iter_now, N.sub (!g).evn !iter_evw)
                       | _ -> o) in
              let ob = (match ob with "t" -> Some true | "f" -> Some false | _ -> None) in
              let before = !g in
              (* the model's own prediction, from the monitor's state *)
              let (pred, pout) = step_gen true true true None before o in
              (match ob, pout with
               | Some b, UBool pb -> if b <> pb then dflag k ("emitted:" ^ optext)
               | _ -> ());
              let after = mon_step_e2e before o ob snap in
              g := after;
              (match o with
               | OCtxEnd (sid, EOk) ->
                   (match find_ctx sid before.ctxs with Some x when x.x_prim -> pend_est := Some sid | _ -> ())
               | ORemove _ -> pend_est := None
               | _ -> ());
              (match snap with
               | Some s ->
                   if not (agree_e2e pred s) then begin
                     if Sys.getenv_opt "C13_DEBUG" <> None && !diff = None then
                       Printf.eprintf "DIFF %s step %d %s\n  predicted %s\n  observed  %s\n" id k optext (state_str pred) (state_str s);
                     dflag k ("state:" ^ optext)
                   end;
                   (* the invariant needs the monitor's bookkeeping (contexts cannot be observed end to end): it is
                      meaningful for as long as the model's prediction has matched what was observed *)
                   (match inv_clause after with
                    | Some c -> if !diff = None then flag k c else ()
                    | None -> ());
                   List.iter (fun s -> if not (due_ok s) then flag k ("liveness_due sub=" ^ string_of_n s.s_id)) after.subs;
                   (match !pend_est with
                    | Some sid -> pend_est := None;
                        if not (established_ok after sid) then flag k ("established_not_kept sub=" ^ string_of_n sid)
                    | None -> ());
                   (match o with
                    | OCtxEnd (sid, EFail) ->
                        (match find_ctx sid before.ctxs, List.find_opt (fun s -> N.eqb s.s_id sid) after.subs with
                         | Some x, Some s' -> if not (retry_ok x s') then flag k ("retry_same_content sub=" ^ string_of_n sid)
                         | _ -> ())
                    | _ -> ())
               | None -> ());
              (match o with
               | OReportBegin (now, _) ->
                   List.iter (fun x ->
                     if not x.x_prim && find_ctx x.x_sub.s_id before.ctxs = None then
                       if not (begin_ok x.x_sub now) then flag k ("min_interval sub=" ^ string_of_n x.x_sub.s_id))
                     after.ctxs
               | _ -> ())
          | _ -> failwith ("bad trace token: " ^ tok)) toks;
      (* what the subscriber ends up knowing *)
      let known_loss = ref None in
      List.iter (fun t ->
        match String.split_on_char ':' t with
        | ["L"; sid; alive] -> if alive <> "1" && !viol = None then viol := Some ("established_subscription_gone sub=" ^ sid)
        | ["P"; sid; rep; rx] ->
            if int_of_string rep > int_of_string rx && !viol = None then
              viol := Some (Printf.sprintf "liveness_reference_moved sub=%s reported_at=%s last_message=%s" sid rep rx)
        | ["F"; sid; k; dev; got] ->
            if not (learned_ok [(n_of_string dev, n_of_string got)]) && !viol = None then
              viol := Some (Printf.sprintf "change_never_reported sub=%s path=%s device=%s subscriber=%s" sid k dev got)
        | ["G"; sid; exp; got; lost] ->
            let l s = if s = "-" then [] else String.split_on_char '.' s in
            let missing = List.filter (fun n -> not (List.mem n (l got))) (l exp) in
            let unexplained = List.filter (fun n -> not (List.mem n (l lost))) missing in
            if unexplained <> [] && !viol = None then
              viol := Some (Printf.sprintf "event_never_reported sub=%s event=%s" sid (List.hd unexplained))
            else if missing <> [] then known_loss := Some (Printf.sprintf "sub=%s event=%s" sid (List.hd missing));
            (* order and no duplicates *)
            let rec asc = function a :: (b :: _ as t) -> int_of_string a < int_of_string b && asc t | _ -> true in
            if not (asc (l got)) && !viol = None then viol := Some ("events_out_of_order sub=" ^ sid)
        | _ -> ()) fin;
      let outcome = String.trim outcome in
      if String.length outcome < 4 || String.sub outcome 0 4 <> "done" then
        (if !viol = None then viol := Some ("run:" ^ outcome));
      (match !viol, !known_loss, !diff with
       | Some v, _, _ -> Printf.printf "U %s VIOL %s\n" id v
       | None, Some kl, _ -> Printf.printf "U %s KNOWN event_evicted_before_report %s\n" id kl
       | None, None, Some d -> Printf.printf "U %s DIFF %s\n" id d
       | None, None, None -> Printf.printf "U %s ok\n" id)
  | _ -> Printf.printf "U %s VIOL malformed-trace\n" id

let () =
  let spec_mode = Array.length Sys.argv > 1 && Sys.argv.(1) = "spec" in
  try
    while true do
      let line = input_line stdin in
      (* whatever the harness printed (a panic, a hang, a truncated line under mutated code): never crash, say so *)
      try
      (match String.split_on_char ' ' line with
      | "Q" :: id :: toks -> if not spec_mode then model_case id (List.filter (fun t -> t <> "") toks)
      | "T" :: id :: toks -> if spec_mode then spec_case id (List.filter (fun t -> t <> "") toks)
      | "V" :: id :: toks ->
          let toks = List.filter (fun t -> t <> "") toks in
          if spec_mode then spec_v id toks else model_v id toks
      | "U" :: id :: _ ->
          if spec_mode then begin
            let i = String.index_from line 2 ' ' in
            spec_u id (String.sub line (i + 1) (String.length line - i - 1))
          end
      | _ -> ())
      with
      | End_of_file -> raise End_of_file
      | e ->
          (match String.split_on_char ' ' line with
           | kind :: id :: _ ->
               if spec_mode then Printf.printf "%s %s VIOL unreadable-output:%s\n" kind id
                   (String.map (fun c -> if c = ' ' then '_' else c) (Printexc.to_string e))
               else Printf.printf "%s %s model-error\n" kind id
           | _ -> ())
    done
  with End_of_file -> ()
