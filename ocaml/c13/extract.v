(* Extraction of the C13 model.  ExtrOcamlBasic only: bool, option, list,
   prod, unit, sumbool map to OCaml's; N / positive stay inductive. *)
From RsM Require Import Lib.MachInt Model.Subs Model.SubsSpec Model.C13Events.
Require Import ExtrOcamlBasic.
Extraction Language OCaml.
Extraction "model.ml"
  N.add N.mul N.div_eucl N.eqb N.leb N.ltb
  init step step_gen run
  is_reportable report_allowed_at report_due_at next_report_at is_expired retry_backoff_secs
  find_ctx find_sub
  inv_b ids_ok kept_ok ctx_ok ev_ok
  graft mon_step begin_ok due_ok retry_ok expiry_ok unprimed
  mon_step_e2e agree_e2e established_ok learned_ok skip_ok
  evq_init push all_events report_events qinv_b retained.
