(* Line-oriented driver for the C02 model (PASE responder, commissioning window, symbolic SPAKE2+).
   stdin: case lines   S <id> <op>;<op>;...   |   E <id> k=v ...   |   K <id> <class>
   stdout: the same canonical lines the harness prints from the real code.
   argv[1] = "spec": monitor mode - stdin carries, per S case, the case line followed by the
   IMPLEMENTATION's output line; the extracted [mon_run] is evaluated on the implementation's own
   answers and observations and one verdict line per case is printed. *)
open Model
open Util

let n = n_of_string
let s_of_n = string_of_n
let ni = n_of_int

let starts s p = String.length s >= String.length p && String.sub s 0 (String.length p) = p
let after s p = String.sub s (String.length p) (String.length s - String.length p)
let num_after s p = try int_of_string (after s p) with _ -> 0

(* request variant -> (class, code naming the byte string); the bool says whether the class is known by construction *)
let req_variant (v : string) : reqclass * int * bool =
  match v with
  | "ok" -> (RqOk, 0, true)
  | "sp" -> (RqOk, 1, true)
  | "spf" -> (RqOk, 15, true)
  | "extra" -> (RqOk, 2, true)
  | "duprand" -> (RqOk, 3, true)
  | "hasp" -> (RqOkHasParams, 4, true)
  | "pid1" -> (RqPid, 5, true)
  | "rand16" -> (RqBadRandom, 6, true)
  | "rand33" -> (RqBadRandom, 7, true)
  | "norand" -> (RqUnparsable, 8, true)
  | "nossid" -> (RqUnparsable, 9, true)
  | "nopid" -> (RqUnparsable, 10, true)
  | "nohasp" -> (RqUnparsable, 11, true)
  | "empty" -> (RqUnparsable, 12, true)
  | "junk" -> (RqUnparsable, 13, true)
  | "noend" -> (RqOk, 14, true)            (* the reader does not insist on the end-of-container *)
  | v when starts v "trunc" -> (RqUnparsable, 100 + num_after v "trunc", true)
  | v when starts v "flip" -> (RqUnparsable, 400 + num_after v "flip", false)
  | _ -> (RqUnparsable, 99, true)

let pt_variant (v : string) : ptclass =
  match v with
  | "own" -> PcOwn
  | "other" -> PcOther
  | "ident0" | "ident4" -> PcIdentity
  | "offc" | "offx" | "xrange" | "fmt" -> PcOffCurve
  | "wrongop" -> PcWrongOp
  | _ -> PcMalformed

let ca_variant (v : string) : cacls =
  match v with
  | "own" -> CcOwn
  | "zero" -> CcOther (ni 999)
  | "replay" -> CcReplay
  | "wrongop" -> CcWrongOp
  | v when starts v "flip" -> CcOther (ni (num_after v "flip"))
  | _ -> CcMalformed

let parse_sop (t : string) : sop =
  let f = Array.of_list (split_on ':' t) in
  let a i = if i < Array.length f then f.(i) else "" in
  let num i = try n (a i) with _ -> N0 in
  match a 0 with
  | "open" -> SOpen (a 1 = "b", num 2, num 3, num 4, num 5, num 6)
  | "close" -> SClose
  | "poll" -> SPoll
  | "adv" -> SAdv (num 1)
  | "req" ->
      let (cls, code, _) = req_variant (a 2) in
      SReq (num 1, cls, ni code, a 3 <> "a")
  | "p1" ->
      let rv = match a 4 with "salt" -> 1 | "iter" -> 2 | "hash" -> 3 | _ -> 0 in
      SP1 (num 1, num 2, pt_variant (a 3), ni rv)
  | "p3" -> SP3 (num 1, ca_variant (a 2), a 3 <> "a")
  | "ack" -> SAck (num 1)
  | "st" -> SStatus (num 1)
  | "abort" -> SAbort (num 1)
  | _ -> failwith ("bad op " ^ t)

let out_str = function
  | ONone -> "none"
  | OOk -> "ok" | OBusy -> "busy" | OInvalidCommand -> "invcmd" | OConstraint -> "constraint"
  | OClosed true -> "closed" | OClosed false -> "-"
  | OResp (_, Some _) -> "resp" | OResp (_, None) -> "respnp"
  | OPake2 _ -> "pake2"
  | OStatus StSuccess -> "success" | OStatus StInvalidParameter -> "invparam"
  | OStatus StBusy -> "busy" | OStatus StSessionNotFound -> "notfound"

let obs_str (o : obs) =
  let w = match o.o_win with
    | None -> "n"
    | Some (f, x) -> "o" ^ s_of_n f ^ (if x then "x" else "") in
  let m = match o.o_marker with
    | None -> "n"
    | Some (e, x) -> s_of_n e ^ (if x then "x" else "") in
  let ss = List.sort compare (List.map (fun (p, live) -> (int_of_n p, live)) o.o_sess) in
  let s = String.concat "+" (List.map (fun (p, live) -> string_of_int p ^ (if live then "" else "r")) ss) in
  Printf.sprintf "%s,%s,[%s],%d,%d" w m s (if o.o_fs then 1 else 0) (if o.o_adv then 1 else 0)

(* ---- parsing the implementation's line for the monitor *)

let parse_out (s : string) : out =
  match s with
  | "none" -> ONone | "ok" -> OOk | "busy" -> OStatus StBusy | "invcmd" -> OInvalidCommand
  | "constraint" -> OConstraint | "closed" -> OClosed true | "-" -> OClosed false
  | "resp" -> OResp (N0, Some { vf_pw = N0; vf_salt = N0; vf_saltlen = N0; vf_iters = N0 })
  | "respnp" -> OResp (N0, None)
  | "pake2" -> OPake2 N0
  | "success" -> OStatus StSuccess | "invparam" -> OStatus StInvalidParameter
  | "notfound" -> OStatus StSessionNotFound
  | _ -> ONone

let parse_flagged (s : string) : (n * bool) option =
  if s = "n" || s = "" then None
  else
    let x = s.[String.length s - 1] = 'x' in
    let body = if x then String.sub s 0 (String.length s - 1) else s in
    let body = if starts body "o" then after body "o" else body in
    (try Some (n body, x) with _ -> Some (ni 65535, x))

let parse_obs (s : string) : obs =
  (* win,marker,[sessions],fs,adv *)
  let f = Array.of_list (split_on ',' s) in
  let a i = if i < Array.length f then f.(i) else "" in
  let sess =
    let t = a 2 in
    let t = if String.length t >= 2 then String.sub t 1 (String.length t - 2) else "" in
    List.map (fun x ->
      let r = String.length x > 0 && x.[String.length x - 1] = 'r' in
      let b = if r then String.sub x 0 (String.length x - 1) else x in
      (n b, not r)) (split_on '+' t) in
  { o_win = parse_flagged (a 0); o_marker = parse_flagged (a 1); o_sess = sess;
    o_fs = (a 3 = "1"); o_adv = (a 4 = "1") }

let viol_str = function
  | VSessionWithoutWindow -> "session-without-window"
  | VSessionWithoutProof -> "session-without-proof"
  | VSessionOutOfStep -> "session-out-of-step"
  | VFailureNotCounted -> "failure-not-counted"
  | VSuccessCounted -> "success-counted"
  | VCounterRange -> "counter-range"
  | VNotBusy -> "second-initiator-not-busy"
  | VAdvertised -> "advertised-differs-from-window"
  | VSessionLost -> "session-lost"

let field (kv : string list) (k : string) : string =
  let r = ref "" in
  List.iter (fun x -> match String.index_opt x '=' with
    | Some i when String.sub x 0 i = k -> r := String.sub x (i + 1) (String.length x - i - 1)
    | _ -> ()) kv;
  !r

let mitm_of = function
  | "none" -> MNone | "req-altered" -> MReqAltered | "req-broken" -> MReqBroken
  | "resp-altered" -> MRespAltered | "p1-invalid" -> MP1Invalid | "p1-swapped" -> MP1Swapped | "p2-altered" -> MP2Altered
  | "p3-altered" -> MP3Altered | "p3-broken" -> MP3Broken
  | s -> failwith ("bad mitm class " ^ s)

let wop_of (s : string) : wop =
  match s with
  | "close" -> WClose | "expire" -> WExpire
  | s when starts s "reopen" -> WReopen (ni (num_after s "reopen"))
  | _ -> WNone

let run_e (kv : string list) : string =
  let pwb = n (field kv "pwb") and pwa = n (field kv "pwa") in
  let cls = mitm_of (field kv "class") in
  let at = n (field kv "at") in
  let w = wop_of (field kv "wop") in
  let (s0, _) = step init (Open (true, { vf_pw = pwb; vf_salt = ni 77; vf_saltlen = ni 32; vf_iters = ni 2000 }, ni 900)) in
  let (s, ok) = e2e_run s0 pwa cls at w in
  Printf.sprintf "a=%s %s" (if ok then "ok" else "fail") (obs_str (observe s))

let () =
  let spec = Array.length Sys.argv > 1 && Sys.argv.(1) = "spec" in
  let buf = Buffer.create 65536 in
  (try
    while true do
      let line = input_line stdin in
      if line <> "" then begin
        let f = split_on ' ' line in
        match f with
        | "S" :: id :: rest ->
            let ops = List.filter (fun x -> x <> "") (split_on ';' (String.concat " " rest)) in
            let sops = List.map parse_sop ops in
            if spec then begin
              let impl = input_line stdin in
              let toks = match split_on ' ' impl with _ :: _ :: t -> List.filter (fun x -> x <> "") t | _ -> [] in
              let rec zip a b = match a, b with
                | x :: xs, y :: ys -> (x, y) :: zip xs ys
                | _, _ -> [] in
              let parsed = List.map (fun (o, t) ->
                match String.index_opt t '/' with
                | Some i -> (o, (parse_out (String.sub t 0 i), parse_obs (String.sub t (i + 1) (String.length t - i - 1))))
                | None -> (o, (ONone, obs0))) (zip sops toks) in
              let v = mon_run mon0 obs0 parsed in
              let complete = List.length toks = List.length sops in
              let names = List.sort_uniq compare (List.map viol_str v) in
              let names = if complete then names else names @ ["run-incomplete"] in
              Buffer.add_string buf (Printf.sprintf "S %s %s\n" id (if names = [] then "ok" else String.concat "," names))
            end else begin
              let res = script_run init ist0 sops in
              let toks = List.map (fun (r, o) -> out_str r ^ "/" ^ obs_str o) res in
              Buffer.add_string buf (Printf.sprintf "S %s %s\n" id (String.concat " " toks))
            end
        | "E" :: id :: kv ->
            if spec then begin
              (* implementation line: E <id> a=<res> <obs> *)
              let impl = input_line stdin in
              let t = Array.of_list (split_on ' ' impl) in
              let a_ok = Array.length t > 2 && t.(2) = "a=ok" in
              let o = if Array.length t > 3 then parse_obs t.(3) else obs0 in
              let ok = e2e_holds (n (field kv "pwb")) (n (field kv "pwa")) (field kv "class" = "none")
                         (wop_of (field kv "wop")) (n (field kv "at")) a_ok (ni (List.length o.o_sess)) in
              let complete = Array.length t > 3 && (t.(2) = "a=ok" || t.(2) = "a=fail") in
              Buffer.add_string buf (Printf.sprintf "E %s %s\n" id
                (if not complete then "run-incomplete" else if ok then "ok" else "session-without-proof-or-window"))
            end else Buffer.add_string buf (Printf.sprintf "E %s %s\n" id (run_e kv))
        | "K" :: id :: cls :: _ ->
            if spec then ignore (input_line stdin)
            else begin
              let p = match pt_variant cls with
                | PcOwn | PcOther -> PtValid (ni 1)
                | PcIdentity -> PtIdentity
                | _ -> PtOffCurve in
              Buffer.add_string buf (Printf.sprintf "K %s %s\n" id (if point_valid p then "ok" else "rej"))
            end
        | _ -> ()
      end
    done
  with End_of_file -> ());
  print_string (Buffer.contents buf)
