(* Extraction of the C02 model (PASE responder + commissioning window), the scripted /
   honest initiators and the executable property.  ExtrOcamlBasic only: bool, option, list,
   prod, unit, sumbool map to OCaml's; N / positive / nat stay inductive. *)
From Coq Require Import NArith.
From RsM Require Import Model.Pase Model.PaseSpec.
Require Import ExtrOcamlBasic.
Extraction Language OCaml.
Extraction "model.ml"
  N.add N.mul N.div_eucl
  init step run observe script_step script_run ist0
  point_valid e2e_run apply_wop
  mon_run mon0 obs0 c02_holds e2e_holds.
