(* Extraction of the C11 model (instantiated codecs) and monitor.  ExtrOcamlBasic only: bool,
   option, list, prod, unit, sumbool map to OCaml's; N / positive stay inductive. *)
From Coq Require Import NArith.
From RsM Require Import Model.Persist Model.PersistSpec.
Require Import ExtrOcamlBasic.
Extraction Language OCaml.
Extraction "model.ml"
  N.add N.mul N.div_eucl N.eqb
  c_step c_step_cut c_startup c_replay c_kvlog init_state init_state_at reset_keys
  monitor bad_cache_ok census_left
  V_NO_BOOT V_ACK_EARLY V_LOST V_PARTIAL V_LEFTOVER V_FLUSHED V_STALE V_STALE_LIVE V_REBOUND V_SUBS_MIRROR V_SUBS_STALE V_SUBS_STALE_LIVE V_SUBS_REBOUND.
