(* Line-oriented driver for the C11 model (persistence: key layout, operations as lists of
   key-value operations, start-up, factory reset).
   stdin: the case lines of harness/src/bin/c11.rs; stdout: the same canonical lines the harness
   prints from the real code (for C lines: without the per-blob records, which are the
   implementation's own observations).
   argv[1] = "spec": monitor mode - stdin carries the IMPLEMENTATION's output lines; the extracted
   [monitor] / [bad_cache_ok] are evaluated on them and one verdict line per case is printed. *)
open Model
open Util

let n = n_of_string
let s_of_n = string_of_n
let ni = n_of_int

(* the session of a token: 'p' or the digits of a fabric index; returns it with the arguments *)
let parse_caller_args (t : string) : caller * string list =
  let len = String.length t in
  let (c, pos) =
    if len > 1 && t.[1] = 'p' then (SP, 2)
    else begin
      let j = ref 1 in
      while !j < len && t.[!j] >= '0' && t.[!j] <= '9' do incr j done;
      (SC (n_of_string (String.sub t 1 (!j - 1))), !j)
    end in
  let rest = if pos < len && t.[pos] = ':' then String.sub t (pos + 1) (len - pos - 1) else "" in
  (c, if rest = "" then [] else split_on ':' rest)

let rec parse_op (t : string) : op =
  match String.index_opt t '~' with
  | Some i -> parse_op (String.sub t 0 i)
  | None ->
  match t.[0] with
  | 'E' -> OExpire
  | 'J' -> OFlush
  | '!' -> OReset
  | 'P' -> OPase
  | 'Q' -> OCrash
  | 'H' ->
    (match split_on ':' t with
     | [_; f; p] -> OResume (n f, n p)
     | _ -> failwith ("bad op " ^ t))
  | kind ->
    let (c, rest) = parse_caller_args t in
    let cf = match c with SC f -> f | SP -> N0 in
    let a i = n (List.nth rest i) in
    (match kind with
     | 'A' -> OArm c
     | 'K' -> OAddNoc (a 0)
     | 'u' -> OUpdNoc (cf, a 0)
     | 'W' -> ONet (c, a 0)
     | 'Z' -> OComplete cf
     | 'L' -> OAcl (c, a 0)
     | 'G' -> OGkm (c, a 0)
     | 'F' -> OLabel (c, a 0)
     | 'V' -> OVid (c, a 0)
     | 'B' -> OBind (c, a 0)
     | 'U' -> OULabel (c, a 0)
     | 'N' -> ONodeLabel (c, a 0)
     | 'O' -> OLocation (c, a 0)
     | 'Y' -> OReg (c, a 0)
     | 'X' -> ORemove (c, a 0)
     | 'T' -> OTz (c, a 0)
     | 't' -> OTts (c, a 0)
     | 'I' -> OIcd (c, a 0)
     | 'o' -> OOta (c, a 0)
     | 's' -> OScene (c, a 0)
     | 'D' -> OSub (c, a 0)
     | _ -> failwith ("bad op " ^ t))

(* <op>~<j>: how many key-value operations of the operation reach the store before the power is lost *)
let cut_of (t : string) : int option =
  match String.index_opt t '~' with
  | Some i -> (try Some (int_of_string (String.sub t (i + 1) (String.length t - i - 1))) with _ -> Some 0)
  | None -> None

let rec nat_of_int (i : int) : nat = if i <= 0 then O else S (nat_of_int (i - 1))

let opt_str = function None -> "-" | Some x -> s_of_n x

let sort_by_key l = List.sort (fun (a, _) (b, _) -> compare (int_of_n a) (int_of_n b)) l

let cells_str (r : ram) (m : (n * cblob) list) : string =
  let fabs = List.map (fun (i, f) ->
      Printf.sprintf "F%s=%s:%s:%s:%s:%s" (s_of_n i) (s_of_n f.f_nid) (s_of_n f.f_vid)
        (s_of_n f.f_label) (s_of_n f.f_acl) (s_of_n f.f_gkm)) (sort_by_key r.r_fabs) in
  let b = r.r_basic in
  let basic = Printf.sprintf "I=%s/%s/%s" (s_of_n b.b_label) (opt_str b.b_loc) (opt_str b.b_reg) in
  let join l = if l = [] then "-" else String.concat "+" l in
  let res = "R=" ^ join (List.map (fun (f, p) -> s_of_n f ^ "." ^ s_of_n p) r.r_resump) in
  let nets = Printf.sprintf "W=%d:%s" (if r.r_nets.n_managed then 1 else 0) (join (List.map s_of_n r.r_nets.n_ids)) in
  let labels = "U=" ^ (if r.r_labels = N0 then "-" else "1." ^ s_of_n r.r_labels) in
  let binds = "D=" ^ join (List.map (fun (f, t) -> "1." ^ s_of_n f ^ "." ^ s_of_n t) (sort_by_key r.r_binds)) in
  let per_fabric name m = name ^ "=" ^ join (List.map (fun (f, t) -> s_of_n f ^ "." ^ s_of_n t) (sort_by_key m)) in
  let tz = "Z=" ^ s_of_n r.r_tz in
  let tts = "T=" ^ (match r.r_tts with None -> "-" | Some (f, v) -> s_of_n f ^ "." ^ s_of_n v) in
  let subs = "S=" ^ join (List.map (fun (f, t) -> s_of_n f ^ "." ^ s_of_n t) r.r_subs) in
  let stored = "K=" ^ (match List.find_opt (fun (k, _) -> k = ni 267) m with
      | None -> "-"
      | Some (_, BRes []) -> "0"
      | Some (_, BRes l) -> join (List.map (fun (f, p) -> s_of_n f ^ "." ^ s_of_n p) l)
      | Some _ -> "!") in
  let slots = "M=" ^ join (List.filter_map (fun (k, b) ->
      let k = int_of_n k in
      if k < 2048 || k >= 4096 then None
      else Some (match b with
          | BSub (f, t) -> Printf.sprintf "%d:%s.%s" (k - 2048) (s_of_n f) (s_of_n t)
          | _ -> Printf.sprintf "%d:!" (k - 2048))) (sort_by_key m)) in
  String.concat " " (fabs @ [basic; res; nets; labels; binds; tz; tts;
                             per_fabric "C" r.r_icd; per_fabric "P" r.r_ota; per_fabric "E" r.r_scenes; subs; stored; slots])

let kvop_str = function
  | KStore (k, _) -> "s" ^ s_of_n k
  | KRemove k -> "r" ^ s_of_n k

let fs_str = function
  | Idle -> "i"
  | Armed (ctx, stage) -> Printf.sprintf "a%s:%d" (s_of_n ctx) (if stage = ni 2 then 1 else 0)

let rec take k l = if k <= 0 then [] else match l with [] -> [] | x :: t -> x :: take (k - 1) t

let run_s (f : string list) : string =
  let init = List.nth f 2 in
  let st0 =
    if init.[0] = 'i' then begin
      match split_on ':' (String.sub init 1 (String.length init - 1)) with
      | [idx; p] -> init_state_at (List.map n (List.filter (fun x -> x <> "") (split_on '+' idx))) (p = "1")
      | _ -> failwith ("bad init " ^ init)
    end else init_state (ni (Char.code init.[0] - 48)) (init.[1] = '1') in
  let ops = match f with
    | _ :: _ :: _ :: o :: _ -> List.map (fun t -> (t, parse_op t)) (List.filter (fun x -> x <> "") (split_on ',' o))
    | _ -> [] in
  let st = ref st0 in
  let log = ref [] in          (* whole key-value log, in order *)
  let skips = ref [] in        (* (first, last) cut positions inside a factory reset *)
  let recs = List.map (fun (tok, o) ->
      let cut = cut_of tok in
      let (st', evs) = match cut with
        | Some j -> c_step_cut true !st o (nat_of_int j)
        | None -> c_step true !st o in
      let kvs = c_kvlog evs in
      let before = List.length !log in
      (* the event epoch and the group counter keys are property C12's: not counted (harness: foreign_key) *)
      let foreign = function KStore (k, _) | KRemove k -> k = ni 257 || k = ni 269 in
      log := !log @ List.filter (fun o -> not (foreign o)) kvs;
      let fin = List.length !log in
      (* position of the answer among the events *)
      let rec ackpos i = function
        | [] -> None
        | EKv _ :: t -> ackpos (i + 1) t
        | EAck s :: _ -> Some (s, i) in
      let status, ack = match (if cut <> None then None else ackpos 0 evs) with
        | Some (Ok, i) -> "ok", (match o with OSub _ -> "*" | _ -> string_of_int i)
        | Some (Refused, _) -> "no", "-"
        | None -> "-", "-" in
      let kvstr = match o with
        | OReset when cut = None ->
          if fin > before + 1 then skips := (before + 1, fin - 1) :: !skips;
          Printf.sprintf "reset:%d:0:%s" (List.length kvs)
            (if st'.s_kv = [] then "-" else String.concat "+" (List.map (fun (k, _) -> s_of_n k) (sort_by_key st'.s_kv)))
        | _ -> if kvs = [] then "-" else String.concat "," (List.map kvop_str kvs) in
      st := st';
      Printf.sprintf "%s|%s|%s|%s|%d|%s|%c" status kvstr ack (fs_str st'.s_fs) fin (cells_str st'.s_ram st'.s_kv) (if cut <> None then 'x' else tok.[0])) ops in
  let total = List.length !log in
  let cuts = ref [] in
  for k = 0 to total do
    if not (List.exists (fun (a, b) -> k >= a && k <= b) !skips) then begin
      let m = c_replay st0.s_kv (take k !log) in
      let s = match c_startup m with
        | Some (r, w) -> Printf.sprintf "%d|ok|%s" k (cells_str r (c_replay m w))
        | None -> Printf.sprintf "%d|err|" k in
      cuts := s :: !cuts
    end
  done;
  String.concat ";" recs ^ " # " ^ String.concat ";" (List.rev !cuts)

let ranges (keys : int list) : string =
  let rec go acc = function
    | [] -> List.rev acc
    | k :: t ->
      let rec ext j = function
        | x :: t' when x = j + 1 -> ext x t'
        | rest -> (j, rest) in
      let (j, rest) = ext k t in
      go ((if j = k then string_of_int k else Printf.sprintf "%d-%d" k j) :: acc) rest in
  match go [] keys with [] -> "-" | l -> String.concat "+" l

(* ------------------------------------------------------------------ monitor mode *)

let intern_tbl : (string, int) Hashtbl.t = Hashtbl.create 64
let intern (s : string) : n =
  match Hashtbl.find_opt intern_tbl s with
  | Some i -> ni i
  | None -> let i = Hashtbl.length intern_tbl + 1 in Hashtbl.add intern_tbl s i; ni i

(* "F2=.." -> (2, id)  "I=.." -> (256, id) ...; the factory-default contents are the value 0 *)
let parse_cells (s : string) : (n * n) list =
  List.filter_map (fun c ->
      if c = "" then None else
      match String.index_opt c '=' with
      | None -> None
      | Some i ->
        let name = String.sub c 0 i and v = String.sub c (i + 1) (String.length c - i - 1) in
        let key = match name.[0] with
          | 'F' -> int_of_string (String.sub name 1 (String.length name - 1))
          | 'I' -> 256 | 'W' -> 258 | 'U' -> 259 | 'D' -> 260 | 'R' -> 267
          | 'Z' -> 268 | 'T' -> 262 | 'C' -> 265 | 'P' -> 264 | 'E' -> 263 | 'S' -> 2048
          | 'K' -> 9267 | 'M' -> 9268
          | _ -> 9999 in
        let dflt = match name.[0] with
          | 'I' -> v = "0/-/-" | 'W' -> v = "0:-" | 'U' | 'D' | 'R' | 'T' | 'C' | 'P' | 'E' | 'S' | 'K' | 'M' -> v = "-"
          | 'Z' -> v = "0" | _ -> false in
        Some (ni key, if dflt then N0 else intern (name ^ "=" ^ v))) (split_on ' ' s)

(* "2.71+1.70" -> [(2,71); (1,70)]; anything else (absent, empty, unreadable) -> [] *)
let parse_pairs (v : string) : (n * n) list =
  List.filter_map (fun x ->
      match split_on '.' x with
      | [a; b] -> (try Some (n a, n b) with _ -> None)
      | _ -> None) (split_on '+' v)

let cell_value (cells : string) (name : string) : string =
  let pre = name ^ "=" in
  let l = String.length pre in
  match List.find_opt (fun c -> String.length c >= l && String.sub c 0 l = pre) (split_on ' ' cells) with
  | Some c -> String.sub c l (String.length c - l)
  | None -> "-"

let fabs_of (cells : string) : n list =
  List.filter_map (fun c ->
      if String.length c > 1 && c.[0] = 'F' then
        match String.index_opt c '=' with
        | Some i -> (try Some (ni (int_of_string (String.sub c 1 (i - 1)))) with _ -> None)
        | None -> None
      else None) (split_on ' ' cells)

(* "0:1.3+1:2.4" -> [(0,(1,3)); (1,(2,4))] *)
let parse_slots (v : string) : (n * (n * n)) list =
  List.filter_map (fun x ->
      match split_on ':' x with
      | [k; r] -> (match parse_pairs r with [p] -> (try Some (n k, p) with _ -> None) | _ -> None)
      | _ -> None) (split_on '+' v)

let vname (c : n) : string =
  if c = v_NO_BOOT then "no-boot"
  else if c = v_ACK_EARLY then "answered-before-stored"
  else if c = v_LOST then "acknowledged-change-lost"
  else if c = v_PARTIAL then "partial-commit"
  else if c = v_LEFTOVER then "factory-reset-leftover"
  else if c = v_FLUSHED then "uncommitted-flushed"
  else if c = v_STALE then "stale-cache-after-startup"
  else if c = v_STALE_LIVE then "stale-cache-after-restart"
  else if c = v_REBOUND then "record-rebound-to-new-fabric"
  else if c = v_SUBS_MIRROR then "subscription-store-differs-after-persist"
  else if c = v_SUBS_STALE then "stale-subscription-after-startup"
  else if c = v_SUBS_STALE_LIVE then "stale-subscription-after-restart"
  else if c = v_SUBS_REBOUND then "subscription-rebound-to-new-fabric"
  else "unknown"

let spec_s (f : string list) (line : string) : string =
  (* line = "S id <ops> # <cuts>" *)
  let body = String.concat " " (List.tl (List.tl f)) in
  ignore line;
  let (ops_s, cuts_s) =
    let rec find i =
      if i + 3 > String.length body then None
      else if String.sub body i 3 = " # " then Some i else find (i + 1) in
    match find 0 with
    | Some i -> (String.sub body 0 i, String.trim (String.sub body (i + 3) (String.length body - i - 3)))
    | None -> (body, "") in
  Hashtbl.reset intern_tbl;
  let ops = List.map (fun r ->
      match String.split_on_char '|' r with
      | status :: kv :: ack :: fs :: fin :: cells :: rest ->
        let is_reset = String.length kv >= 6 && String.sub kv 0 6 = "reset:" in
        let nkv = if kv = "-" then 0 else if is_reset then 0 else List.length (split_on ',' kv) in
        let left = if is_reset then
            (match split_on ':' kv with
             | [_; _; _; l] -> Some (if l = "-" then N0 else ni (List.length (split_on '+' l)))
             | _ -> Some (ni 1))
          else None in
        { o_ok = (status = "ok");
          o_nkv = ni nkv;
          o_ack = (if ack = "-" || is_reset then None else if ack = "none" then Some (ni 99999) else Some (n ack));
          o_fs = (if fs = "i" || fs = "?" then None else
                    Some (n (List.hd (split_on ':' (String.sub fs 1 (String.length fs - 1))))));
          o_end = n fin;
          o_left = left;
          o_best_effort = (match rest with k :: _ -> k = "D" | [] -> false);
          o_cells = parse_cells cells;
          o_restart = (match rest with k :: _ -> k = "Q" || k = "x" | [] -> false);
          o_session = (match rest with
              | "H" :: x :: _ -> (match split_on '/' x with
                  | [_; sess] -> (match parse_pairs sess with [p] -> Some p | _ -> None)
                  | _ -> None)
              | _ -> None);
          o_fabs = fabs_of cells;
          o_res = parse_pairs (cell_value cells "R");
          o_kres = parse_pairs (cell_value cells "K");
          o_inc = (match rest with
              | _ :: x :: _ -> parse_pairs (List.hd (split_on '/' x))
              | _ -> []);
          o_subscribed = (match rest with
              | "D" :: x :: _ -> (match split_on '/' x with
                  | [_; sess] -> (match parse_pairs sess with [p] -> Some p | _ -> None)
                  | _ -> None)
              | _ -> None);
          o_pass = (not is_reset) && List.exists (fun t ->
              String.length t > 1 && (t.[0] = 's' || t.[0] = 'r') &&
              (match int_of_string_opt (String.sub t 1 (String.length t - 1)) with
               | Some k -> k >= 2048 && k < 4096 | None -> false)) (split_on ',' kv);
          o_reset = is_reset || (match rest with k :: _ -> k = "!" | [] -> false);
          o_subs = parse_pairs (cell_value cells "S");
          o_ksubs = parse_slots (cell_value cells "M") }
      | _ -> { o_ok = false; o_nkv = N0; o_ack = None; o_fs = None; o_end = N0; o_left = None; o_best_effort = false; o_cells = [];
               o_restart = false; o_session = None; o_fabs = []; o_res = []; o_kres = []; o_inc = [];
               o_subscribed = None; o_pass = false; o_reset = false; o_subs = []; o_ksubs = [] })
      (List.filter (fun x -> x <> "") (split_on ';' ops_s)) in
  let cuts = List.map (fun r ->
      match String.split_on_char '|' r with
      | k :: boot :: cells :: _ -> { c_n = n k; c_boot = (boot = "ok"); c_cells = parse_cells cells;
                                     c_fabs = fabs_of cells; c_kres = parse_pairs (cell_value cells "K");
                                     c_ksubs = parse_slots (cell_value cells "M") }
      | _ -> { c_n = N0; c_boot = false; c_cells = []; c_fabs = []; c_kres = []; c_ksubs = [] })
      (List.filter (fun x -> x <> "") (split_on ';' cuts_s)) in
  let v = monitor ops cuts in
  if v = [] then "ok"
  else String.concat "," (List.map (fun (c, p) -> vname c ^ "@" ^ s_of_n p) v)

let spec_c (f : string list) : string =
  (* C id kind count rec,rec,...   rec = <boot><parse><present><records>.<parsed>[!...] *)
  match f with
  | _ :: _ :: _ :: _ :: recs :: _ ->
    let bad = ref [] in
    List.iteri (fun i r ->
        let core = List.hd (String.split_on_char '!' r) in
        let ok =
          String.length core >= 5 &&
          (match split_on '.' (String.sub core 3 (String.length core - 3)) with
           | [a; p] -> bad_cache_ok (core.[0] = '1') (core.[1] = '1') (core.[2] = '1') (n a) (n p)
           | _ -> false) in
        if not ok && List.length !bad < 5 then bad := Printf.sprintf "%d:%s" i r :: !bad) (split_on ',' recs);
    if !bad = [] then "ok" else "damaged-cache-blocks-startup@" ^ String.concat ";" (List.rev !bad)
  | _ -> "ok"

let () =
  let spec = Array.length Sys.argv > 1 && Sys.argv.(1) = "spec" in
  (try
     while true do
       let line = input_line stdin in
       let f = String.split_on_char ' ' line in
       match f with
       | "S" :: id :: _ ->
         (* a token or record this driver does not know is a difference to report, not a crash *)
         let guard g = try g () with e -> "unreadable:" ^ String.map (fun c -> if c = ' ' then '_' else c) (Printexc.to_string e) in
         if spec then Printf.printf "S %s %s\n" id (guard (fun () -> spec_s f line))
         else Printf.printf "S %s %s\n" id (guard (fun () -> run_s f))
       | "R" :: id :: kind :: rest ->
         if spec then
           (* the implementation's own verdict on its round trips *)
           Printf.printf "R %s %s\n" id (match List.rev rest with "ok" :: _ -> "ok" | x :: _ -> "roundtrip-differs@" ^ kind ^ ":" ^ x | [] -> "ok")
         else (match rest with
             | _seed :: count :: _ -> Printf.printf "R %s %s %s ok\n" id kind count
             | _ -> ())
       | "C" :: id :: kind :: rest ->
         if spec then Printf.printf "C %s %s\n" id (spec_c f)
         else (match rest with
             | _seed :: count :: _ -> Printf.printf "C %s %s %s\n" id kind count
             | _ -> ())
       | "K" :: id :: "seeded" :: hi :: _ ->
         if spec then Printf.printf "K %s ok\n" id
         else
           let left = List.map int_of_n (census_left (n hi)) in
           Printf.printf "K %s seeded %s okok left=%s stores=0 subs=%d subs_start=2048\n" id hi (ranges left)
             (List.length reset_keys - 255 - 14)
       | _ -> ()
     done
   with End_of_file -> ())
