(* Extraction of the C01 model (symbolic CASE handshake of two nodes under a man in the middle) and of
   the executable property (monitor).  ExtrOcamlBasic only: bool, option, list, prod, unit, sumbool map
   to OCaml's; N / positive stay inductive. *)
From RsM Require Import Lib.MachInt Model.Cert Model.CertSpec Model.Case Model.CaseSpec.
Require Import ExtrOcamlBasic.
Extraction Language OCaml.
Extraction "model.ml"
  N.add N.mul N.div_eucl
  get_node_id get_fabric_id cats_of
  term_eqb msg_term find_field
  init_start init_step resp_step handshake
  allowed_i allowed_r monitor_run presented_ok addressed
  V_UNAUTH_R V_UNAUTH_I V_KEYS V_LEFT V_TAMPER V_MANY V_KEYS_S3 sigma3_alt OP_SIGMA3
  OP_STATUS.
