(* Line-oriented driver for the C01 model: reads the case lines of harness/src/bin/c01.rs, runs the
   extracted symbolic two-node model (Model/Case.v: handshake = init_start / init_step / resp_step joined
   by a network whose every message goes through the scripted man in the middle) on the SYMBOLIC IMAGE of
   the same script and prints one canonical line per case, same format as `c01 run`, followed by
   " # arms=<model arms taken>".

   argv[1] = "spec": monitor mode.  Input lines are "<case line> @@ <implementation output line>"; the
   extracted property (CaseSpec.monitor_run with allowed_i / allowed_r computed from the case's fabrics
   and certificates by C19's case_validb) is evaluated on the IMPLEMENTATION's observations.

   Case line:
     K <id> <label> clk=<R|L>:<us> certs=<tok>;<tok>;.. A=<fab>,<fab> B=<fab>,<fab> ops=<op>/<op>/..
       certificate token as in ocaml/c19/driver.ml
       fab  = root.noc.icac.sk.ipk     (indices into certs, '-' = no ICAC; signing key identity; epoch key id)
       op   = h:<fab idx at A>:<peer node id>:<script> | cc:<A|B> | rf:<A|B>:<idx>
       script = '-' | item+item..      item = <dir>.<k>.<action>
       action = x | d1 | u | fb:<tag>:<bit> | z:<tag> | del:<tag> | dupf:<tag> | add:<tag> | tr:<n>
              | st:<general>:<code> | sb:<tag>:<run>:<dir>:<k>:<srctag> | rp:<run>:<dir>:<k>
   Symbolic image of the byte-level actions: fb -> the field's value becomes a fresh TJunk; z -> TJunk 0;
   del / dupf / add / tr / sb / rp / st act on the field list; x -> not delivered; d1, u -> identity (the
   reliable-messaging layer retransmits / discards duplicates, property C09). *)
open Model
open Util

let opt_n s = if s = "-" then None else Some (n_of_string s)

let parse_dn s : dn =
  if s = "." then [] else
  List.map (fun a ->
    match String.split_on_char ':' a with
    | [t; v] -> (n_of_string t, n_of_string v)
    | _ -> failwith ("bad dn attr: " ^ a)) (String.split_on_char ',' s)

let parse_sig s : n option =
  if String.contains s '^' || String.contains s '~' then None else Some (n_of_string s)

let parse_bc s =
  if s = "-" then None else
  match String.split_on_char ':' s with
  | [ca] -> Some (ca = "1", None)
  | [ca; m] -> Some (ca = "1", Some (n_of_string m))
  | _ -> failwith ("bad bc: " ^ s)

let parse_eku s =
  if s = "-" then None else if s = "." then Some []
  else Some (List.map n_of_string (String.split_on_char ',' s))

let parse_cert (s : string) : cert =
  match String.split_on_char '/' s with
  | [su; is; sk; ak; pk; sg; nb; na; b; k; e; fx] ->
      { subject = parse_dn su; issuer = parse_dn is; skid = opt_n sk; akid = opt_n ak;
        pubkey = n_of_string pk; signer = parse_sig sg;
        not_before = n_of_string nb; not_after = n_of_string na;
        bc = parse_bc b; ku = opt_n k; eku = parse_eku e; crit_ext = (fx = "c") }
  | _ -> failwith ("bad cert: " ^ s)

(* ------------------------------------------------------------------ the case *)

type act =
  | DropAll | DropFirst | Dup
  | Flip of n | Zero of n | Del of n | DupField of n | Add of n | Trunc of int
  | Status of n * n
  | Subst of n * int * n * int * n
  | Replace of int * n * int

type item = { dir : n; k : int; act : act }

type op =
  | Hand of n * n * item list
  | ClearCache of char
  | RemoveFabric of char * n
  | UpdateNoc of char * n * string
  | SaveCache of char
  | RestoreCache of char
  | Unknown

let parse_item s : item =
  match String.split_on_char '.' s with
  | d :: k :: rest ->
      let a = String.concat "." rest in
      let p = Array.of_list (String.split_on_char ':' a) in
      let nn i = n_of_string p.(i) and ii i = int_of_string p.(i) in
      let act = match p.(0) with
        | "x" -> DropAll | "d1" -> DropFirst | "u" -> Dup
        | "fb" -> Flip (nn 1) | "z" -> Zero (nn 1) | "del" -> Del (nn 1)
        | "dupf" -> DupField (nn 1) | "add" -> Add (nn 1) | "tr" -> Trunc (ii 1)
        | "st" -> Status (nn 1, nn 2)
        | "sb" -> Subst (nn 1, ii 2, nn 3, ii 4, nn 5)
        | "rp" -> Replace (ii 1, nn 2, ii 3)
        | o -> failwith ("bad action " ^ o) in
      { dir = n_of_string d; k = int_of_string k; act }
  | _ -> failwith ("bad item " ^ s)

let parse_op s : op =
  match String.split_on_char ':' s with
  | "h" :: fab :: peer :: rest ->
      let script = String.concat ":" rest in
      Hand (n_of_string fab, n_of_string peer,
            if script = "-" then [] else List.map parse_item (String.split_on_char '+' script))
  | ["cc"; nd] -> ClearCache nd.[0]
  | ["rf"; nd; idx] -> RemoveFabric (nd.[0], n_of_string idx)
  | ["un"; nd; idx; spec] -> UpdateNoc (nd.[0], n_of_string idx, spec)
  | ["cs"; nd] -> SaveCache nd.[0]
  | ["cr"; nd] -> RestoreCache nd.[0]
  | _ -> Unknown

type case = { id : string; clk : clock; certs : cert array; fa : string list; fb : string list; ops : op list }

let field_of toks key =
  let pre = key ^ "=" in
  let l = String.length pre in
  match List.find_opt (fun t -> String.length t >= l && String.sub t 0 l = pre) toks with
  | Some t -> String.sub t l (String.length t - l)
  | None -> ""

let nonempty c s = List.filter (fun x -> x <> "") (String.split_on_char c s)

let parse_case (line : string) : case =
  match String.split_on_char ' ' line with
  | "K" :: id :: _label :: toks ->
      let clk = match String.split_on_char ':' (field_of toks "clk") with
        | ["R"; us] -> Reliable (n_of_string us)
        | [_; us] -> LastKnown (n_of_string us)
        | _ -> failwith "bad clk" in
      { id; clk;
        certs = Array.of_list (List.map parse_cert (nonempty ';' (field_of toks "certs")));
        fa = nonempty ',' (field_of toks "A"); fb = nonempty ',' (field_of toks "B");
        ops = List.map parse_op (nonempty '/' (field_of toks "ops")) }
  | _ -> failwith ("bad line: " ^ line)

let n3 = n_of_int

(* operational IPK: derived from the epoch key and the compressed fabric id (root public key, fabric id) *)
let ipk_term (epoch : n) (rootkey : n) (fid : n) : term =
  THkdf (TNonce (N.add (n3 1000) epoch), TPair (TNum rootkey, TNum fid), TNum N0)

let make_fabric (c : case) (idx : n) (s : string) : fabric =
    match String.split_on_char '.' s with
    | [r; nc; ic; sk; ipk] ->
        let root = c.certs.(int_of_string r) and noc = c.certs.(int_of_string nc) in
        let icac = if ic = "-" then None else Some c.certs.(int_of_string ic) in
        let fid = match get_fabric_id noc with Some f -> f | None -> failwith "own NOC without fabric id" in
        let nid = match get_node_id noc with Some f -> f | None -> failwith "own NOC without node id" in
        { f_idx = idx; f_root = root; f_noc = noc; f_icac = icac; f_sk = n_of_string sk;
          f_ipk = ipk_term (n_of_string ipk) root.pubkey fid; f_fid = fid; f_nid = nid }
    | _ -> failwith ("bad fabric " ^ s)

let make_fabrics (c : case) (specs : string list) : fabric list =
  List.mapi (fun i s -> make_fabric c (n3 (i + 1)) s) specs

(* Fabrics::remove then Fabrics::add: the new fabric gets index max + 1 *)
let update_noc (c : case) (st : node) (idx : n) (spec : string) : node * int option =
  if not (List.exists (fun f -> N.eqb f.f_idx idx) st.n_fabrics) then (st, None) else
  let l = List.filter (fun f -> not (N.eqb f.f_idx idx)) st.n_fabrics in
  let mx = List.fold_left (fun acc f -> max acc (int_of_n f.f_idx)) 0 l in
  ({ st with n_fabrics = l @ [ make_fabric c (n3 (mx + 1)) spec ] }, Some (mx + 1))

let make_node (c : case) specs : node =
  { n_fabrics = make_fabrics c specs; n_cache = []; n_sessions = []; n_next_id = N0; n_clock = c.clk }

(* ------------------------------------------------------------------ the man in the middle, symbolically *)

let counter = ref 0
let fresh_n () = incr counter; n3 !counter
let next_fresh () : fresh =
  let a = fresh_n () in let b = fresh_n () in let c = fresh_n () in let d = fresh_n () in
  { fr_eph = a; fr_rand = b; fr_rid = c; fr_sid = d }
let junk = ref 100
let fresh_junk () = incr junk; TJunk (n3 !junk)

let is_status (m : msg) = N.eqb m.m_op oP_STATUS

let rec replace_first tag f = function
  | [] -> []
  | x :: r -> if N.eqb x.fd_tag tag then f x @ r else x :: replace_first tag f r

let rec take n l = if n <= 0 then [] else match l with [] -> [] | x :: r -> x :: take (n - 1) r

let nth_of_dir (w : (n * msg) list) (dir : n) (k : int) : msg option =
  let l = List.filter (fun (d, _) -> N.eqb d dir) w in
  match List.nth_opt l k with Some (_, m) -> Some m | None -> None

let rewrite (history : (n * msg) list list) (a : act) (m : msg) : msg =
  match a with
  | Status (g, c) ->
      if is_status m && List.length m.m_fields >= 2 && m.m_closed then
        { m with m_fields = [ { fd_tag = N0; fd_kind = KUint; fd_val = TNum g };
                              { fd_tag = n3 1; fd_kind = KUint; fd_val = TNum c } ] }
      else m
  | Replace (run, dir, k) ->
      (match List.nth_opt history run with
       | Some w -> (match nth_of_dir w dir k with Some x -> x | None -> m)
       | None -> m)
  | _ when is_status m ->
      if not m.m_closed then m else
      (match a with
       | Flip t ->
           let t = if N.eqb t N0 then N0 else n3 1 in
           { m with m_fields = replace_first t (fun x -> [ { x with fd_val = fresh_junk () } ]) m.m_fields }
       | Zero t ->
           let t = if N.eqb t N0 then N0 else n3 1 in
           { m with m_fields = replace_first t (fun x -> [ { x with fd_val = TNum N0 } ]) m.m_fields }
       | Trunc _ -> { m with m_fields = []; m_closed = false }
       | _ -> m)
  | _ when not m.m_closed -> m   (* the harness cannot split a cut-off structure either *)
  | Flip t -> { m with m_fields = replace_first t (fun x -> [ { x with fd_val = fresh_junk () } ]) m.m_fields }
  | Zero t -> { m with m_fields = replace_first t (fun x -> [ { x with fd_val = TJunk N0 } ]) m.m_fields }
  | Del t -> { m with m_fields = replace_first t (fun _ -> []) m.m_fields }
  | DupField t -> { m with m_fields = replace_first t (fun x -> [ x; x ]) m.m_fields }
  | Add t -> { m with m_fields = m.m_fields @ [ { fd_tag = t; fd_kind = KBytes; fd_val = TJunk (n3 1) } ] }
  | Trunc n -> { m with m_fields = take n m.m_fields; m_closed = false }
  | Subst (t, run, dir, k, st) ->
      let src = match List.nth_opt history run with
        | Some w -> (match nth_of_dir w dir k with
                     | Some x when x.m_closed && not (is_status x) -> find_field st x.m_fields
                     | _ -> None)
        | None -> None in
      (match src with
       | Some s -> { m with m_fields = replace_first t (fun _ -> [ { s with fd_tag = t } ]) m.m_fields }
       | None -> m)
  | _ -> m

(* ------------------------------------------------------------------ observation, canonical form *)

let classes : term list ref = ref []
let class_of (t : term) : int =
  let rec go i = function
    | [] -> classes := !classes @ [t]; i
    | x :: r -> if term_eqb x t then i else go (i + 1) r in
  go 1 !classes

let cats_str (c : n list) =
  let v = List.filter (fun x -> x <> N0) c in
  if v = [] then "." else String.concat "," (List.map string_of_n v)

let observe_sessions (st : node) (known : n list ref) : string * int =
  let left = List.length (List.filter (fun s -> s.s_reserved) st.n_sessions) in
  let fresh = List.filter (fun s -> not s.s_reserved && not (List.exists (N.eqb s.s_id) !known)) st.n_sessions in
  let out = List.map (fun s ->
    known := !known @ [s.s_id];
    let e = class_of s.s_enc in
    let d = class_of s.s_dec in
    Printf.sprintf "f%s:p%s:c%s:e%d:d%d" (string_of_n s.s_fab) (string_of_n s.s_peer) (cats_str s.s_cats) e d) fresh in
  ((if out = [] then "-" else String.concat "&" out), left)

let observe_cache (st : node) : string =
  let v = List.map (fun r ->
    let a = class_of r.r_rid in
    let b = class_of r.r_secret in
    Printf.sprintf "f%s:p%s:c%s:r%d:s%d" (string_of_n r.r_fab) (string_of_n r.r_peer) (cats_str r.r_cats) a b) st.n_cache in
  if v = [] then "-" else String.concat "&" v

let status_str (o : msg option) : string =
  match o with
  | Some m when m.m_closed ->
      (match m.m_fields with
       | [ { fd_val = TNum g; _ }; { fd_val = TNum c; _ } ] ->
           let g = int_of_n g and c = int_of_n c in
           if List.mem (g, c) [ (0, 0); (1, 1); (1, 2); (8, 4) ] then Printf.sprintf "%d.%d" g c else "?"
       | [ _; _ ] -> "?"
       | _ -> "-")
  | _ -> "-"

let remove_fabric (st : node) (idx : n) : node * bool =
  let l = List.filter (fun f -> not (N.eqb f.f_idx idx)) st.n_fabrics in
  ({ st with n_fabrics = l }, List.length l < List.length st.n_fabrics)

let arms_log : int list ref = ref []

let run_scenario (c : case) (with_scripts : bool) : string =
  classes := [];
  let a = ref (make_node c c.fa) and b = ref (make_node c c.fb) in
  let known_a = ref [] and known_b = ref [] in
  let history : (n * msg) list list ref = ref [] in
  let saved_a = ref [] and saved_b = ref [] in
  let out = List.map (fun op ->
    match op with
    | Unknown -> "?"
    | SaveCache nd -> (if nd = 'A' then saved_a := !a.n_cache else saved_b := !b.n_cache); "cs"
    | RestoreCache nd ->
        (if nd = 'A' then a := { !a with n_cache = !saved_a } else b := { !b with n_cache = !saved_b }); "cr"
    | UpdateNoc (nd, idx, spec) ->
        let r = if nd = 'A' then a else b in
        let (st, res) = update_noc c !r idx spec in
        r := st;
        (match res with Some i -> Printf.sprintf "un%d" i | None -> "un-fail")
    | ClearCache nd ->
        if nd = 'A' then a := { !a with n_cache = [] } else b := { !b with n_cache = [] };
        "cc"
    | RemoveFabric (nd, idx) ->
        let r = if nd = 'A' then a else b in
        let (st, ok) = remove_fabric !r idx in
        r := st;
        if ok then "rf" else "rf-none"
    | Hand (fab, peer, script) ->
        let script = if with_scripts then script else [] in
        let cur : (n * msg) list ref = ref [] in
        let s3 = ref "none" in
        let mitm (d : n) (k : n) (m : msg) : msg option =
          cur := !cur @ [ (d, m) ];
          let k = int_of_n k in
          let items = List.filter (fun it -> N.eqb it.dir d && it.k = k) script in
          let hist = !history @ [ !cur ] in
          let r = List.fold_left (fun acc it ->
            match acc, it.act with
            | None, _ -> None
            | _, DropAll -> None
            | Some m, (DropFirst | Dup) -> Some m
            | Some m, a -> Some (rewrite hist a m)) (Some m) items in
          (if N.eqb d N0 && N.eqb m.m_op oP_SIGMA3 then
             match r with
             | Some m' -> s3 := if term_eqb (msg_term m) (msg_term m') && N.eqb m'.m_op oP_SIGMA3 then "same"
                                else if sigma3_alt m m' then "alt" else "diff"
             | None -> ());
          r in
        let p = handshake mitm !a !b (next_fresh ()) (next_fresh ()) fab peer in
        a := p.p_i; b := p.p_r;
        history := !history @ [ p.p_wire ];
        arms_log := !arms_log @ List.map int_of_n p.p_arms;
        let ok = (match p.p_is with IDone true -> "ok" | _ -> "fail") in
        let (sa, la) = observe_sessions !a known_a in
        let (sb, lb) = observe_sessions !b known_b in
        let ca = observe_cache !a in
        let cb = observe_cache !b in
        Printf.sprintf "h:i=%s:st=%s:s3=%s:I=%s:R=%s:cA=%s:cB=%s:lv=%d" ok (status_str p.p_last_status) !s3 sa sb ca cb (la + lb)
    ) c.ops in
  String.concat " " out

(* ------------------------------------------------------------------ monitor mode *)

let split_at (sep : string) (s : string) : string * string =
  let n = String.length sep and l = String.length s in
  let rec go i = if i + n > l then (s, "") else if String.sub s i n = sep then (String.sub s 0 i, String.sub s (i + n) (l - i - n)) else go (i + 1) in
  go 0

let parse_osess (s : string) : osess list =
  if s = "-" then [] else
  List.map (fun x ->
    match String.split_on_char ':' x with
    | [f; p; c; e; d] ->
        let tl t = String.sub t 1 (String.length t - 1) in
        { o_fab = n_of_string (tl f); o_peer = n_of_string (tl p);
          o_cats = (let cs = tl c in if cs = "." then [] else List.map n_of_string (String.split_on_char ',' cs));
          o_enc = n_of_string (tl e); o_dec = n_of_string (tl d) }
    | _ -> failwith ("bad session " ^ x)) (String.split_on_char '&' s)

(* "h:i=ok:st=0.0:s3=same:I=...:R=...:cA=...:cB=...:lv=0" -> orun, s3 flag *)
let parse_s3 (s : string) : string =
  let (_, r) = split_at ":s3=" s in
  let (v, _) = split_at ":I=" r in v

let parse_hres (s : string) : orun =
  let find key next =
    let (_, r) = split_at (":" ^ key ^ "=") s in
    let (v, _) = split_at (":" ^ next ^ "=") r in v in
  let lv = let (_, r) = split_at ":lv=" s in n_of_string r in
  { o_i = parse_osess (find "I" "R"); o_r = parse_osess (find "R" "cA"); o_left = lv }

let viol_name v =
  let v = int_of_n v in
  match v with
  | 1 -> "unauthenticated-session-at-responder" | 2 -> "unauthenticated-session-at-initiator"
  | 3 -> "keys-differ" | 4 -> "reserved-slot-left-behind" | 5 -> "tampering-changed-session"
  | 6 -> "several-sessions-from-one-handshake" | 7 -> "keys-differ-sigma3-unauthenticated-bytes" | _ -> "?"

let spec_line (line : string) =
  let (cl, il) = split_at " @@ " line in
  let c = parse_case cl in
  let toks = String.split_on_char ' ' il in
  let body = match toks with "K" :: _ :: r -> r | _ -> [] in
  if List.exists (fun t -> String.length t >= 5 && (String.sub t 0 5 = "panic" || String.sub t 0 5 = "setup")) body then
    Printf.printf "K %s viol 0:%s\n" c.id (String.concat "_" body)
  else begin
    let rec cut acc = function
      | [] -> (List.rev acc, [])
      | "||" :: r -> (List.rev acc, r)
      | x :: r -> cut (x :: acc) r in
    let (mut, base) = cut [] body in
    let hs l = List.filter (fun t -> String.length t > 2 && String.sub t 0 2 = "h:") l in
    let hres l = List.map parse_hres (hs l) in
    let mut_h = hres mut and base_h = hres base in
    let mut_s3 = List.map parse_s3 (hs mut) in
    let a0 = make_node c c.fa and b0 = make_node c c.fb in
    let a = ref a0 and b = ref b0 in
    (* the credentials the responder node holds, fabric removals ignored (see below) *)
    let b_auth = ref b0 in
    let viols = ref [] in
    let run = ref 0 in
    List.iter (fun op ->
      match op with
      | ClearCache _ | SaveCache _ | RestoreCache _ | Unknown -> ()
      | UpdateNoc (nd, idx, spec) ->
          if nd = 'A' then a := fst (update_noc c !a idx spec)
          else begin b := fst (update_noc c !b idx spec); b_auth := fst (update_noc c !b_auth idx spec) end
      | RemoveFabric (nd, idx) ->
          if nd = 'A' then a := fst (remove_fabric !a idx) else b := fst (remove_fabric !b idx)
      | Hand (fab, peer, script) ->
          (match List.nth_opt mut_h !run with
           | None -> viols := !viols @ [ Printf.sprintf "%d:missing-observation" !run ]
           | Some o ->
               (* the initiator's session speaks about the credentials the peer held when they were checked
                  (possibly in the run that created the resumption record): initial fabrics of the peer *)
               let al_i = allowed_i !a !b_auth fab peer in
               let al_r = allowed_r !a !b fab peer in
               let base = if base_h = [] then None else List.nth_opt base_h !run in
               let base = if script = [] && base_h = [] then None else base in
               let s3alt = (List.nth_opt mut_s3 !run = Some "alt") in
               let vs = monitor_run al_i al_r s3alt base o in
               List.iter (fun v -> viols := !viols @ [ Printf.sprintf "%d:%s" !run (viol_name v) ]) vs);
          incr run) c.ops;
    if !viols = [] then Printf.printf "K %s ok\n" c.id
    else Printf.printf "K %s viol %s\n" c.id (String.concat ";" !viols)
  end

let () =
  let spec = Array.length Sys.argv > 1 && Sys.argv.(1) = "spec" in
  try
    while true do
      let line = input_line stdin in
      if line <> "" then begin
        if spec then spec_line line
        else begin
          let c = parse_case line in
          counter := 0; junk := 100; arms_log := [];
          let has_script = List.exists (function Hand (_, _, s) -> s <> [] | _ -> false) c.ops in
          let m = run_scenario c true in
          let arms_m = !arms_log in
          let s = if has_script then m ^ " || " ^ run_scenario c false else m in
          Printf.printf "K %s %s # arms=%s\n" c.id s
            (String.concat "," (List.map string_of_int (List.sort_uniq compare arms_m)))
        end
      end
    done
  with End_of_file -> ()
