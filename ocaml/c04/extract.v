(* Extraction of the C04 model.  ExtrOcamlBasic only: bool, option, list,
   prod, unit, sumbool map to OCaml's; N / positive stay inductive. *)
From RsM Require Import Lib.MachInt Model.Dedup Model.DedupSpec Model.DedupRx.
Require Import ExtrOcamlBasic.
Extraction Language OCaml.
Extraction "model.ml"
  N.add N.mul N.div_eucl
  wrap32 rx_unsynced rx_new post_recv run
  gstore_new g_post_recv
  grx_new grx_recv
  spec_run group_clauses g_monitor.
