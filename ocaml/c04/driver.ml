(* Line-oriented driver for the C04 model: reads cases, prints one
   canonical line per case (same format as the harness' impl.out). *)
open Model
open Util

let rx_str (s : rx) =
  Printf.sprintf "%d %s %s" (if s.synced then 1 else 0)
    (string_of_n s.max_ctr) (string_of_n s.bitmap)

let parse_init (s : string) : rx =
  if s = "U" then rx_unsynced else rx_new (n_of_string s)

let mk_raw (mx : int) (bm : int) : rx =
  { synced = true; max_ctr = n_of_int mx; bitmap = n_of_int bm }

let () =
  let spec_mode = Array.length Sys.argv > 1 && Sys.argv.(1) = "spec" in
  try
    while true do
      let line = input_line stdin in
      match String.split_on_char ' ' line with
      | ["H"; id; enc; roll; init; cs] ->
          let h = List.map n_of_string (split_on ',' cs) in
          if spec_mode then
            (* the executable property: spec flags for the history *)
            let a0 = if init = "U" then [] else [n_of_string init] in
            Printf.printf "H %s %s\n" id (string_of_flags (spec_run a0 h))
          else begin
            let (flags, sf) =
              run (bool_of_string01 enc) (bool_of_string01 roll) (parse_init init) h in
            Printf.printf "H %s %s %s\n" id (string_of_flags flags) (rx_str sf)
          end
      | ["T"; id; mode; cs] ->
          let h = List.map n_of_string (split_on ',' cs) in
          if spec_mode then begin
            if mode <> "plain" then
              Printf.printf "T %s %s\n" id (string_of_flags (spec_run [] h))
          end else begin
            let (flags, sf) = run (mode <> "plain") false rx_unsynced h in
            Printf.printf "T %s %s %s\n" id (string_of_flags flags) (rx_str sf)
          end
      | ["B"; id; first; cs; impl_flags] when spec_mode ->
          (* group clauses on true counters against the implementation's flags *)
          let h = List.map n_of_string (split_on ',' cs) in
          let fl = List.init (String.length impl_flags) (fun i -> impl_flags.[i] = '1') in
          Printf.printf "B %s %d\n" id
            (if group_clauses [n_of_string first] h fl then 1 else 0)
      | ["B"; id; first; cs] ->
          if not spec_mode then begin
            let h = List.map (fun c -> wrap32 (n_of_string c)) (split_on ',' cs) in
            let (flags, _) = run true true (rx_new (wrap32 (n_of_string first))) h in
            Printf.printf "B %s %s\n" id (string_of_flags flags)
          end
      | ["V"; id; mx; bm; ctr; enc; roll] ->
          if not spec_mode then begin
            let s = { synced = true; max_ctr = n_of_string mx; bitmap = n_of_string bm } in
            let (s', a) = post_recv s (n_of_string ctr) (bool_of_string01 enc) (bool_of_string01 roll) in
            Printf.printf "V %s %d %s\n" id (if a then 1 else 0) (rx_str s')
          end
      | ["S"; id; mx; enc; roll; off] ->
          if not spec_mode then begin
            let mx = int_of_string mx and off = int_of_string off in
            let ctr = (mx + off) land 0xffffffff in
            let enc = bool_of_string01 enc and roll = bool_of_string01 roll in
            let nctr = n_of_int ctr in
            let h = ref digest_init in
            for bm = 0 to 65535 do
              let (s', a) = post_recv (mk_raw mx bm) nctr enc roll in
              h := digest_push !h (if a then 1L else 0L);
              h := digest_push !h (Int64.of_int (int_of_n s'.max_ctr));
              h := digest_push !h (Int64.of_int (int_of_n s'.bitmap))
            done;
            Printf.printf "S %s %016Lx\n" id !h
          end
      | ["G"; id; ops; impl_flags] when spec_mode ->
          (* the table seen from outside: sender key = fab * 2^64 + node *)
          let two64 = n_of_string "18446744073709551616" in
          let items = List.mapi (fun i op ->
            match String.split_on_char ':' op with
            | [f; n; c] ->
                ((N.add (N.mul (n_of_string f) two64) (n_of_string n), n_of_string c), impl_flags.[i] = '1')
            | _ -> failwith "bad G op") (split_on ',' ops) in
          Printf.printf "G %s %d\n" id (if g_monitor items then 1 else 0)
      | ["Y"; id; ops] ->
          (* the real group receive path: only authentic messages (a, A) reach the sender table of
             fabric 1; forged ones (f, t, w) are refused (x) and change nothing.  After an `A`
             message the sender's ephemeral session stays (its handler is still busy): the next
             messages of that sender also pass that session's own receive window; after an `a`
             message every session is gone again. *)
          if not spec_mode then begin
            (* the extracted receive path (Model/DedupRx.v): store + ephemeral sessions *)
            let st = ref grx_new in
            let flags = Buffer.create 16 in
            List.iter (fun op ->
              match String.split_on_char ':' op with
              | [k; n; c] when k = "a" || k = "A" || k = "b" || k = "B" ->
                  (* b / B: addressed to the second group (258) mapped to the same key set *)
                  let group = n_of_int (if k = "b" || k = "B" then 258 else 257) in
                  let keep = (k = "A" || k = "B") in
                  let (st', a) = grx_recv !st (n_of_int 1) (n_of_string n) group (n_of_string c) keep in
                  st := st';
                  Buffer.add_char flags (if a then '1' else '0')
              | [_; _; _] -> Buffer.add_char flags 'x'
              | _ -> failwith "bad Y op") (split_on ',' ops);
            let store = !st.gx_store in
            let ents = List.map (fun e ->
              Printf.sprintf "%s:%s:%s:%s:%s" (string_of_n e.g_fab) (string_of_n e.g_node)
                (string_of_n e.g_rx.max_ctr) (string_of_n e.g_rx.bitmap) (string_of_n e.g_last))
              store.g_entries in
            let ents = List.sort compare ents in
            let live = List.map (fun ((n, g), _) -> string_of_n n ^ "/" ^ string_of_n g) !st.gx_live in
            Printf.printf "Y %s %s %s %s live=%s\n" id (Buffer.contents flags)
              (string_of_n store.g_clock) (String.concat ";" ents)
              (String.concat "," (List.sort compare live))
          end
      | ["G"; id; ops] ->
          if not spec_mode then begin
            let st = ref gstore_new in
            let flags = ref [] in
            List.iter (fun op ->
              match String.split_on_char ':' op with
              | [f; n; c] ->
                  let (st', a) = g_post_recv !st (n_of_string f) (n_of_string n) (n_of_string c) in
                  st := st'; flags := a :: !flags
              | _ -> failwith "bad G op") (split_on ',' ops);
            let ents = List.map (fun e ->
              Printf.sprintf "%s:%s:%s:%s:%s" (string_of_n e.g_fab) (string_of_n e.g_node)
                (string_of_n e.g_rx.max_ctr) (string_of_n e.g_rx.bitmap) (string_of_n e.g_last))
              !st.g_entries in
            let ents = List.sort compare ents in
            Printf.printf "G %s %s %s %s\n" id (string_of_flags (List.rev !flags))
              (string_of_n !st.g_clock) (String.concat ";" ents)
          end
      | _ -> if line <> "" && not spec_mode then failwith ("bad line: " ^ line)
    done
  with End_of_file -> ()
