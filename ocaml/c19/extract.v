(* Extraction of the C19 model and of the executable property (monitor).
   ExtrOcamlBasic only: bool, option, list, prod, unit, sumbool map to
   OCaml's; N / positive stay inductive. *)
From RsM Require Import Lib.MachInt Model.Cert Model.CertSpec.
Require Import ExtrOcamlBasic.
Extraction Language OCaml.
Extraction "model.ml"
  N.add N.mul N.div_eucl
  verify_chain case_admit add_root add_noc update_noc
  get_node_id get_fabric_id
  all_rules rule_holds
  chain_validb case_validb add_noc_validb update_noc_validb root_validb
  leaf_fabric_ok icac_fabric_ok icac_separate fabric_exists is_node is_noc_cat.
