(* Line-oriented driver for the C19 model: reads cases, prints one
   canonical line per case (same format as harness/src/bin/c19.rs `run`).
   argv[1] = "spec": monitor mode, prints what the extracted PROPERTY
   (chain_validb / case_validb / add_noc_validb / update_noc_validb /
   root_validb) says about the case, plus the rules that fail.

   certificate token:  S/I/skid/akid/pk/sig/nb/na/bc/ku/eku/fx
     S, I   name: "." or tag:val,tag:val
     skid, akid, ku: "-" or number      pk: key index
     sig    k = signed by key k | k^b = then bit b flipped | k~ = signed over other bytes
     bc     "-" | ca | ca:pathlen          eku  "-" | "." | p,p,...
     fx     "-" none | one letter per future-extensions element, in order: n non-critical, c critical (e.g. "nc")
   lines:
     V id clk us cert+                               raw verifier, leaf first
     C id clk us fabric_id root noc [icac]           CASE
     A id clkS usS clk us fabrics admin root noc [icac]   AddTrustedRoot(at S) then AddNOC; csr key = 0
     U id clk us fabric_id root noc [icac]           UpdateNOC; csr key = 0
     R id clk us root                                AddTrustedRootCertificate
     F id clk us k cert+                             all single-bit flips of certificate k of a valid chain *)
open Model
open Util

let opt_n s = if s = "-" then None else Some (n_of_string s)

let parse_dn s : dn =
  if s = "." then [] else
  List.map (fun a ->
    match String.split_on_char ':' a with
    | [t; v] -> (n_of_string t, n_of_string v)
    | _ -> failwith ("bad dn attr: " ^ a)) (String.split_on_char ',' s)

let parse_sig s : n option =
  if String.contains s '^' || String.contains s '~' then None else Some (n_of_string s)

let parse_bc s =
  if s = "-" then None else
  match String.split_on_char ':' s with
  | [ca] -> Some (ca = "1", None)
  | [ca; m] -> Some (ca = "1", Some (n_of_string m))
  | _ -> failwith ("bad bc: " ^ s)

let parse_eku s =
  if s = "-" then None else if s = "." then Some []
  else Some (List.map n_of_string (String.split_on_char ',' s))

let parse_cert (s : string) : cert =
  match String.split_on_char '/' s with
  | [su; is; sk; ak; pk; sg; nb; na; b; k; e; fx] ->
      { subject = parse_dn su; issuer = parse_dn is; skid = opt_n sk; akid = opt_n ak;
        pubkey = n_of_string pk; signer = parse_sig sg;
        not_before = n_of_string nb; not_after = n_of_string na;
        bc = parse_bc b; ku = opt_n k; eku = parse_eku e; crit_ext = String.contains fx 'c' }
  | _ -> failwith ("bad cert: " ^ s)

let parse_clock k us : clock =
  if k = "R" then Reliable (n_of_string us) else LastKnown (n_of_string us)

let parse_fabrics s : (n * n) list =
  if s = "." then [] else
  List.map (fun a ->
    match String.split_on_char ':' a with
    | [f; k] -> (n_of_string f, n_of_string k)
    | _ -> failwith ("bad fabric: " ^ a)) (String.split_on_char ',' s)

let icac_of = function [] -> None | [i] -> Some (parse_cert i) | _ -> failwith "too many certs"

let rule_name = function
  | RSigned -> "Signed" | RKeyId -> "KeyId" | RName -> "Name" | RNotAfter -> "NotAfter"
  | RNotBefore -> "NotBefore" | RNoCritical -> "NoCritical" | RLeafType -> "LeafType"
  | RLeafNotCa -> "LeafNotCa" | RLeafKeyUsage -> "LeafKeyUsage"
  | RLeafExtKeyUsage -> "LeafExtKeyUsage" | RAuthType -> "AuthType" | RAuthIsCa -> "AuthIsCa"
  | RAuthKeyUsage -> "AuthKeyUsage" | RAuthPathLen -> "AuthPathLen"

let failing t cs =
  let l = List.filter (fun r -> not (rule_holds t r cs)) all_rules in
  if l = [] then "-" else String.concat "," (List.map rule_name l)

(* chain rules + the wrapper's own rules that fail *)
let failing_w t cs (extra : (string * bool) list) =
  let l = List.map rule_name (List.filter (fun r -> not (rule_holds t r cs)) all_rules)
          @ List.map fst (List.filter (fun (_, ok) -> not ok) extra) in
  if l = [] then "-" else String.concat "," l

let install_rules csr noc icac =
  [ ("IcacSeparate", icac_separate icac); ("LeafKeyIsCsrKey", N.eqb noc.pubkey csr);
    ("LeafFabricId", get_fabric_id noc <> None) ]

let err_str = function
  | Err c -> "err " ^ string_of_n c
  | Panic s -> "panic " ^ string_of_n s
  | Ok _ -> "ok"

let v01 b = if b then "valid" else "invalid"

let () =
  let spec = Array.length Sys.argv > 1 && Sys.argv.(1) = "spec" in
  try
    while true do
      let line = input_line stdin in
      match String.split_on_char ' ' line with
      | "V" :: id :: clk :: us :: certs when certs <> [] ->
          let t = parse_clock clk us in
          let cs = List.map parse_cert certs in
          if spec then
            Printf.printf "V %s %s %s\n" id (v01 (chain_validb t cs)) (failing t cs)
          else Printf.printf "V %s %s\n" id (err_str (verify_chain t cs))
      | "C" :: id :: clk :: us :: fid :: root :: noc :: rest ->
          let t = parse_clock clk us in
          let root = parse_cert root and noc = parse_cert noc and icac = icac_of rest in
          let fid = n_of_string fid in
          if spec then begin
            let cs = noc :: (match icac with Some i -> [i] | None -> []) @ [root] in
            let ok = case_validb t fid root noc icac in
            let extra =
              if ok then (match get_node_id noc with Some n -> " " ^ string_of_n n | None -> " ?")
              else "" in
            Printf.printf "C %s %s%s %s\n" id (v01 ok) extra
              (failing_w t cs [ ("LeafFabricId", leaf_fabric_ok fid noc); ("IcacFabricId", icac_fabric_ok fid icac) ])
          end else begin
            match case_admit t fid root noc icac with
            | Ok n -> Printf.printf "C %s ok %s\n" id (string_of_n n)
            | r -> Printf.printf "C %s %s\n" id (err_str r)
          end
      | "A" :: id :: clks :: uss :: clk :: us :: fabs :: admin :: root :: noc :: rest ->
          let ts = parse_clock clks uss and t = parse_clock clk us in
          let root = parse_cert root and noc = parse_cert noc and icac = icac_of rest in
          let fabs = parse_fabrics fabs and admin = n_of_string admin in
          if spec then begin
            let cs = noc :: (match icac with Some i -> [i] | None -> []) @ [root] in
            if not (root_validb ts root) then
              Printf.printf "A %s root-invalid %s\n" id
                (failing_w ts [root] [ ("RootPathLenAtMost1", not (chain_validb ts [root])) ])
            else
              Printf.printf "A %s %s %s\n" id (v01 (add_noc_validb t fabs N0 admin root noc icac))
                (failing_w t cs (install_rules N0 noc icac @
                   [ ("FabricIsNew", (match get_fabric_id noc with
                                      | Some f -> not (fabric_exists fabs f root.pubkey) | None -> true));
                     ("AdminSubject", is_node admin || is_noc_cat admin) ]))
          end else begin
            match add_root ts root with
            | Ok _ ->
                (match add_noc t fabs N0 admin root noc icac with
                 | Ok ((f, nd), rk) ->
                     Printf.printf "A %s ok %s %s %s\n" id (string_of_n f) (string_of_n nd) (string_of_n rk)
                 | r -> Printf.printf "A %s %s\n" id (err_str r))
            | r -> Printf.printf "A %s root-%s\n" id (err_str r)
          end
      | "U" :: id :: clk :: us :: fid :: root :: noc :: rest ->
          let t = parse_clock clk us in
          let root = parse_cert root and noc = parse_cert noc and icac = icac_of rest in
          let fid = n_of_string fid in
          if spec then begin
            let cs = noc :: (match icac with Some i -> [i] | None -> []) @ [root] in
            Printf.printf "U %s %s %s\n" id (v01 (update_noc_validb t fid N0 root noc icac))
              (failing_w t cs (install_rules N0 noc icac @
                 [ ("LeafFabricIsThisFabric", (match get_fabric_id noc with Some f -> N.eqb f fid | None -> true)) ]))
          end else begin
            match update_noc t fid N0 root noc icac with
            | Ok (f, nd) -> Printf.printf "U %s ok %s %s\n" id (string_of_n f) (string_of_n nd)
            | r -> Printf.printf "U %s %s\n" id (err_str r)
          end
      | "F" :: id :: _ ->
          (* ideal signatures + total parser: no single-bit flip of a valid chain is accepted *)
          if spec then Printf.printf "F %s valid -\n" id
          else Printf.printf "F %s accepted=0 panics=0\n" id
      | ["R"; id; clk; us; root] ->
          let t = parse_clock clk us in
          let root = parse_cert root in
          if spec then
            Printf.printf "R %s %s %s\n" id (v01 (root_validb t root))
              (failing_w t [root] [ ("RootPathLenAtMost1", root_validb t root || not (chain_validb t [root])) ])
          else Printf.printf "R %s %s\n" id (err_str (add_root t root))
      | _ -> if line <> "" then failwith ("bad line: " ^ line)
    done
  with End_of_file -> ()
