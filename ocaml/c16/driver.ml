(* Line-oriented driver for the C16 model (TLV codec).
   Model mode (no argument): one canonical line per case, same format as
   harness/src/bin/c16.rs prints for the real code.
   Monitor mode (argv[1] = "spec"): case line + implementation output in,
   verdict of the extracted executable property out.

   Case lines
     R <id> <hex|->                 reader: every accessor on the byte string
     X <id> <hex|-> <n>             reader sweep: all 256^n suffixes after the prefix, digest
     T <id> <tok> ...               writer, tree: L,<tag>,<val> | N,<tag>,<k> | E
     W <id> <tok>                   writer, one call of the minimal-width API
     D ...                          derived encoders: implementation only (ignored here)
     Z <id> <ty> <tag> <v>          derived encoders of zoo type <ty>: denc, then ddec of the bytes
     Y <id> <ty> <hex>              derived decoder of zoo type <ty> on arbitrary bytes
     K <id> <ty> <cap> <prefix> <v> denc_wb into a WriteBuf of <cap> bytes after a prefix
     C <id> <cap> <tok> ...         a script on one WriteBuf: writer tokens, A, R<k>
*)
open Model
open Util

(* ---------------------------------------------------------------- numbers *)
let z_of_string (s : string) : z =
  if String.length s > 0 && s.[0] = '-' then
    (match n_of_string (String.sub s 1 (String.length s - 1)) with
     | N0 -> Z0
     | Npos p -> Zneg p)
  else (match n_of_string s with N0 -> Z0 | Npos p -> Zpos p)

let string_of_z (x : z) : string =
  match x with
  | Z0 -> "0"
  | Zpos p -> string_of_n (Npos p)
  | Zneg p -> "-" ^ string_of_n (Npos p)

let hexdig = "0123456789abcdef"
let hex_of_bytes (b : n list) : string =
  let buf = Buffer.create 32 in
  List.iter (fun x ->
    let i = int_of_n x in
    Buffer.add_char buf hexdig.[(i lsr 4) land 15];
    Buffer.add_char buf hexdig.[i land 15]) b;
  Buffer.contents buf

let hv c =
  match c with
  | '0' .. '9' -> Char.code c - 48
  | 'a' .. 'f' -> Char.code c - 87
  | 'A' .. 'F' -> Char.code c - 55
  | _ -> failwith "bad hex"

let bytes_of_hex (s : string) : n list =
  if s = "-" || s = "" then []
  else begin
    let l = ref [] in
    let k = String.length s / 2 in
    for i = k - 1 downto 0 do
      l := n_of_int (hv s.[2 * i] * 16 + hv s.[2 * i + 1]) :: !l
    done;
    !l
  end

let rec nat_len (l : 'a list) = List.length l

(* ---------------------------------------------------------------- canonical strings *)
let width_s = function W1 -> "1" | W2 -> "2" | W4 -> "4" | W8 -> "8"
let width_of_s = function "1" -> W1 | "2" -> W2 | "4" -> W4 | "8" -> W8 | _ -> failwith "bad width"
let ckind_s = function KStruct -> "0" | KArray -> "1" | KList -> "2"
let ckind_of_s = function "0" -> KStruct | "1" -> KArray | "2" -> KList | _ -> failwith "bad kind"

let tag_s = function
  | TgAnon -> "a"
  | TgCtx v -> "c" ^ string_of_n v
  | TgC16 v -> "C16:" ^ string_of_n v
  | TgC32 v -> "C32:" ^ string_of_n v
  | TgI16 v -> "I16:" ^ string_of_n v
  | TgI32 v -> "I32:" ^ string_of_n v
  | TgF48 (a, b, c) -> "Q48:" ^ string_of_n a ^ ":" ^ string_of_n b ^ ":" ^ string_of_n c
  | TgF64 (a, b, c) -> "Q64:" ^ string_of_n a ^ ":" ^ string_of_n b ^ ":" ^ string_of_n c

let tag_of_s (s : string) : tag =
  if s = "a" then TgAnon
  else if s.[0] = 'c' then TgCtx (n_of_string (String.sub s 1 (String.length s - 1)))
  else match String.split_on_char ':' s with
    | ["C16"; v] -> TgC16 (n_of_string v)
    | ["C32"; v] -> TgC32 (n_of_string v)
    | ["I16"; v] -> TgI16 (n_of_string v)
    | ["I32"; v] -> TgI32 (n_of_string v)
    | ["Q48"; a; b; c] -> TgF48 (n_of_string a, n_of_string b, n_of_string c)
    | ["Q64"; a; b; c] -> TgF64 (n_of_string a, n_of_string b, n_of_string c)
    | _ -> failwith ("bad tag " ^ s)

let val_s = function
  | VS (w, x) -> "S" ^ width_s w ^ ":" ^ string_of_z x
  | VU (w, x) -> "U" ^ width_s w ^ ":" ^ string_of_n x
  | VBool b -> if b then "B1" else "B0"
  | VF32 b -> "F32:" ^ string_of_n b
  | VF64 b -> "F64:" ^ string_of_n b
  | VUtf (w, s) -> "T" ^ width_s w ^ ":" ^ hex_of_bytes s
  | VStr (w, s) -> "O" ^ width_s w ^ ":" ^ hex_of_bytes s
  | VNull -> "N"
  | VCont k -> "K" ^ ckind_s k
  | VEnd -> "Z"

let val_of_s (s : string) : tval =
  match s with
  | "B0" -> VBool false
  | "B1" -> VBool true
  | "N" -> VNull
  | "Z" -> VEnd
  | "K0" -> VCont KStruct
  | "K1" -> VCont KArray
  | "K2" -> VCont KList
  | _ ->
    (match String.split_on_char ':' s with
     | ["F32"; b] -> VF32 (n_of_string b)
     | ["F64"; b] -> VF64 (n_of_string b)
     | [h; b] when String.length h = 2 ->
       let w = width_of_s (String.sub h 1 1) in
       (match h.[0] with
        | 'S' -> VS (w, z_of_string b)
        | 'U' -> VU (w, n_of_string b)
        | 'T' -> VUtf (w, bytes_of_hex b)
        | 'O' -> VStr (w, bytes_of_hex b)
        | _ -> failwith ("bad value " ^ s))
     | _ -> failwith ("bad value " ^ s))

let rec tree_s = function
  | Leaf (t, v) -> "L(" ^ tag_s t ^ "=" ^ val_s v ^ ")"
  | Node (t, k, cs) ->
    "N(" ^ tag_s t ^ ",K" ^ ckind_s k ^ ",[" ^ String.concat ";" (List.map tree_s cs) ^ "])"


(* inverse of [tree_s]: L(<tag>=<val>) | N(<tag>,K<k>,[t;t;...]) *)
let tree_of_s (s : string) : tree =
  let n = String.length s in
  let rec find_from i c = if i >= n then failwith "tree text" else if s.[i] = c then i else find_from (i + 1) c in
  let rec at (i : int) : tree * int =
    if i + 1 >= n then failwith "tree text"
    else if s.[i] = 'L' && s.[i + 1] = '(' then begin
      let e = find_from (i + 2) '=' in
      let c = find_from e ')' in
      (Leaf (tag_of_s (String.sub s (i + 2) (e - i - 2)), val_of_s (String.sub s (e + 1) (c - e - 1))), c + 1)
    end else if s.[i] = 'N' && s.[i + 1] = '(' then begin
      let c1 = find_from (i + 2) ',' in
      let tg = tag_of_s (String.sub s (i + 2) (c1 - i - 2)) in
      if s.[c1 + 1] <> 'K' then failwith "tree text";
      let k = ckind_of_s (String.sub s (c1 + 2) 1) in
      if String.sub s (c1 + 3) 2 <> ",[" then failwith "tree text";
      let rec kids j acc =
        if s.[j] = ']' then (List.rev acc, j + 1)
        else begin
          let (t, j') = at j in
          if s.[j'] = ';' then kids (j' + 1) (t :: acc)
          else if s.[j'] = ']' then (List.rev (t :: acc), j' + 1)
          else failwith "tree text"
        end in
      let (cs, j) = kids (c1 + 5) [] in
      if s.[j] <> ')' then failwith "tree text";
      (Node (tg, k, cs), j + 1)
    end else failwith "tree text" in
  let (t, j) = at 0 in
  if j <> n then failwith "tree text";
  t

let items_s (l : (n list, n) sum list) : string =
  "[" ^ String.concat "," (List.map (function Inl e -> string_of_int (List.length e) | Inr _ -> "E") l) ^ "]"

let outv_s = function
  | OUnit -> "u"
  | OB b -> if b then "1" else "0"
  | ON x -> string_of_n x
  | OZ x -> string_of_z x
  | OBy s -> "x" ^ hex_of_bytes s
  | OEl e -> string_of_int (List.length e)
  | OCtl (t, v) -> string_of_n (code_of_tagtype t) ^ "." ^ string_of_n (code_of_vtype v)
  | OTag t -> tag_s t
  | OVal v -> val_s v
  | OTlv (t, v) -> tag_s t ^ "=" ^ val_s v
  | OOptN None -> "-"
  | OOptN (Some x) -> string_of_n x
  | OItems l -> items_s l
  | OTlvs l ->
    "[" ^ String.concat "," (List.map (function Inl (t, v) -> tag_s t ^ "=" ^ val_s v | Inr _ -> "E") l) ^ "]"
  | OTree t -> tree_s t
  | OScan (e, rest) -> string_of_int (List.length e) ^ "@" ^ items_s rest

let res_s (r : outv rres) : string =
  match r with
  | ROk v -> "=" ^ outv_s v
  | RErr _ -> "E"
  | RPanic _ -> "P"
  | RFuel -> "F"

let probe_line (b : n list) : string =
  String.concat " " (List.map res_s (probe_all b))

(* FNV-1a over the bytes of a string, same as the harness *)
let digest_str (h : int64) (s : string) : int64 =
  let h = ref h in
  String.iter (fun c ->
    h := Int64.mul (Int64.logxor !h (Int64.of_int (Char.code c))) 0x00000100000001b3L) s;
  !h

let count_char (c : char) (s : string) : int =
  let k = ref 0 in
  String.iter (fun d -> if d = c then incr k) s;
  !k

(* ---------------------------------------------------------------- derived values *)
let rec nat_of_int (i : int) : nat = if i <= 0 then O else S (nat_of_int (i - 1))
let rec int_of_nat (n : nat) : int = match n with O -> 0 | S m -> 1 + int_of_nat m

let rec dval_s (v : dval) : string =
  match v with
  | XInt z -> "i" ^ string_of_z z
  | XBool b -> if b then "b1" else "b0"
  | XBits n -> "f" ^ string_of_n n
  | XBytes s -> "x" ^ hex_of_bytes s
  | XNone -> "-"
  | XSome x -> "+" ^ dval_s x
  | XNull -> "~"
  | XNN x -> "!" ^ dval_s x
  | XList l -> "[" ^ String.concat ";" (List.map dval_s l) ^ "]"
  | XRec l -> "{" ^ String.concat ";" (List.map dval_s l) ^ "}"
  | XVar (i, x) -> "<" ^ string_of_int (int_of_nat i) ^ ":" ^ dval_s x ^ ">"
  | XUnit i -> "#" ^ string_of_int (int_of_nat i)

let dval_of_s (s : string) : dval =
  let n = String.length s in
  let is_digit c = c >= '0' && c <= '9' in
  let is_hex c = is_digit c || (c >= 'a' && c <= 'f') in
  let rec scan p i = if i < n && p s.[i] then scan p (i + 1) else i in
  let rec at (i : int) : dval * int =
    match s.[i] with
    | 'i' ->
      let j0 = if i + 1 < n && s.[i + 1] = '-' then i + 2 else i + 1 in
      let j = scan is_digit j0 in
      (XInt (z_of_string (String.sub s (i + 1) (j - i - 1))), j)
    | 'b' -> (XBool (s.[i + 1] = '1'), i + 2)
    | 'f' -> let j = scan is_digit (i + 1) in (XBits (n_of_string (String.sub s (i + 1) (j - i - 1))), j)
    | 'x' -> let j = scan is_hex (i + 1) in (XBytes (bytes_of_hex (String.sub s (i + 1) (j - i - 1))), j)
    | '-' -> (XNone, i + 1)
    | '~' -> (XNull, i + 1)
    | '+' -> let (v, j) = at (i + 1) in (XSome v, j)
    | '!' -> let (v, j) = at (i + 1) in (XNN v, j)
    | '[' -> let (l, j) = seq (i + 1) ']' in (XList l, j)
    | '{' -> let (l, j) = seq (i + 1) '}' in (XRec l, j)
    | '<' ->
      let j = scan is_digit (i + 1) in
      let idx = int_of_string (String.sub s (i + 1) (j - i - 1)) in
      let (v, k) = at (j + 1) in
      if s.[k] <> '>' then failwith "bad variant";
      (XVar (nat_of_int idx, v), k + 1)
    | '#' -> let j = scan is_digit (i + 1) in (XUnit (nat_of_int (int_of_string (String.sub s (i + 1) (j - i - 1)))), j)
    | c -> failwith ("bad value text: " ^ s)
  and seq (i : int) (close : char) : dval list * int =
    if s.[i] = close then ([], i + 1)
    else begin
      let (v, j) = at i in
      if s.[j] = ';' then let (l, k) = seq (j + 1) close in (v :: l, k)
      else if s.[j] = close then ([v], j + 1)
      else failwith ("bad sequence in " ^ s)
    end in
  let (v, j) = at 0 in
  if j <> n then failwith ("trailing text in " ^ s);
  v

let zoo_ty (s : string) : dty =
  match zoo (n_of_string s) with Some d -> d | None -> failwith ("no zoo type " ^ s)

let hex_or_dash b = if b = [] then "-" else hex_of_bytes b

let dres_s (r : dval rres) : string =
  match r with ROk v -> "=" ^ dval_s v | RErr _ -> "E" | RPanic _ -> "P" | RFuel -> "F"

let rec zeros (k : int) : n list = if k <= 0 then [] else N0 :: zeros (k - 1)

(* ---------------------------------------------------------------- writer tokens *)
let split_tok (t : string) : string list = String.split_on_char ',' t

(* tokens -> list of trees (prefix form), returns the rest *)
let rec parse_trees (toks : string list) : tree list * string list =
  match toks with
  | [] -> ([], [])
  | "E" :: rest -> ([], "E" :: rest)
  | t :: rest ->
    (match split_tok t with
     | ["L"; tg; v] ->
       let (sibs, r) = parse_trees rest in
       (Leaf (tag_of_s tg, val_of_s v) :: sibs, r)
     | ["N"; tg; k] ->
       let (kids, r) = parse_trees rest in
       (match r with
        | "E" :: r' ->
          let (sibs, r'') = parse_trees r' in
          (Node (tag_of_s tg, ckind_of_s k, kids) :: sibs, r'')
        | _ -> failwith "unterminated N")
     | _ -> failwith ("bad tree token " ^ t))

let op_of_tok (t : string) : wop =
  match split_tok t with
  | ["L"; tg; v] -> OpTlv (tag_of_s tg, val_of_s v)
  | ["N"; tg; k] -> OpStart (tag_of_s tg, ckind_of_s k)
  | ["E"] -> OpEnd
  | [("i1" | "i2" | "i4" | "i8") as o; tg; v] ->
    OpI (width_of_s (String.sub o 1 1), tag_of_s tg, z_of_string v)
  | [("u1" | "u2" | "u4" | "u8") as o; tg; v] ->
    OpU (width_of_s (String.sub o 1 1), tag_of_s tg, n_of_string v)
  | ["f32"; tg; v] -> OpF32 (tag_of_s tg, n_of_string v)
  | ["f64"; tg; v] -> OpF64 (tag_of_s tg, n_of_string v)
  | ["str"; tg; v] -> OpStr (tag_of_s tg, bytes_of_hex v)
  | ["utf8"; tg; v] -> OpUtf8 (tag_of_s tg, bytes_of_hex v)
  | ["bool"; tg; v] -> OpBool (tag_of_s tg, v = "1")
  | ["null"; tg] -> OpNull (tag_of_s tg)
  | _ -> failwith ("bad op token " ^ t)

let rec split_bar (l : string list) : string list * string list =
  match l with
  | [] -> ([], [])
  | "|" :: r -> ([], r)
  | x :: r -> let (a, b) = split_bar r in (x :: a, b)

(* ---------------------------------------------------------------- monitor helpers *)
let cls_of_field (f : string) : ocl =
  if f = "E" then CError
  else if f = "P" then CPanic
  else if f = "F" then CFuel
  else CValue

let strip_eq (f : string) : string option =
  if String.length f > 0 && f.[0] = '=' then Some (String.sub f 1 (String.length f - 1)) else None

let () =
  let spec_mode = Array.length Sys.argv > 1 && Sys.argv.(1) = "spec" in
  try
    while true do
      let line = input_line stdin in
      match String.split_on_char ' ' line with
      | "R" :: id :: hex :: impl when spec_mode ->
        (* impl = the implementation's output fields for this input *)
        let input = bytes_of_hex hex in
        let classes = List.map cls_of_field impl in
        let ok_panic = mon_no_panic classes in
        let fields = Array.of_list impl in
        (* field 0 = control, field 4 = raw_value, field 29 = to_tlv with own tag *)
        let ok_within =
          if Array.length fields > 4 then
            (match strip_eq fields.(0), strip_eq fields.(4) with
             | Some c, Some rv when String.length rv > 0 && rv.[0] = 'x' ->
               (match String.split_on_char '.' c with
                | [t; v] ->
                  (match vtype_of_code (n_of_string v) with
                   | Some vt ->
                     let off = hdr_len (tagtype_of_code (n_of_string t), vt) in
                     mon_within input off (bytes_of_hex (String.sub rv 1 (String.length rv - 1)))
                   | None -> false)
                | _ -> false)
             | _ -> true)
          else true in
        let ok_reenc =
          if Array.length fields > 29 then
            (match strip_eq fields.(29) with
             | Some rv when String.length rv > 0 && rv.[0] = 'x' ->
               mon_reencode input (bytes_of_hex (String.sub rv 1 (String.length rv - 1)))
             | _ -> true)
          else true in
        Printf.printf "R %s %d %s\n" id
          (if ok_panic && ok_within && ok_reenc then 1 else 0)
          (String.concat "," (List.filter (fun s -> s <> "")
             [ (if ok_panic then "" else "panic");
               (if ok_within then "" else "length-outside-input");
               (if ok_reenc then "" else "reencode-differs") ]))
      | "R" :: id :: hex :: _ ->
        Printf.printf "R %s %s\n" id (probe_line (bytes_of_hex hex))
      | ["X"; id; hex; n] ->
        if not spec_mode then begin
          let prefix = bytes_of_hex hex in
          let n = int_of_string n in
          let h = ref digest_init in
          let panics = ref 0 in
          let total = if n = 0 then 1 else if n = 1 then 256 else 65536 in
          for i = 0 to total - 1 do
            let suffix =
              if n = 0 then []
              else if n = 1 then [n_of_int i]
              else [n_of_int (i lsr 8); n_of_int (i land 255)] in
            let s = probe_line (prefix @ suffix) in
            panics := !panics + count_char 'P' s + count_char 'F' s;
            h := digest_str !h s
          done;
          Printf.printf "X %s %016Lx P=%d\n" id !h !panics
        end
      | "T" :: id :: rest ->
        let (toks, impl) = split_bar rest in
        let (trees, left) = parse_trees toks in
        if left <> [] then failwith ("bad T line: " ^ line);
        if spec_mode then begin
          (* impl = <bytes written> <tree read back by the real reader> <bytes of its tlv_iter re-encoding> *)
          match trees, impl with
          | [t], [hex; rb; reenc] ->
            let written = bytes_of_hex hex in
            let ok_model = mon_roundtrip t written in
            let (ok_rb, why) =
              (match (try Some (tree_of_s rb) with _ -> None) with
               | None -> (false, "read-back:" ^ (if rb = "P" then "panic" else if rb = "E" then "error" else "unparsable"))
               | Some t' ->
                 if reenc = "P" || reenc = "E" then (false, "re-encode:" ^ reenc)
                 else if mon_read_back t t' written (bytes_of_hex reenc) then (true, "")
                 else if mon_read_back t t' written written then (false, "tlv_iter-reencode-differs")
                 else (false, "read-back-differs")) in
            Printf.printf "T %s %d %s\n" id (if ok_model && ok_rb then 1 else 0)
              (if not ok_model then "written-bytes-do-not-decode" else why)
          | [t], [hex] ->
            Printf.printf "T %s %d\n" id (if mon_roundtrip t (bytes_of_hex hex) then 1 else 0)
          | _ -> Printf.printf "T %s 1 not-a-single-tree\n" id
        end else begin
          let b = encode_list trees in
          let rb = match decode b with ROk t -> tree_s t | RErr _ -> "E" | RPanic _ -> "P" | RFuel -> "F" in
          let re =
            match (match el_tag b with ROk t -> el_reencode_iter t b | RErr c -> RErr c | RPanic p -> RPanic p | RFuel -> RFuel) with
            | ROk r -> hex_or_dash r | RErr _ -> "E" | RPanic _ -> "P" | RFuel -> "F" in
          Printf.printf "T %s %s %s %s\n" id (hex_of_bytes b) rb re
        end
      | "W" :: id :: rest ->
        let (toks, impl) = split_bar rest in
        let ops = List.map op_of_tok toks in
        if spec_mode then begin
          match ops, impl with
          | [o], [hex] ->
            Printf.printf "W %s %d\n" id (if mon_scalar o (bytes_of_hex hex) then 1 else 0)
          | _ -> Printf.printf "W %s 0\n" id
        end else
          Printf.printf "W %s %s\n" id (hex_of_bytes (w_ops ops))
      | "Z" :: id :: ty :: tg :: v :: impl ->
        let d = zoo_ty ty in
        let value = dval_of_s v in
        if spec_mode then begin
          (* impl = | <enc> <dec>: the bytes the real encoder wrote must decode (model decoder) to the
             value, and the real decoder must have returned the value *)
          match impl with
          | ["|"; enc; dec] ->
            let ok =
              if enc = "E" then (match denc d (tag_of_s tg) value with ROk _ -> false | _ -> true)
              else if enc = "P" || String.contains enc '!' then false
              else
                (match ddec d (bytes_of_hex enc) with
                 | ROk v' -> v' = value
                 | _ -> false)
                && dec = "=" ^ dval_s value in
            Printf.printf "Z %s %d\n" id (if ok then 1 else 0)
          | _ -> Printf.printf "Z %s 0\n" id
        end else begin
          match denc d (tag_of_s tg) value with
          | ROk b -> Printf.printf "Z %s %s %s\n" id (hex_or_dash b) (dres_s (ddec d b))
          | RErr _ -> Printf.printf "Z %s E -\n" id
          | RPanic _ -> Printf.printf "Z %s P -\n" id
          | RFuel -> Printf.printf "Z %s F -\n" id
        end
      | ["Y"; id; ty; hex] ->
        if not spec_mode then
          Printf.printf "Y %s %s\n" id (dres_s (ddec (zoo_ty ty) (bytes_of_hex hex)))
      | ["K"; id; ty; cap; prefix; v; "|"; res; slice] when spec_mode ->
        (* the previously written prefix is intact; a failed write of a structure leaves exactly the
           prefix; a successful write decodes (model decoder) to the value *)
        let d = zoo_ty ty in
        let p = bytes_of_hex prefix and sl = bytes_of_hex slice in
        let ok = (res = "0") in
        let intact = res <> "P" && mon_prefix_intact d p sl ok in
        let rec drop k l = if k <= 0 then l else match l with [] -> [] | _ :: r -> drop (k - 1) r in
        let decodes = (not ok) ||
          (match ddec d (drop (List.length p) sl) with ROk v' -> v' = dval_of_s v | _ -> false) in
        Printf.printf "K %s %d %s\n" id (if intact && decodes then 1 else 0)
          (if not intact then "prefix-or-atomicity" else if not decodes then "written-does-not-decode" else "")
      | ["K"; id; ty; cap; prefix; v] ->
        if not spec_mode then begin
          let w0 = wb_new (zeros (int_of_string cap)) in
          let (_, w1) = wb_write_all w0 (bytes_of_hex prefix) in
          let (r, w2) = denc_wb (zoo_ty ty) TgAnon (dval_of_s v) w1 in
          let sl = match wb_as_slice w2 with ROk b -> hex_or_dash b | _ -> "P" in
          Printf.printf "K %s %s %s\n" id
            (match r with ROk _ -> "0" | RErr _ -> "E" | RPanic _ -> "P" | RFuel -> "F") sl
        end
      | "C" :: id :: cap :: toks ->
        if not spec_mode then begin
          let ops = List.map (fun t ->
            if t = "A" then BAnchor
            else if String.length t > 1 && t.[0] = 'R' then
              BRewind (nat_of_int (int_of_string (String.sub t 1 (String.length t - 1))))
            else BOp (op_of_tok t)) toks in
          let (rs, w) = wb_run (wb_new (zeros (int_of_string cap))) [] ops in
          let res = String.concat "" (List.map (function ROk _ -> "0" | RErr _ -> "E" | RPanic _ -> "P" | RFuel -> "F") rs) in
          let sl = match wb_as_slice w with ROk b -> hex_or_dash b | _ -> "P" in
          Printf.printf "C %s %s %s %s\n" id (if res = "" then "-" else res) sl (hex_or_dash w.wb_mem)
        end
      | "D" :: _ -> ()
      | _ -> if line <> "" then failwith ("bad line: " ^ line)
    done
  with End_of_file -> ()
