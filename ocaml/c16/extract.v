(* Extraction of the C16 model (TLV codec).  ExtrOcamlBasic only: bool, option,
   list, prod, unit, sum map to OCaml's; N / Z / positive stay inductive. *)
From Coq Require Import NArith ZArith.
From RsM Require Import Model.Tlv Model.TlvSpec Model.TlvDerive Model.TlvBuf.
Require Import ExtrOcamlBasic.
Extraction Language OCaml.
Extraction "model.ml"
  N.add N.mul N.div_eucl
  blen hdr_len tagsize varlen code_of_tagtype code_of_vtype code_of_ckind
  tagtype_of_code vtype_of_code
  probe_all ocl_of
  decode encode encode_list ops_of_tree flatten w_op w_ops
  el_raw_value_legacy tlv_try_next_legacy
  mon_no_panic mon_within mon_roundtrip mon_scalar mon_reencode mon_read_back el_reencode_iter el_tag
  zoo denc ddec wb_new wb_run wb_as_slice wb_write_all denc_wb mon_prefix_intact.
