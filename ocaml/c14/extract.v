(* Extraction of the C14 model.  ExtrOcamlBasic only. *)
From RsM Require Import Lib.MachInt Model.Chunk Model.ChunkSpec.
Require Import ExtrOcamlBasic.
Extraction Language OCaml.
Extraction "model.ml"
  N.add N.mul N.div_eucl
  respond respond_report report_round nothing_to_report parse_chunk
  items_of report_items_of expect_of_item expects_of ev_statuses_of evs_of evexpects_of
  c14_exactly_once c14_events_once c14_fits only_last_ends last_supp c14_holds
  c14_partial all_fit cfg_ok.
