(* Extraction of the C14 model.  ExtrOcamlBasic only. *)
From RsM Require Import Lib.MachInt Model.Chunk Model.ChunkSpec.
Require Import ExtrOcamlBasic.
Extraction Language OCaml.
Extraction "model.ml"
  N.add N.mul N.div_eucl
  respond parse_chunk
  items_of expects_of ev_statuses_of evs_of evexpects_of
  c14_exactly_once c14_events_once c14_fits only_last_ends last_supp c14_holds
  c14_partial all_fit cfg_ok.
