(* Line-oriented driver for the C14 model (chunked ReportData answers).

   default mode : case line  ->  "R <id> <outcome> n=<chunks> | <chunk>;<chunk>..."   (same format as harness c14 run)
   spec mode    : "<case line> || <outcome> n=<k> | <chunks of the IMPLEMENTATION>"
                  ->  "R <id> ok" or "R <id> <violated clause>,<violated clause>..."
                  (the extracted property evaluated on the implementation's own chunks)
   Case format: see harness/src/bin/c14.rs. *)
open Model
open Util

let rec nat_of (i : int) : nat = if i <= 0 then O else S (nat_of (i - 1))

let opt_n s = if s = "*" then None else Some (n_of_string s)

let parse_paths s : ((n option * n option) * n option) list option =
  if s = "-" then None
  else Some (List.map (fun p ->
    match String.split_on_char '.' p with
    | [a; b; c] -> ((opt_n a, opt_n b), opt_n c)
    | _ -> failwith ("bad path " ^ p)) (split_on ',' s))

type case = {
  id : string;
  subscribe : bool;
  nd : clus list;
  q : ((n option * n option) * n option) list option;
  f : ((n * n) * n) list;
  e : evspec list;
  p : ((n option * n option) * n option) list option;
  m : n list;
  lim : int;
  txv : n;
  rsv : n;
}

let parse_spec s =
  if String.length s > 0 && s.[0] = 's' then SScalar (n_of_string (String.sub s 1 (String.length s - 1)))
  else SList (List.map n_of_string (List.filter (fun x -> x <> "") (String.split_on_char '+' (String.sub s 1 (String.length s - 1)))))

let parse_case (fields : string list) : case =
  let c = ref { id = List.nth fields 1; subscribe = false; nd = []; q = None; f = []; e = []; p = None; m = [];
                lim = 40; txv = n_of_int 1178; rsv = n_of_int 24 } in
  List.iter (fun kv ->
    match String.index_opt kv '=' with
    | None -> ()
    | Some i ->
      let k = String.sub kv 0 i and v = String.sub kv (i + 1) (String.length kv - i - 1) in
      match k with
      | "k" -> c := { !c with subscribe = (v = "s") }
      | "n" ->
        let cls = List.map (fun cl ->
          match String.index_opt cl ':' with
          | None -> failwith "bad cluster"
          | Some j ->
            let head = String.sub cl 0 j and attrs = String.sub cl (j + 1) (String.length cl - j - 1) in
            (match String.split_on_char '.' head with
             | [ep; id; dv] ->
               { cl_ep = n_of_string ep; cl_id = n_of_string id; cl_dv = n_of_string dv;
                 cl_attrs = List.map (fun a ->
                   match String.index_opt a '=' with
                   | Some t -> (n_of_string (String.sub a 0 t), parse_spec (String.sub a (t + 1) (String.length a - t - 1)))
                   | None -> failwith "bad attr") (split_on ',' attrs) }
             | _ -> failwith "bad cluster head")) (List.filter (fun x -> x <> "") (String.split_on_char ';' v)) in
        c := { !c with nd = cls }
      | "q" -> c := { !c with q = parse_paths v }
      | "f" -> if v <> "-" then
          c := { !c with f = List.map (fun x -> match String.split_on_char '.' x with
            | [a; b; d] -> ((n_of_string a, n_of_string b), n_of_string d) | _ -> failwith "bad filter") (split_on ',' v) }
      | "e" -> if v <> "-" then
          c := { !c with e = List.map (fun x -> match String.split_on_char '.' x with
            | [ep; cl; ev; pr; len; ts] ->
              { es_path = ((n_of_string ep, n_of_string cl), n_of_string ev); es_prio = n_of_string pr;
                es_len = n_of_string len; es_ts = n_of_string ts }
            | _ -> failwith "bad event") (split_on ',' v) }
      | "p" -> c := { !c with p = parse_paths v }
      | "m" -> if v <> "-" then c := { !c with m = List.map n_of_string (split_on ',' v) }
      | "lim" -> c := { !c with lim = int_of_string v }
      | "tx" -> c := { !c with txv = n_of_string v }
      | "rs" -> c := { !c with rsv = n_of_string v }
      | _ -> ()) (List.tl (List.tl fields));
  !c

let u64max = n_of_string "18446744073709551615"

let cfg_of (c : case) : cfg =
  { tx = c.txv; reserve_sz = c.rsv;
    sub_w = (if c.subscribe then Some (n_of_int 1) else None);
    suppress = not c.subscribe;
    has_attrs = (c.q <> None); has_events = (c.p <> None);
    ev_lo = N0; ev_hi = u64max }

let lst o = match o with Some l -> l | None -> []

(* ---- printing, same text as the harness ---- *)
let path_str (((a, b), c) : (n * n) * n) = Printf.sprintf "%s.%s.%s" (string_of_n a) (string_of_n b) (string_of_n c)

(* the marker of a streamed list that has no elements is, byte for byte, the complete (empty) list:
   the harness cannot tell them apart and prints 'v'; so does the model side *)
let empty_lists : (((n * n) * n), unit) Hashtbl.t = Hashtbl.create 16

let atom_str (a : atom) =
  match a with
  | AWhole (p, sz) -> Printf.sprintf "v%s/%s" (path_str p) (string_of_n sz)
  | AMarker (p, sz) ->
      Printf.sprintf "%s%s/%s" (if Hashtbl.mem empty_lists p then "v" else "k") (path_str p) (string_of_n sz)
  | AElem (p, idx, sz) -> Printf.sprintf "x%s.%s/%s" (path_str p) (string_of_n idx) (string_of_n sz)
  | AStatus (p, code, sz) -> Printf.sprintf "t%s.%s/%s" (path_str p) (string_of_n code) (string_of_n sz)
  | AEvent (num, sz) -> Printf.sprintf "n%s/%s" (string_of_n num) (string_of_n sz)
  | AEvStatus (code, sz) -> Printf.sprintf "u%s/%s" (string_of_n code) (string_of_n sz)

let view_str (v : view) =
  let fl = Buffer.create 8 in
  (match v.v_sub with Some w -> Buffer.add_string fl ("i" ^ string_of_n w) | None -> ());
  if v.v_attrs <> None then Buffer.add_char fl 'a';
  if v.v_events <> None then Buffer.add_char fl 'e';
  if v.v_more then Buffer.add_char fl 'm';
  if v.v_supp then Buffer.add_char fl 's';
  Buffer.add_char fl 'r';
  Printf.sprintf "%s:%s:%s:%s" (string_of_n v.v_size) (Buffer.contents fl)
    (String.concat "," (List.map atom_str (lst v.v_attrs)))
    (String.concat "," (List.map atom_str (lst v.v_events)))

let note_empty_lists (c : case) =
  Hashtbl.reset empty_lists;
  List.iter (fun cl ->
    List.iter (fun (id, sp) ->
      match sp with SList [] -> Hashtbl.replace empty_lists ((cl.cl_ep, cl.cl_id), id) () | _ -> ()) cl.cl_attrs) c.nd

let run_model (c : case) =
  note_empty_lists c;
  let cf = cfg_of c in
  let items = items_of c.nd c.f (lst c.q) in
  let stats = ev_statuses_of c.nd (lst c.p) in
  let evs = evs_of c.nd (lst c.p) c.m (n_of_int 1) c.e in
  let (o, chunks) = respond (nat_of 64) cf items stats evs in
  let texts = List.map (fun ch -> match parse_chunk ch with Some v -> view_str v | None -> "?model-chunk-does-not-parse") chunks in
  let oc = match o with
    | ODone -> "done" | OStatus -> "status,status:137" | OError -> "hang" | OFuel -> "limit" in
  Printf.sprintf "R %s %s n=%d | %s" c.id oc (List.length chunks) (String.concat ";" texts)

(* ---- spec mode: parse the implementation's chunks back into views ---- *)
exception Bad of string

let parse_path3 s = match String.split_on_char '.' s with
  | [a; b; c] -> ((n_of_string a, n_of_string b), n_of_string c)
  | _ -> raise (Bad "path")

let parse_atom (s : string) : atom =
  if s = "" then raise (Bad "empty atom");
  let body = String.sub s 1 (String.length s - 1) in
  let (what, sz) = match String.index_opt body '/' with
    | Some i -> (String.sub body 0 i, n_of_string (String.sub body (i + 1) (String.length body - i - 1)))
    | None -> raise (Bad "atom size") in
  match s.[0] with
  | 'v' -> AWhole (parse_path3 what, sz)
  | 'k' -> AMarker (parse_path3 what, sz)
  | 'x' -> (match String.split_on_char '.' what with
            | [a; b; c; i] -> AElem (((n_of_string a, n_of_string b), n_of_string c), n_of_string i, sz)
            | _ -> raise (Bad "elem"))
  | 't' -> (match String.split_on_char '.' what with
            | [a; b; c; code] -> AStatus (((n_of_string a, n_of_string b), n_of_string c), n_of_string code, sz)
            | _ -> raise (Bad "status"))
  | 'n' -> AEvent (n_of_string what, sz)
  | 'u' -> AEvStatus (n_of_string what, sz)
  | _ -> raise (Bad ("unrecognised report " ^ s))

let parse_view (s : string) : view =
  match String.split_on_char ':' s with
  | [size; flags; attrs; events] ->
    let has ch = String.contains flags ch in
    if has 'M' || has 'S' then raise (Bad "explicit false flag");
    if not (has 'r') then raise (Bad "no revision");
    let subw = match String.index_opt flags 'i' with
      | Some i -> Some (n_of_string (String.make 1 flags.[i + 1]))
      | None -> None in
    { v_sub = subw;
      v_attrs = (if has 'a' then Some (List.map parse_atom (split_on ',' attrs)) else (if attrs <> "" then raise (Bad "atoms outside array") else None));
      v_events = (if has 'e' then Some (List.map parse_atom (split_on ',' events)) else (if events <> "" then raise (Bad "atoms outside array") else None));
      v_more = has 'm'; v_supp = has 's'; v_size = n_of_string size }
  | _ -> raise (Bad "chunk text")

let run_spec (c : case) (outcome : string) (chunks_txt : string) =
  let cf = cfg_of c in
  let items = items_of c.nd c.f (lst c.q) in
  let stats = ev_statuses_of c.nd (lst c.p) in
  let evs = evs_of c.nd (lst c.p) c.m (n_of_int 1) c.e in
  let ex = expects_of c.nd c.f (lst c.q) in
  let xs = evexpects_of cf c.nd (lst c.p) evs in
  let fit = all_fit cf items stats evs in
  let bad = ref [] in
  let add s = bad := s :: !bad in
  (try
    let vs = List.map parse_view (List.filter (fun x -> x <> "") (String.split_on_char ';' (String.trim chunks_txt))) in
    let is_done = (outcome = "done") in
    let is_status = (String.length outcome >= 6 && String.sub outcome 0 6 = "status") in
    if is_done then begin
      if not (c14_exactly_once ex vs) then add "attr-exactly-once";
      if not (c14_events_once xs vs) then add "event-exactly-once";
      if not (c14_fits cf.tx vs) then add "chunk-size";
      if not (only_last_ends vs) then add "last-chunk-flag";
      if not (last_supp vs cf.suppress) then add "suppress-flag";
      if (!bad = []) && not (c14_holds cf.tx cf.suppress ex xs vs) then add "c14-holds"
    end else if is_status then begin
      (* an answer may be cut short by ResourceExhausted only if some report cannot fit an empty message *)
      if fit then add "aborted-though-everything-fits";
      if outcome <> "status,status:137" then add "unexpected-status";
      if not (c14_partial cf.tx ex xs vs) then add "partial-answer-inconsistent"
    end else
      add ("no-answer:" ^ outcome)
  with Bad why -> add ("malformed-chunk:" ^ (String.concat "_" (String.split_on_char ' ' why))));
  Printf.sprintf "R %s %s" c.id (if !bad = [] then "ok" else String.concat "," (List.rev !bad))

let () =
  let spec = Array.length Sys.argv > 1 && Sys.argv.(1) = "spec" in
  try
    while true do
      let line = input_line stdin in
      if String.length line > 2 && String.sub line 0 2 = "R " then begin
        if spec then begin
          (* <case> || <outcome> n=<k> | <chunks> *)
          let sep =
            let rec find i = if i + 4 > String.length line then failwith "no || separator"
              else if String.sub line i 4 = " || " then i else find (i + 1) in find 0 in
          let case_part = String.sub line 0 sep in
          let rest = String.sub line (sep + 4) (String.length line - sep - 4) in
          let c = parse_case (String.split_on_char ' ' case_part) in
          let bar = try String.index rest '|' with Not_found -> String.length rest in
          let head = String.trim (String.sub rest 0 bar) in
          let chunks = if bar < String.length rest then String.sub rest (bar + 1) (String.length rest - bar - 1) else "" in
          let outcome = List.hd (String.split_on_char ' ' head) in
          (* anything after the chunk list (e.g. oversize-datagrams=..) is a violation of its own *)
          let chunks, extra = match String.split_on_char ' ' (String.trim chunks) with
            | [x] -> x, "" | x :: y :: _ -> x, y | [] -> "", "" in
          let res = run_spec c outcome chunks in
          if extra <> "" then print_endline (res ^ "," ^ extra) else print_endline res
        end else
          print_endline (run_model (parse_case (String.split_on_char ' ' line)))
      end
    done
  with End_of_file -> ()
