(* Line-oriented driver for the C14 model (chunked ReportData answers).

   default mode : case line  ->  "R <id> <outcome> n=<chunks> | <chunk>;<chunk>..."   (same format as harness c14 run)
   spec mode    : "<case line> || <outcome> n=<k> | <chunks of the IMPLEMENTATION>"
                  ->  "R <id> ok" or "R <id> <violated clause>,<violated clause>..."
                  (the extracted property evaluated on the implementation's own chunks)
   coq mode     : case lines -> a Coq file whose [Eval vm_compute] lines evaluate the same model calls
   expect mode  : case lines -> what those [Eval]s must print (tokenised), computed by the EXTRACTED code
   Case format: see harness/src/bin/c14.rs.
   Line format: R <id> <outcome> n=<k> | <chunks> [subs=<n>] [next <outcome> n=<k> | <chunks>] *)
open Model
open Util

let rec nat_of (i : int) : nat = if i <= 0 then O else S (nat_of (i - 1))

let opt_n s = if s = "*" then None else Some (n_of_string s)

let parse_paths s : ((n option * n option) * n option) list option =
  if s = "-" then None
  else Some (List.map (fun p ->
    match String.split_on_char '.' p with
    | [a; b; c] -> ((opt_n a, opt_n b), opt_n c)
    | _ -> failwith ("bad path " ^ p)) (split_on ',' s))

let lst_o o = match o with Some l -> l | None -> []

type case = {
  id : string;
  subscribe : bool;
  nd : clus list;
  q : ((n option * n option) * n option) list option;
  f : ((n * n) * n) list;
  e : evspec list;
  p : ((n option * n option) * n option) list option;
  m : n list;
  lim : int;
  txv : n;
  rsv : n;
  update : bool;                                        (* k=u: the measured interaction is a subscription report *)
  ch : ((n option * n option) * n option) list;         (* changed attributes / clusters *)
  e2 : evspec list;                                     (* events emitted after priming *)
  ab : (bool * int) option;                             (* (silent?, chunk number) *)
}

let parse_spec s =
  if String.length s > 0 && s.[0] = 's' then SScalar (n_of_string (String.sub s 1 (String.length s - 1)))
  else SList (List.map n_of_string (List.filter (fun x -> x <> "") (String.split_on_char '+' (String.sub s 1 (String.length s - 1)))))

let parse_case (fields : string list) : case =
  let c = ref { id = List.nth fields 1; subscribe = false; nd = []; q = None; f = []; e = []; p = None; m = [];
                lim = 40; txv = n_of_int 1178; rsv = n_of_int 24; update = false; ch = []; e2 = []; ab = None } in
  List.iter (fun kv ->
    match String.index_opt kv '=' with
    | None -> ()
    | Some i ->
      let k = String.sub kv 0 i and v = String.sub kv (i + 1) (String.length kv - i - 1) in
      match k with
      | "k" -> c := { !c with subscribe = (v = "s" || v = "u"); update = (v = "u") }
      | "c" -> if v <> "-" then c := { !c with ch = lst_o (parse_paths v) }
      | "ab" -> if v <> "-" && String.length v > 1 then
          c := { !c with ab = Some (v.[0] = 'x', int_of_string (String.sub v 1 (String.length v - 1))) }
      | "n" ->
        let cls = List.map (fun cl ->
          match String.index_opt cl ':' with
          | None -> failwith "bad cluster"
          | Some j ->
            let head = String.sub cl 0 j and attrs = String.sub cl (j + 1) (String.length cl - j - 1) in
            (match String.split_on_char '.' head with
             | [ep; id; dv] ->
               { cl_ep = n_of_string ep; cl_id = n_of_string id; cl_dv = n_of_string dv;
                 cl_attrs = List.map (fun a ->
                   match String.index_opt a '=' with
                   | Some t -> (n_of_string (String.sub a 0 t), parse_spec (String.sub a (t + 1) (String.length a - t - 1)))
                   | None -> failwith "bad attr") (split_on ',' attrs) }
             | _ -> failwith "bad cluster head")) (List.filter (fun x -> x <> "") (String.split_on_char ';' v)) in
        c := { !c with nd = cls }
      | "q" -> c := { !c with q = parse_paths v }
      | "f" -> if v <> "-" then
          c := { !c with f = List.map (fun x -> match String.split_on_char '.' x with
            | [a; b; d] -> ((n_of_string a, n_of_string b), n_of_string d) | _ -> failwith "bad filter") (split_on ',' v) }
      | "e" | "e2" -> if v <> "-" then begin
          let l = List.map (fun x -> match String.split_on_char '.' x with
            | [ep; cl; ev; pr; len; ts] ->
              { es_path = ((n_of_string ep, n_of_string cl), n_of_string ev); es_prio = n_of_string pr;
                es_len = n_of_string len; es_ts = n_of_string ts }
            | _ -> failwith "bad event") (split_on ',' v) in
          if k = "e" then c := { !c with e = l } else c := { !c with e2 = l } end
      | "p" -> c := { !c with p = parse_paths v }
      | "m" -> if v <> "-" then c := { !c with m = List.map n_of_string (split_on ',' v) }
      | "lim" -> c := { !c with lim = int_of_string v }
      | "tx" -> c := { !c with txv = n_of_string v }
      | "rs" -> c := { !c with rsv = n_of_string v }
      | _ -> ()) (List.tl (List.tl fields));
  !c

let u64max = n_of_string "18446744073709551615"

(* the configuration of the measured interaction; [peer] = false: a peer that answers every chunk *)
let cfg_of ?(peer = true) (c : case) : cfg =
  let n_e = n_of_int (List.length c.e) and n_all = n_of_int (List.length c.e + List.length c.e2) in
  { tx = c.txv; reserve_sz = c.rsv;
    sub_w = (if c.subscribe then Some (n_of_int 1) else None);
    suppress = not c.subscribe;
    has_attrs = (c.q <> None); has_events = (c.p <> None);
    ev_lo = (if c.update then n_e else N0);
    ev_hi = (if c.update then n_all else u64max);
    accept = (match c.ab with Some (_, k) when peer -> Some (n_of_int (k - 1)) | _ -> None) }

let lst o = match o with Some l -> l | None -> []

(* ---- printing, same text as the harness ---- *)
let path_str (((a, b), c) : (n * n) * n) = Printf.sprintf "%s.%s.%s" (string_of_n a) (string_of_n b) (string_of_n c)

(* the marker of a streamed list that has no elements is, byte for byte, the complete (empty) list:
   the harness cannot tell them apart and prints 'v'; so does the model side *)
let empty_lists : (((n * n) * n), unit) Hashtbl.t = Hashtbl.create 16

let atom_str (a : atom) =
  match a with
  | AWhole (p, sz) -> Printf.sprintf "v%s/%s" (path_str p) (string_of_n sz)
  | AMarker (p, sz) ->
      Printf.sprintf "%s%s/%s" (if Hashtbl.mem empty_lists p then "v" else "k") (path_str p) (string_of_n sz)
  | AElem (p, idx, sz) -> Printf.sprintf "x%s.%s/%s" (path_str p) (string_of_n idx) (string_of_n sz)
  | AStatus (p, code, sz) -> Printf.sprintf "t%s.%s/%s" (path_str p) (string_of_n code) (string_of_n sz)
  | AEvent (num, sz) -> Printf.sprintf "n%s/%s" (string_of_n num) (string_of_n sz)
  | AEvStatus (code, sz) -> Printf.sprintf "u%s/%s" (string_of_n code) (string_of_n sz)

let view_str (v : view) =
  let fl = Buffer.create 8 in
  (match v.v_sub with Some w -> Buffer.add_string fl ("i" ^ string_of_n w) | None -> ());
  if v.v_attrs <> None then Buffer.add_char fl 'a';
  if v.v_events <> None then Buffer.add_char fl 'e';
  if v.v_more then Buffer.add_char fl 'm';
  if v.v_supp then Buffer.add_char fl 's';
  Buffer.add_char fl 'r';
  Printf.sprintf "%s:%s:%s:%s" (string_of_n v.v_size) (Buffer.contents fl)
    (String.concat "," (List.map atom_str (lst v.v_attrs)))
    (String.concat "," (List.map atom_str (lst v.v_events)))

let note_empty_lists (c : case) =
  Hashtbl.reset empty_lists;
  List.iter (fun cl ->
    List.iter (fun (id, sp) ->
      match sp with SList [] -> Hashtbl.replace empty_lists ((cl.cl_ep, cl.cl_id), id) () | _ -> ()) cl.cl_attrs) c.nd

(* the inputs of the model for one case: work list, event statuses, event queue *)
let inputs (c : case) =
  let items = if c.update then report_items_of c.nd (lst c.q) c.ch else items_of c.nd c.f (lst c.q) in
  let stats = ev_statuses_of c.nd (lst c.p) in
  let evs = evs_of c.nd (lst c.p) c.m (n_of_int 1) (c.e @ c.e2) in
  (items, stats, evs)

let fuel = nat_of 64

let chunk_texts chunks =
  String.concat ";" (List.map (fun ch -> match parse_chunk ch with Some v -> view_str v | None -> "?model-chunk-does-not-parse") chunks)

let outcome_str (c : case) o chunks =
  match o with
  | ODone -> if c.update && chunks = [] then "quiet" else "done"
  | OStatus -> "status,status:137" | OError -> "hang" | OFuel -> "limit" | OAbort -> "aborted"

(* one interaction of the model: (outcome, chunks, subscription still there?) *)
let interaction ?(peer = true) (c : case) =
  let cf = cfg_of ~peer c in
  let (items, stats, evs) = inputs c in
  if c.update then begin
    let how = (match c.ab with Some (true, _) -> Silent | _ -> Refuses) in
    let ((x, o), chunks) = report_round fuel cf how { sb_seen = cf.ev_lo; sb_pending = items } cf.ev_hi stats evs in
    (o, chunks, Some (x <> None))
  end else
    let (o, chunks) = respond fuel cf items stats evs in (o, chunks, None)

(* is there a next interaction to look at?  after a refusal: the same request again (read, subscribe);
   after silence in a report: the reporter's retry *)
let has_next (c : case) o =
  o = OAbort && (match c.ab with Some (silent, _) -> if c.update then silent else not silent | None -> false)

let run_model (c : case) =
  note_empty_lists c;
  let (o, chunks, subs) = interaction c in
  let b = Buffer.create 256 in
  Buffer.add_string b (Printf.sprintf "R %s %s n=%d | %s" c.id (outcome_str c o chunks) (List.length chunks) (chunk_texts chunks));
  (match subs with Some k -> Buffer.add_string b (Printf.sprintf " subs=%d" (if k then 1 else 0)) | None -> ());
  if has_next c o then begin
    let (o2, chunks2, _) = interaction ~peer:false c in
    Buffer.add_string b (Printf.sprintf " next %s n=%d | %s" (outcome_str c o2 chunks2) (List.length chunks2) (chunk_texts chunks2))
  end;
  Buffer.contents b

(* ---- spec mode: parse the implementation's chunks back into views ---- *)
exception Bad of string

let parse_path3 s = match String.split_on_char '.' s with
  | [a; b; c] -> ((n_of_string a, n_of_string b), n_of_string c)
  | _ -> raise (Bad "path")

let parse_atom (s : string) : atom =
  if s = "" then raise (Bad "empty atom");
  let body = String.sub s 1 (String.length s - 1) in
  let (what, sz) = match String.index_opt body '/' with
    | Some i -> (String.sub body 0 i, n_of_string (String.sub body (i + 1) (String.length body - i - 1)))
    | None -> raise (Bad "atom size") in
  match s.[0] with
  | 'v' -> AWhole (parse_path3 what, sz)
  | 'k' -> AMarker (parse_path3 what, sz)
  | 'x' -> (match String.split_on_char '.' what with
            | [a; b; c; i] -> AElem (((n_of_string a, n_of_string b), n_of_string c), n_of_string i, sz)
            | _ -> raise (Bad "elem"))
  | 't' -> (match String.split_on_char '.' what with
            | [a; b; c; code] -> AStatus (((n_of_string a, n_of_string b), n_of_string c), n_of_string code, sz)
            | _ -> raise (Bad "status"))
  | 'n' -> AEvent (n_of_string what, sz)
  | 'u' -> AEvStatus (n_of_string what, sz)
  | _ -> raise (Bad ("unrecognised report " ^ s))

let parse_view (s : string) : view =
  match String.split_on_char ':' s with
  | [size; flags; attrs; events] ->
    let has ch = String.contains flags ch in
    if has 'M' || has 'S' then raise (Bad "explicit false flag");
    if not (has 'r') then raise (Bad "no revision");
    let subw = match String.index_opt flags 'i' with
      | Some i -> Some (n_of_string (String.make 1 flags.[i + 1]))
      | None -> None in
    { v_sub = subw;
      v_attrs = (if has 'a' then Some (List.map parse_atom (split_on ',' attrs)) else (if attrs <> "" then raise (Bad "atoms outside array") else None));
      v_events = (if has 'e' then Some (List.map parse_atom (split_on ',' events)) else (if events <> "" then raise (Bad "atoms outside array") else None));
      v_more = has 'm'; v_supp = has 's'; v_size = n_of_string size }
  | _ -> raise (Bad "chunk text")

(* the extracted property on one interaction of the implementation *)
let judge (c : case) ~(peer : bool) (outcome : string) (chunks_txt : string) (add : string -> unit) =
  let cf = cfg_of ~peer c in
  let (items, stats, evs) = inputs c in
  let ex = if c.update then List.map expect_of_item items else expects_of c.nd c.f (lst c.q) in
  let xs = evexpects_of cf c.nd (lst c.p) evs in
  let fit = all_fit cf items stats evs in
  let before = ref 0 in
  let add s = incr before; add s in
  (try
    let vs = List.map parse_view (List.filter (fun x -> x <> "") (String.split_on_char ';' (String.trim chunks_txt))) in
    let is_status = (String.length outcome >= 6 && String.sub outcome 0 6 = "status") in
    if outcome = "done" then begin
      if not (c14_exactly_once ex vs) then add "attr-exactly-once";
      if not (c14_events_once xs vs) then add "event-exactly-once";
      if not (c14_fits cf.tx vs) then add "chunk-size";
      if not (only_last_ends vs) then add "last-chunk-flag";
      if not (last_supp vs cf.suppress) then add "suppress-flag";
      if (!before = 0) && not (c14_holds cf.tx cf.suppress ex xs vs) then add "c14-holds"
    end else if outcome = "quiet" then begin
      (* no report at all: only if there is nothing to report *)
      if not (c.update && nothing_to_report cf items stats evs) then add "report-missing";
      if vs <> [] then add "quiet-with-chunks"
    end else if is_status then begin
      (* an answer may be cut short by ResourceExhausted only if some report cannot fit an empty message *)
      if fit then add "aborted-though-everything-fits";
      if outcome <> "status,status:137" then add "unexpected-status";
      if not (c14_partial cf.tx ex xs vs) then add "partial-answer-inconsistent"
    end else if outcome = "aborted" then begin
      (* the peer refused chunk k or went silent after it: exactly k chunks, none of which claims to be the last,
         and what was delivered is a correct beginning *)
      (match c.ab with
       | Some (_, k) when peer -> if List.length vs <> k then add "aborted-at-wrong-chunk"
       | _ -> add "no-answer:aborted");
      if not (List.for_all (fun v -> v.v_more && not v.v_supp) vs) then add "aborted-claims-completeness";
      if not (c14_partial cf.tx ex xs vs) then add "partial-answer-inconsistent"
    end else
      add ("no-answer:" ^ outcome)
  with Bad why -> add ("malformed-chunk:" ^ (String.concat "_" (String.split_on_char ' ' why))))

(* rest = "<outcome> n=<k> | <chunks> [subs=<n>] [next <outcome> n=<k> | <chunks>] [extra..]" *)
let run_spec (c : case) (rest : string) =
  let bad = ref [] in
  let add s = bad := s :: !bad in
  let toks = List.filter (fun x -> x <> "") (String.split_on_char ' ' rest) in
  let is_chunks t = String.length t > 0 && ((t.[0] >= '0' && t.[0] <= '9') || t.[0] = '?') in
  (* one "<outcome> n=<k> | [<chunks>]" group; returns (outcome, chunks, remaining tokens) *)
  let group toks = match toks with
    | o :: _n :: "|" :: t :: more when is_chunks t -> (o, t, more)
    | o :: _n :: "|" :: more -> (o, "", more)
    | o :: more -> (o, "", more)
    | [] -> ("missing", "", []) in
  let (outcome, chunks, more) = group toks in
  judge c ~peer:true outcome chunks add;
  let subs, more = match more with
    | t :: m when String.length t > 5 && String.sub t 0 5 = "subs=" -> ((try Some (int_of_string (String.sub t 5 (String.length t - 5))) with _ -> Some (-1)), m)
    | m -> (None, m) in
  (* the subscription afterwards: kept after a delivered (or empty) report and after silence, gone after a refusal
     or a ResourceExhausted ending *)
  if c.update then begin
    let want = match outcome with
      | "done" | "quiet" -> Some 1
      | "aborted" -> (match c.ab with Some (true, _) -> Some 1 | _ -> Some 0)
      | o when String.length o >= 6 && String.sub o 0 6 = "status" -> Some 0
      | _ -> None in
    (match want, subs with
     | Some w, Some k -> if w <> k then add "subscription-state"
     | Some _, None -> add "subscription-state-missing"
     | None, _ -> ())
  end;
  let more = match more with
    | "next" :: m ->
      let (o2, ch2, m2) = group m in
      let sub_bad = ref [] in
      judge c ~peer:false o2 ch2 (fun s -> sub_bad := s :: !sub_bad);
      List.iter (fun s -> add ("next:" ^ s)) (List.rev !sub_bad);
      m2
    | m ->
      (* the next interaction must have been looked at whenever there is one *)
      if outcome = "aborted" && has_next c OAbort then add "next:missing";
      m in
  (* anything else on the line (e.g. oversize-datagrams=..) is a violation of its own *)
  List.iter add more;
  Printf.sprintf "R %s %s" c.id (if !bad = [] then "ok" else String.concat "," (List.rev !bad))

(* ---- extraction sanity: the same calls, once through Coq's vm_compute, once through the extracted code ---- *)
let coq_n v = string_of_n v
let coq_opt f o = match o with Some x -> "(Some " ^ f x ^ ")" | None -> "None"
let coq_list f l = "[" ^ String.concat "; " (List.map f l) ^ "]"
let coq_bool b = if b then "true" else "false"
let coq_rpath ((a, b), d) = Printf.sprintf "(%s, %s, %s)" (coq_opt coq_n a) (coq_opt coq_n b) (coq_opt coq_n d)
let coq_path ((a, b), d) = Printf.sprintf "(%s, %s, %s)" (coq_n a) (coq_n b) (coq_n d)
let coq_spec sp = match sp with
  | SScalar l -> "SScalar " ^ coq_n l
  | SList ls -> "SList " ^ coq_list coq_n ls
let coq_clus cl = Printf.sprintf "mkClus %s %s %s %s" (coq_n cl.cl_ep) (coq_n cl.cl_id) (coq_n cl.cl_dv)
    (coq_list (fun (id, sp) -> Printf.sprintf "(%s, %s)" (coq_n id) (coq_spec sp)) cl.cl_attrs)
let coq_evspec e = Printf.sprintf "mkEvspec %s %s %s %s" (coq_path e.es_path) (coq_n e.es_prio) (coq_n e.es_len) (coq_n e.es_ts)
let coq_cfg (cf : cfg) = Printf.sprintf "(mkCfg %s %s %s %s %s %s %s %s %s)" (coq_n cf.tx) (coq_n cf.reserve_sz)
    (coq_opt coq_n cf.sub_w) (coq_bool cf.suppress) (coq_bool cf.has_attrs) (coq_bool cf.has_events)
    (coq_n cf.ev_lo) (coq_n cf.ev_hi) (coq_opt coq_n cf.accept)

(* the Coq term for the measured interaction of a case (mirrors [interaction]) *)
let coq_term (c : case) =
  let cf = cfg_of c in
  let nd = coq_list coq_clus c.nd in
  let qs = coq_list coq_rpath (lst c.q) and ps = coq_list coq_rpath (lst c.p) in
  let fs = coq_list (fun ((a, b), d) -> Printf.sprintf "(%s, %s, %s)" (coq_n a) (coq_n b) (coq_n d)) c.f in
  let stats = Printf.sprintf "(ev_statuses_of %s %s)" nd ps in
  let evs = Printf.sprintf "(evs_of %s %s %s 1 %s)" nd ps (coq_list coq_n c.m) (coq_list coq_evspec (c.e @ c.e2)) in
  if c.update then
    Printf.sprintf "round_view (report_round 64 %s %s (mkSub %s (report_items_of %s %s %s)) %s %s %s)" (coq_cfg cf)
      (match c.ab with Some (true, _) -> "Silent" | _ -> "Refuses") (coq_n cf.ev_lo) nd qs (coq_list coq_rpath c.ch)
      (coq_n cf.ev_hi) stats evs
  else
    Printf.sprintf "read_view (respond 64 %s (items_of %s %s %s) %s %s)" (coq_cfg cf) nd fs qs stats evs

let coq_header = String.concat "\n" [
  "(* generated by ocaml/c14/driver.ml coq : extraction sanity sample *)";
  "From RsM Require Import Lib.MachInt Model.Chunk Model.ChunkSpec.";
  "Open Scope N_scope.";
  "Definition read_view (r : outcome * list (list token)) := (@None N, fst r, snd r).";
  "Definition round_view (r : option sub * outcome * list (list token)) :=";
  "  let '(x, o, ch) := r in (match x with Some s => Some (sb_seen s) | None => None end, o, ch).";
  "" ]

(* the value as Coq prints it, up to layout *)
let coq_atom a = match a with
  | AWhole (p, sz) -> Printf.sprintf "AWhole %s %s" (coq_path p) (coq_n sz)
  | AMarker (p, sz) -> Printf.sprintf "AMarker %s %s" (coq_path p) (coq_n sz)
  | AElem (p, i, sz) -> Printf.sprintf "AElem %s %s %s" (coq_path p) (coq_n i) (coq_n sz)
  | AStatus (p, code, sz) -> Printf.sprintf "AStatus %s %s %s" (coq_path p) (coq_n code) (coq_n sz)
  | AEvent (num, sz) -> Printf.sprintf "AEvent %s %s" (coq_n num) (coq_n sz)
  | AEvStatus (code, sz) -> Printf.sprintf "AEvStatus %s %s" (coq_n code) (coq_n sz)
let coq_token t = match t with
  | TStruct -> "TStruct" | TSubId w -> "TSubId " ^ coq_n w | TArrA -> "TArrA" | TArrE -> "TArrE" | TEnd -> "TEnd"
  | TAtom a -> "TAtom (" ^ coq_atom a ^ ")" | TMore -> "TMore" | TSuppress -> "TSuppress" | TRev -> "TRev"
let coq_outcome o = match o with
  | ODone -> "ODone" | OStatus -> "OStatus" | OError -> "OError" | OAbort -> "OAbort" | OFuel -> "OFuel"

let coq_expected (c : case) =
  let cf = cfg_of c in
  let (items, stats, evs) = inputs c in
  let (x, o, chunks) =
    if c.update then
      let how = (match c.ab with Some (true, _) -> Silent | _ -> Refuses) in
      let ((x, o), chunks) = report_round fuel cf how { sb_seen = cf.ev_lo; sb_pending = items } cf.ev_hi stats evs in
      ((match x with Some s -> Some s.sb_seen | None -> None), o, chunks)
    else let (o, chunks) = respond fuel cf items stats evs in (None, o, chunks) in
  Printf.sprintf "= (%s, %s, %s)" (match x with Some v -> "Some " ^ coq_n v | None -> "None") (coq_outcome o)
    (coq_list (coq_list coq_token) chunks)

let () =
  let mode = if Array.length Sys.argv > 1 then Sys.argv.(1) else "" in
  let spec = (mode = "spec") in
  if mode = "coq" then print_string coq_header;
  try
    while true do
      let line = input_line stdin in
      if String.length line > 2 && String.sub line 0 2 = "R " then begin
        (* a line this driver cannot digest must not take the run down: it becomes an answer of its own *)
        let id = (match String.split_on_char ' ' line with _ :: i :: _ -> i | _ -> "?") in
        try
        if spec then begin
          (* <case> || <outcome> n=<k> | <chunks> ... *)
          let sep =
            let rec find i = if i + 4 > String.length line then failwith "no || separator"
              else if String.sub line i 4 = " || " then i else find (i + 1) in find 0 in
          let case_part = String.sub line 0 sep in
          let rest = String.sub line (sep + 4) (String.length line - sep - 4) in
          let c = parse_case (String.split_on_char ' ' case_part) in
          print_endline (run_spec c rest)
        end else if mode = "coq" then begin
          let c = parse_case (String.split_on_char ' ' line) in
          Printf.printf "(* %s *)\nEval vm_compute in (%s).\n" c.id (coq_term c)
        end else if mode = "expect" then begin
          let c = parse_case (String.split_on_char ' ' line) in
          Printf.printf "%s %s\n" c.id (coq_expected c)
        end else
          print_endline (run_model (parse_case (String.split_on_char ' ' line)))
        with
        | End_of_file -> raise End_of_file
        | e -> Printf.printf "R %s driver-cannot-read-line:%s\n" id
                 (String.concat "_" (String.split_on_char ' ' (Printexc.to_string e)))
      end
    done
  with End_of_file -> ()
