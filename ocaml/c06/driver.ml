(* Line-oriented driver for the C06 model (mediation of Interaction Model
   operations).  Same case grammar and output format as harness/src/bin/c06.rs.

   argv[1] absent : print the model's response for every request of every case line
   argv[1]="spec" : monitor mode.  Input lines are  <case line> TAB <implementation output line>;
                    prints  Q <id> <one char per request>  where
                      1 = the extracted property [holds] is true of the implementation's response
                      0 = it is false (violation)
                      k = it is false in the way of the known finding absent-event-no-status only
                          (an event read whose answer lacks exactly the UnsupportedEvent status entries)
                      . = the implementation's response could not be parsed (harness error token)

   case line:  Q <id> <max_paths> <fabrics> <accessor> <nodes> <requests>   (see c06.rs);
   fabrics = alternative ACL tables joined by '!', a switch k>j/a puts node j and table a in force *)
open Model
open Util

let opt_n s = if s = "x" || s = "n" then None else Some (n_of_string s)

let nlist (s : string) : n list =
  if s = "e" || s = "n" || s = "" then [] else List.map n_of_string (String.split_on_char '/' s)

let plist (f : string -> 'a) (sep : char) (s : string) : 'a list =
  if s = "-" || s = "" then [] else List.map f (String.split_on_char sep s)

let rec nat_of_int (i : int) : nat = if i <= 0 then O else S (nat_of_int (i - 1))

(* ---- fabrics / accessor: grammar of ocaml/c05/driver.ml *)
let parse_auth = function
  | "P" -> APase | "C" -> ACase | "G" -> AGroup | s -> failwith ("bad auth " ^ s)

let parse_target (s : string) : target =
  match String.split_on_char '.' s with
  | [ep; cl; dt] -> { t_cl = opt_n cl; t_ep = opt_n ep; t_dt = opt_n dt }
  | _ -> failwith ("bad target " ^ s)

let parse_entry (s : string) : entry =
  match String.split_on_char ',' s with
  | [p; a; ef; subj; targ] ->
      { e_priv = n_of_string p;
        e_auth = parse_auth a;
        e_subj = (if subj = "n" then None else Some (nlist subj));
        e_targ = (if targ = "n" then None
                  else if targ = "e" then Some []
                  else Some (List.map parse_target (String.split_on_char '/' targ)));
        e_fab = opt_n ef }
  | _ -> failwith ("bad entry " ^ s)

let parse_group (s : string) : group =
  match String.split_on_char ',' s with
  | [gid; aux; eps] ->
      { g_id = n_of_string gid; g_eps = nlist eps;
        g_aux = (if aux = "n" then None else Some (aux = "1")) }
  | _ -> failwith ("bad group " ^ s)

let parse_fabric (s : string) : fabric =
  match String.split_on_char ':' s with
  | [idx; es; gs] ->
      let entries = plist parse_entry '+' es in
      let groups = plist parse_group '+' gs in
      fst (acl_add_all { f_idx = n_of_string idx; f_acl = []; f_groups = groups } entries)
  | _ -> failwith ("bad fabric " ^ s)

let parse_accessor (s : string) : accessor =
  match String.split_on_char ',' s with
  | [k; fab; peer; cats; _gid; aux] when String.length k = 2 && k.[0] = 'S' ->
      let fab = n_of_string fab and aux = (aux = "1") in
      (* the harness gives the session the peer node id 0xC0FFEE when none is named *)
      let peer = match opt_n peer with Some p -> Some p | None -> Some (n_of_string "12648430") in
      let mode = match k.[1] with
        | 'C' -> SCase (fab, nlist cats)
        | 'P' -> SPase fab
        | 'G' -> SGroup (fab, n_of_string _gid)
        | _ -> failwith ("bad session kind " ^ s) in
      for_session mode peer aux
  | _ -> failwith ("bad accessor " ^ s)

(* ---- nodes *)
let parse_leaf (s : string) : leaf =
  match String.split_on_char '.' s with
  | [id; acc; on] -> { l_id = n_of_string id; l_access = n_of_string acc; l_on = (on = "1") }
  | _ -> failwith ("bad leaf " ^ s)

let parse_cluster (s : string) : cluster =
  match String.split_on_char '=' s with
  | [id; attrs; cmds] ->
      { c_id = n_of_string id; c_attrs = plist parse_leaf '/' attrs; c_cmds = plist parse_leaf '/' cmds; c_events = [] }
  | [id; attrs; cmds; evs] ->
      { c_id = n_of_string id; c_attrs = plist parse_leaf '/' attrs; c_cmds = plist parse_leaf '/' cmds;
        c_events = plist parse_leaf '/' evs }
  | _ -> failwith ("bad cluster " ^ s)

let parse_endpoint (s : string) : endpoint =
  match String.split_on_char '~' s with
  | [id; dts; cls] ->
      { ep_id = n_of_string id; ep_dts = nlist dts; ep_clusters = plist parse_cluster '+' cls }
  | _ -> failwith ("bad endpoint " ^ s)

let parse_node (s : string) : endpoint list = plist parse_endpoint '|' s

(* ---- requests *)
let parse_item (s : string) : item =
  let (p, tag) = match String.index_opt s '^' with
    | Some i -> (String.sub s 0 i, Some (n_of_string (String.sub s (i + 1) (String.length s - i - 1))))
    | None -> (s, None) in
  match String.split_on_char '.' p with
  | [e; c; l] -> { it_path = { p_ep = opt_n e; p_cl = opt_n c; p_leaf = opt_n l }; it_tag = tag }
  | _ -> failwith ("bad item " ^ s)

let parse_op = function
  | "R" | "E" | "S" -> Read | "W" | "C" -> Write | "I" -> Invoke | s -> failwith ("bad op " ^ s)

let parse_qevent (s : string) : qevent =
  match String.split_on_char '.' s with
  | [e; c; i; f] -> { qe_ep = n_of_string e; qe_cl = n_of_string c; qe_id = n_of_string i; qe_fab = opt_n f }
  | _ -> failwith ("bad event " ^ s)

(* cont: a continuation chunk (op C) of the preceding write on the same exchange; its rq_elapsed is
   the wait before it (made cumulative when the chunks are grouped) *)
type preq = { rq : imreq; swaps : (int * int * int) list; nitems : int; cont : bool; is_write : bool; kind : string }

let parse_req (s : string) : preq =
  match String.split_on_char ',' s with
  | [op; flag; ff; win; elapsed; swaps; items] ->
      let its = plist parse_item '&' items in
      { rq = { rq_win = opt_n win; rq_elapsed = n_of_string elapsed; rq_op = parse_op op;
               rq_flag = (flag = "1"); rq_ff = (ff = "1"); rq_items = its };
        swaps = plist (fun x -> match String.split_on_char '>' x with
                         | [k; j] ->
                             (match String.split_on_char '/' j with
                              | [j; a] -> (int_of_string k, int_of_string j, int_of_string a)
                              | _ -> (int_of_string k, int_of_string j, 0))
                         | _ -> failwith ("bad swap " ^ x)) ':' swaps;
        nitems = List.length its; cont = (op = "C"); is_write = (op = "W" || op = "C"); kind = op }
  | _ -> failwith ("bad request " ^ s)

(* ---- printing *)
let o = function None -> "x" | Some v -> string_of_n v
let tagstr = function None -> "" | Some v -> "^" ^ string_of_n v

let show_out = function
  | OData (e, c, l, t) -> Printf.sprintf "D%s.%s.%s%s" (string_of_n e) (string_of_n c) (string_of_n l) (tagstr t)
  | OStatus (p, t, s) ->
      Printf.sprintf "S%s.%s.%s%s:%s" (o p.p_ep) (o p.p_cl) (o p.p_leaf) (tagstr t) (string_of_n (status_code s))

let show_call = function
  | HRead (e, c, l, f, ff) ->
      Printf.sprintf "R%s.%s.%s.%s.%d" (string_of_n e) (string_of_n c) (string_of_n l) (string_of_n f) (if ff then 1 else 0)
  | HWrite (e, c, l, f) -> Printf.sprintf "W%s.%s.%s.%s" (string_of_n e) (string_of_n c) (string_of_n l) (string_of_n f)
  | HInvoke (e, c, l, f) -> Printf.sprintf "V%s.%s.%s.%s" (string_of_n e) (string_of_n c) (string_of_n l) (string_of_n f)

let show_resp = function
  | RespStatus s -> "X" ^ string_of_n (status_code s)
  | RespItems (outs, log) ->
      "I[" ^ String.concat "," (List.map show_out outs) ^ "]L[" ^ String.concat "," (List.map show_call log) ^ "]"
  | RespOutOfFuel -> "F"

(* ---- parsing an implementation response back *)
let all_status = [SSuccess; SUnsupportedAccess; SUnsupportedEndpoint; SInvalidAction; SUnsupportedCommand;
                  SUnsupportedAttribute; SUnsupportedWrite; SUnsupportedRead; STimeout; SUnsupportedCluster;
                  SNeedsTimedInteraction; STimedRequestMisMatch; SUnsupportedEvent]

exception Unparsed

let status_of_code (s : string) : status =
  let c = n_of_string s in
  match List.filter (fun st -> status_code st = c) all_status with
  | st :: _ -> st
  | [] -> raise Unparsed   (* a status the mediation never produces: not comparable *)

let split_tag (s : string) : string * n option =
  match String.index_opt s '^' with
  | Some i -> (String.sub s 0 i, Some (n_of_string (String.sub s (i + 1) (String.length s - i - 1))))
  | None -> (s, None)

let parse_out (s : string) : out =
  let body = String.sub s 1 (String.length s - 1) in
  if s.[0] = 'D' then begin
    let (p, t) = split_tag body in
    match String.split_on_char '.' p with
    | [e; c; l] when e <> "x" && c <> "x" && l <> "x" -> OData (n_of_string e, n_of_string c, n_of_string l, t)
    | _ -> raise Unparsed
  end else if s.[0] = 'S' then begin
    match String.split_on_char ':' body with
    | [pt; code] ->
        let (p, t) = split_tag pt in
        (match String.split_on_char '.' p with
         | [e; c; l] -> OStatus ({ p_ep = opt_n e; p_cl = opt_n c; p_leaf = opt_n l }, t, status_of_code code)
         | _ -> raise Unparsed)
    | _ -> raise Unparsed
  end else raise Unparsed

let parse_call (s : string) : hcall =
  let body = String.sub s 1 (String.length s - 1) in
  match s.[0], String.split_on_char '.' body with
  | 'R', [e; c; l; f; ff] -> HRead (n_of_string e, n_of_string c, n_of_string l, n_of_string f, ff = "1")
  | 'W', [e; c; l; f] -> HWrite (n_of_string e, n_of_string c, n_of_string l, n_of_string f)
  | 'V', [e; c; l; f] -> HInvoke (n_of_string e, n_of_string c, n_of_string l, n_of_string f)
  | _ -> raise Unparsed

let parse_resp (s : string) : imresp =
  if s = "" then raise Unparsed
  else if s.[0] = 'X' then begin
    let rest = String.sub s 1 (String.length s - 1) in
    match String.index_opt rest 'L' with
    | Some i ->
        (* a bare status together with handler calls: never equal to any specified response *)
        let code = String.sub rest 0 i in
        ignore (status_of_code code);
        RespItems ([OStatus ({ p_ep = None; p_cl = None; p_leaf = None }, None, status_of_code code)],
                   [HWrite (N0, N0, N0, N0)])
    | None -> RespStatus (status_of_code rest)
  end else if s.[0] = 'I' then begin
    (* I[...]L[...] *)
    let i1 = String.index s ']' in
    let items = String.sub s 2 (i1 - 2) in
    let rest = String.sub s (i1 + 1) (String.length s - i1 - 1) in
    if String.length rest < 3 || rest.[0] <> 'L' then raise Unparsed;
    let log = String.sub rest 2 (String.length rest - 3) in
    RespItems (plist parse_out ',' (if items = "" then "-" else items),
               plist parse_call ',' (if log = "" then "-" else log))
  end else raise Unparsed

(* ---- main *)
let total_leaves (nd : endpoint list) : int =
  List.fold_left (fun a e -> List.fold_left (fun a c -> a + List.length c.c_attrs + List.length c.c_cmds) a e.ep_clusters) 0 nd

let () =
  let spec_mode = Array.length Sys.argv > 1 && Sys.argv.(1) = "spec" in
  try
    while true do
      let line = input_line stdin in
      let (case_line, impl_line) =
        match String.index_opt line '\t' with
        | Some i -> (String.sub line 0 i, String.sub line (i + 1) (String.length line - i - 1))
        | None -> (line, "") in
      let line_id = match String.split_on_char ' ' case_line with _ :: id :: _ -> id | _ -> "?" in
      (try
      let fields = String.split_on_char ' ' case_line in
      let (fields, queue) = match fields with
        | ["Q"; a; b; c; d; e; f; evs] -> (["Q"; a; b; c; d; e; f], plist parse_qevent '&' evs)
        | l -> (l, []) in
      match fields with
      | ["Q"; id; mp; fabs; acc; nodes; reqs] ->
          let is_group = String.length acc >= 2 && String.sub acc 0 2 = "SG" in
          let paths_of r = List.map (fun it -> it.it_path) r.rq.rq_items in
          let max_paths = nat_of_int (int_of_string mp) in
          let tables = List.map (plist parse_fabric '|') (String.split_on_char '!' fabs) in
          let tab_arr = Array.of_list tables in
          let who = parse_accessor acc in
          let nds = List.map parse_node (String.split_on_char '#' nodes) in
          let nd_arr = Array.of_list nds in
          let rqs = List.map parse_req (String.split_on_char ';' reqs) in
          let leaves_sum = List.fold_left (fun a n -> a + total_leaves n) 0 nds in
          let cfg j a = { cf_node = nd_arr.(min j (Array.length nd_arr - 1));
                          cf_fabs = tab_arr.(min a (Array.length tab_arr - 1)) } in
          let c0 = cfg 0 0 in
          (* group every write with the continuation chunks that follow it *)
          let rec groups (l : preq list) : preq list list =
            match l with
            | [] -> []
            | r :: rest when r.is_write ->
                let rec take acc = function
                  | c :: tl when c.cont -> take (c :: acc) tl
                  | tl -> (List.rev acc, tl) in
                let (cs, tl) = take [] rest in
                (r :: cs) :: groups tl
            | r :: rest -> [r] :: groups rest in
          let swl r = List.map (fun (kk, j, a) -> (nat_of_int kk, cfg j a)) r.swaps in
          let fuel_of r = nat_of_int ((r.nitems + 1) * (leaves_sum + 2) + 2) in
          (* the chunks of a group: elapsed accumulates over the waits *)
          let chunks_of (g : preq list) : wchunk list =
            let acc = ref N0 in
            List.mapi (fun i r ->
              (if i = 0 then acc := r.rq.rq_elapsed else acc := N.add !acc r.rq.rq_elapsed);
              { ch_flag = r.rq.rq_flag; ch_elapsed = !acc; ch_items = r.rq.rq_items }) g in
          let rqs_groups = groups rqs in
          if spec_mode then begin
            let impl = match String.split_on_char ' ' impl_line with
              | "Q" :: _ :: rest -> rest
              | _ -> [] in
            let buf = Buffer.create 16 in
            let pos = ref 0 in
            List.iter (fun g ->
              let n = List.length g in
              let toks = List.init n (fun i -> List.nth_opt impl (!pos + i)) in
              pos := !pos + n;
              let head = List.hd g in
              let verdict =
                if List.exists (fun t -> t = None) toks then '.'
                else begin
                  try
                    if is_group then begin
                      (* one token per request: GL[calls] *)
                      let ok = List.for_all2 (fun r t ->
                        match t with
                        | Some t when String.length t >= 4 && String.sub t 0 3 = "GL[" ->
                            let log = String.sub t 3 (String.length t - 4) in
                            holds_group max_paths who c0.cf_node c0.cf_fabs r.rq
                              (plist parse_call ',' (if log = "" then "-" else log))
                        | _ -> raise Unparsed) g toks in
                      if ok then '1' else '0'
                    end else
                    if head.is_write then begin
                      (* the answers up to the first N; nothing but N may follow *)
                      let rec split = function
                        | Some "N" :: tl -> if List.for_all (fun t -> t = Some "N") tl then [] else raise Unparsed
                        | Some t :: tl -> parse_resp t :: split tl
                        | _ -> [] in
                      let resps = split toks in
                      (* node / ACL switches are per message: all chunks of a group share those of the head
                         when they are the same, otherwise each chunk is judged alone *)
                      let same_sw = List.for_all (fun r -> r.swaps = head.swaps) g in
                      if same_sw then
                        (if holds_chunked max_paths who c0 (swl head) head.rq.rq_win head.rq.rq_ff (chunks_of g) resps
                         then '1' else '0')
                      else begin
                        let chs = chunks_of g in
                        let ok = ref (List.length resps >= 1) in
                        List.iteri (fun i r ->
                          match List.nth_opt resps i with
                          | Some resp ->
                              let ch = List.nth chs i in
                              if not (holds max_paths who c0 (swl r) (chunk_req head.rq.rq_win head.rq.rq_ff ch) resp)
                              then ok := false
                          | None -> ()) g;
                        if !ok then '1' else '0'
                      end
                    end else begin
                      match toks with
                      | [Some t] ->
                          if head.kind = "E" || head.kind = "S" then begin
                            let resp = parse_resp t in
                            let sub = (head.kind = "S") in
                            if holds_events sub who c0.cf_node c0.cf_fabs (paths_of head) queue resp then '1'
                            (* k: the property is violated in the way of the known finding absent-event-no-status only *)
                            else if holds_events_known sub who c0.cf_node c0.cf_fabs (paths_of head) queue resp then 'k'
                            else '0'
                          end
                          else if holds max_paths who c0 (swl head) head.rq (parse_resp t) then '1' else '0'
                      | _ -> '.'
                    end
                  with Unparsed | Not_found | Invalid_argument _ | Failure _ -> '.'
                end in
              for _ = 1 to n do Buffer.add_char buf verdict done) rqs_groups;
            Printf.printf "Q %s %s\n" id (Buffer.contents buf)
          end else begin
            let outs = List.concat_map (fun g ->
              let head = List.hd g in
              if is_group then
                List.map (fun r ->
                  match im_handle (fuel_of r) max_paths who c0 (swl r) r.rq with
                  | RespItems (_, log) -> "GL[" ^ String.concat "," (List.map show_call log) ^ "]"
                  | _ -> "GL[]") g
              else if head.kind = "E" then [show_resp (read_events c0.cf_fabs who c0.cf_node (paths_of head) queue)]
              else if head.kind = "S" then [show_resp (subscribe_events c0.cf_fabs who c0.cf_node (paths_of head) queue)]
              else if head.is_write then begin
                let chs = chunks_of g in
                (* every chunk is a message of its own: the handler-call count of the switches restarts *)
                let rec go (rs : preq list) (cs : wchunk list) : string list =
                  match rs, cs with
                  | r :: rt, ch :: ct ->
                      let resp = im_handle (fuel_of r) max_paths who c0 (swl r) (chunk_req head.rq.rq_win head.rq.rq_ff ch) in
                      (match resp with
                       | RespItems _ -> show_resp resp :: go rt ct
                       | _ -> show_resp resp :: List.map (fun _ -> "N") rt)
                  | _, _ -> [] in
                go g chs
              end else [show_resp (im_handle (fuel_of head) max_paths who c0 (swl head) head.rq)]) rqs_groups in
            Printf.printf "Q %s %s\n" id (String.concat " " outs)
          end
      | _ -> if line <> "" then failwith ("bad line: " ^ line)
      with
      | End_of_file -> raise End_of_file
      | _ ->
          (* an unexpected token anywhere in the line: the line gets no verdict / no model answer,
             the check reports it as unparsed instead of dying *)
          if line <> "" then Printf.printf "Q %s %s\n" line_id (if spec_mode then "?" else "Edriver"))
    done
  with End_of_file -> ()
