(* Extraction of the C06 model (Model/Im.v), specification and monitor
   (Model/ImSpec.v).  ExtrOcamlBasic only: bool, option, list, prod, unit,
   sumbool map to OCaml's; N / positive / nat stay inductive. *)
From RsM Require Import Lib.MachInt Model.Acl Model.AclSpec Model.Im Model.ImSpec Model.ImEvents.
Require Import ExtrOcamlBasic.
Extraction Language OCaml.
Extraction "model.ml"
  N.add N.mul N.div_eucl
  subj_new subj_add_catid_ignore for_session acl_add_all
  status_code im_handle write_chunked spec_response spec_write_chunked holds holds_chunked wf_node wf_fabrics shape_stable
  permitted served request_spec concrete_decision
  read_events subscribe_events holds_events holds_events_known holds_group permitted_events.
