(* Line-oriented driver for the C15 model (N, A, X lines; the wire-tap cases P/C/Q
   are judged on the implementation's own traffic and have no model line). *)
open Model
open Util

let opt_n s = if s = "-" then None else Some (n_of_string s)
let rec nat_of (i : int) : nat = if i <= 0 then O else S (nat_of (i - 1))

let new_sess ctr0 nex = sess_new (n_of_string ctr0) (nat_of (int_of_string nex))
let at_sess ctr nex mode = sess_at (n_of_string ctr) (nat_of (int_of_string nex)) (mode = "c")

let run_n st0 ops =
  let st = ref st0 in
  let buf = Buffer.create 256 in
  (try
    List.iter (fun op ->
      match String.split_on_char ':' op with
      | ["s"; e; m; rel] ->
          let (s', r) = sess_send !st (nat_of (int_of_string e)) (n_of_string m) (rel = "1") in
          (match r with
           | Ok w ->
               st := s';
               Buffer.add_string buf (Printf.sprintf "ok:%s:%s|" (string_of_n w.w_ctr)
                 (match w.w_ack with Some a -> string_of_n a | None -> "-"))
           | Err c -> st := s'; Buffer.add_string buf (if int_of_n c = 1 then "timeout|" else if int_of_n c = 3 then "nosess|" else "err|")
           | Panic _ -> Buffer.add_string buf "panic|"; raise Exit)
      | ["r"; e; ctr; ack; rel] ->
          let (s', r) = sess_recv !st (nat_of (int_of_string e)) (n_of_string ctr) (opt_n ack) (rel = "1") in
          st := s';
          (match r with
           | Ok _ -> Buffer.add_string buf "ok|"
           | Err c -> Buffer.add_string buf (if int_of_n c = 2 then "dup|" else "err|")
           | Panic _ -> Buffer.add_string buf "panic|"; raise Exit)
      | _ -> failwith "bad N op") (List.filter (fun x -> x <> "") (split_on ',' ops))
  with Exit -> ());
  Printf.sprintf "%s ctr=%s exp=%d" (Buffer.contents buf) (string_of_n !st.s_ctr) (if !st.s_expired then 1 else 0)

(* spec mode for N: is the trace honest (extracted predicate)?  The python side then checks
   nonce uniqueness on the IMPLEMENTATION's outputs for honest traces. *)
let honest_n st0 ops =
  let l = List.map (fun op ->
    match String.split_on_char ':' op with
    | ["s"; e; m; rel] -> Send (nat_of (int_of_string e), n_of_string m, rel = "1")
    | ["r"; e; ctr; ack; rel] -> Recv (nat_of (int_of_string e), n_of_string ctr, opt_n ack, rel = "1")
    | _ -> failwith "bad N op") (List.filter (fun x -> x <> "") (split_on ',' ops)) in
  honest st0 l

let () =
  let spec_mode = Array.length Sys.argv > 1 && Sys.argv.(1) = "spec" in
  try
    while true do
      let line = input_line stdin in
      match String.split_on_char ' ' line with
      | "N" :: id :: ctr0 :: nex :: rest when spec_mode ->
          Printf.printf "N %s %d\n" id (if honest_n (new_sess ctr0 nex) (match rest with o :: _ -> o | [] -> "") then 1 else 0)
      | "M" :: id :: ctr :: nex :: mode :: rest when spec_mode ->
          Printf.printf "M %s %d\n" id (if honest_n (at_sess ctr nex mode) (match rest with o :: _ -> o | [] -> "") then 1 else 0)
      | _ when spec_mode -> ()
      | "N" :: id :: ctr0 :: nex :: rest ->
          Printf.printf "N %s %s\n" id (run_n (new_sess ctr0 nex) (match rest with o :: _ -> o | [] -> ""))
      | "M" :: id :: ctr :: nex :: mode :: rest ->
          Printf.printf "M %s %s\n" id (run_n (at_sess ctr nex mode) (match rest with o :: _ -> o | [] -> ""))
      | "A" :: id :: cursor :: rest ->
          (* a trailing 'e' marks an expired session: its identifier is still in use *)
          let strip x = if String.length x > 0 && x.[String.length x - 1] = 'e' then String.sub x 0 (String.length x - 1) else x in
          let used = List.map (fun x -> n_of_string (strip x)) (List.filter (fun x -> x <> "") (split_on ',' (match rest with u :: _ -> u | [] -> ""))) in
          (match next_sess_id (nat_of (List.length used + 1)) (n_of_string cursor) used with
           | Some (i, c) -> Printf.printf "A %s %s %s\n" id (string_of_n i) (string_of_n c)
           | None -> Printf.printf "A %s none\n" id)
      | "X" :: id :: cursor :: rest ->
          let live = List.map (fun x ->
            match String.split_on_char ':' x with
            | [a; r] -> (n_of_string a, r = "i")
            | _ -> failwith "bad X item")
            (List.filter (fun x -> x <> "") (split_on ',' (match rest with u :: _ -> u | [] -> ""))) in
          (match next_exch_id (nat_of (List.length live + 1)) (n_of_string cursor) live with
           | Some (i, c) -> Printf.printf "X %s %s %s\n" id (string_of_n i) (string_of_n c)
           | None -> Printf.printf "X %s none\n" id)
      | _ -> ()
    done
  with End_of_file -> ()
