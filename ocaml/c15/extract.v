(* Extraction of the C15 model.  ExtrOcamlBasic only. *)
From RsM Require Import Lib.MachInt Model.Mrp Model.Nonce Proofs.NonceTheorems.
Require Import ExtrOcamlBasic.
Extraction Language OCaml.
Extraction "model.ml"
  N.add N.mul N.div_eucl
  sess_new sess_at sess_send sess_recv next_sess_id next_exch_id honest exch_conflict mem.
