(* Extraction of the C17 models and monitors.  ExtrOcamlBasic only. *)
From RsM Require Import Lib.MachInt Model.Headers Model.Codecs Model.CodecsSpec.
Require Import ExtrOcamlBasic.
Extraction Language OCaml.
Extraction "model.ml"
  N.add N.mul N.div_eucl
  plain_new plain_encode plain_decode plain_wf
  plain_set_src plain_set_dst_unicast plain_set_dst_groupcast
  proto_new proto_encode proto_decode proto_wf
  b38_encode b38_decode
  manual_encode manual_encode_long manual_parse digit_char
  qr_encode qr_decode qr_tail qr_valid
  sr_encode sr_decode sr_valid
  consumed
  mon_plain_rt mon_plain_dec mon_proto_rt mon_proto_dec
  mon_b38_rt mon_b38_dec mon_manual_rt mon_manual_dec
  mon_qr_rt mon_qr_dec mon_sr_rt mon_sr_dec.
