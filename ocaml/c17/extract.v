(* Extraction of the C17 models and monitors.  ExtrOcamlBasic only. *)
From RsM Require Import Lib.MachInt Model.Headers Model.Codecs Model.CodecsSpec Model.CodecsCheckin Model.CodecsBdx Model.CodecsBle Model.CodecsMdns Model.CodecsCertExt.
Require Import ExtrOcamlBasic.
Extraction Language OCaml.
Extraction "model.ml"
  N.add N.mul N.div_eucl
  plain_new plain_encode plain_decode plain_wf
  plain_set_src plain_set_dst_unicast plain_set_dst_groupcast
  proto_new proto_encode proto_decode proto_wf
  b38_encode b38_decode
  manual_encode manual_encode_long manual_parse digit_char
  qr_encode qr_decode qr_tail qr_valid
  sr_encode sr_decode sr_valid
  consumed
  mon_plain_rt mon_plain_dec mon_proto_rt mon_proto_dec
  mon_b38_rt mon_b38_dec mon_manual_rt mon_manual_dec
  mon_qr_rt mon_qr_dec mon_sr_rt mon_sr_dec
  checkin_generate checkin_parse mon_checkin_rt mon_checkin_dec
  tc_of_byte tc_to_byte rc_of_byte rc_to_byte
  init_decode init_encode accept_decode accept_encode
  block_decode block_encode query_decode query_encode skip_decode skip_encode
  mon_init_rt mon_init_dec mon_accept_rt mon_accept_dec mon_block_rt mon_block_dec
  mon_query_dec mon_skip_dec
  adv_encode adv_payload adv_parse adv_parse_service
  radv_encode radv_payload radv_parse radv_parse_service
  mon_adv_rt mon_adv_dec mon_radv_rt
  txt_encode txt_decode txt_scan filter_matches session_params tcp_server comm_txt
  comm_adv_valid op_label comm_label op_label_match comm_label_match parse_hex_u64
  mon_comm_rt mon_txt_dec dec_print parse_uint
  ku_value eku_value bc_value mon_certext.
