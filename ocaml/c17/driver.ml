(* Line-oriented driver for the C17 models: reads cases, prints one canonical
   line per case (same format as the harness' impl.out).  With argv[1] = "spec"
   it reads "<case> @ <implementation output fields>" lines and prints the verdict
   of the extracted monitor (the executable property) on the implementation's output. *)
open Model
open Util

let hex_of_bytes (l : n list) : string =
  if l = [] then "-" else
  String.concat "" (List.map (fun b -> Printf.sprintf "%02x" (int_of_n b)) l)

let bytes_of_hex (s : string) : n list =
  if s = "-" || s = "" then [] else
  List.init (String.length s / 2) (fun i -> n_of_int (int_of_string ("0x" ^ String.sub s (2 * i) 2)))

let ns = string_of_n
let sn = n_of_string
let nat_of_int (i : int) : nat = let rec go k acc = if k <= 0 then acc else go (k - 1) (S acc) in go i O
let rec int_of_nat (x : nat) : int = match x with O -> 0 | S k -> 1 + int_of_nat k

let plain_str (h : plain_hdr) =
  String.concat "," [ns h.p_flags; ns h.p_sess; ns h.p_sec; ns h.p_ctr; ns h.p_src; ns h.p_dst]
let proto_str (h : proto_hdr) =
  String.concat "," [ns h.x_exch; ns h.x_flags; ns h.x_proto; ns h.x_opcode; ns h.x_vendor; ns h.x_ack]

let res_str (f : 'a -> string) (r : 'a res) : string =
  match r with
  | Ok v -> "ok:" ^ f v
  | Err e -> "err:" ^ ns e
  | Panic _ -> "panic"

let plain_dec_str input r =
  res_str (fun (h, k) -> plain_str h ^ ":" ^ string_of_int (int_of_nat k)) (consumed input r)
let proto_dec_str input r =
  res_str (fun (h, k) -> proto_str h ^ ":" ^ string_of_int (int_of_nat k)) (consumed input r)

let manual_str (p : manual_payload) =
  String.concat "," [(if p.m_long then "1" else "0"); ns p.m_short_disc; ns p.m_passcode; ns p.m_vid; ns p.m_pid]
let qr_str ((p, t) : qr_payload * n list) =
  String.concat "," [ns p.q_version; ns p.q_vid; ns p.q_pid; ns p.q_flow; ns p.q_caps; ns p.q_disc; ns p.q_pass]
  ^ ":" ^ hex_of_bytes t
let sr_str (r : status_report) =
  String.concat "," [ns r.sr_general; ns r.sr_proto_id; ns r.sr_proto_code] ^ ":" ^ hex_of_bytes r.sr_data

(* parsing of implementation outputs (spec mode) *)
let split2 c s = match String.index_opt s c with
  | Some i -> (String.sub s 0 i, String.sub s (i + 1) (String.length s - i - 1))
  | None -> (s, "")

let parse_res (f : string -> 'a) (s : string) : 'a res =
  if s = "panic" then Panic N0
  else let (k, v) = split2 ':' s in
    if k = "ok" then Ok (f v) else if k = "err" then Err (sn v) else failwith ("bad result: " ^ s)

let plain_of_fields l = match List.map sn l with
  | [a; b; c; d; e; f] -> { p_flags = a; p_sess = b; p_sec = c; p_ctr = d; p_src = e; p_dst = f }
  | _ -> failwith "plain fields"
let proto_of_fields l = match List.map sn l with
  | [a; b; c; d; e; f] -> { x_exch = a; x_flags = b; x_proto = c; x_opcode = d; x_vendor = e; x_ack = f }
  | _ -> failwith "proto fields"
let parse_plain_dec s = parse_res (fun v -> let (h, k) = split2 ':' v in
  (plain_of_fields (String.split_on_char ',' h), nat_of_int (int_of_string k))) s
let parse_proto_dec s = parse_res (fun v -> let (h, k) = split2 ':' v in
  (proto_of_fields (String.split_on_char ',' h), nat_of_int (int_of_string k))) s
let parse_manual s = parse_res (fun v -> match String.split_on_char ',' v with
  | [l; sd; p; vi; pi] -> { m_long = (l = "1"); m_short_disc = sn sd; m_passcode = sn p; m_vid = sn vi; m_pid = sn pi }
  | _ -> failwith "manual fields") s
let parse_qr s = parse_res (fun v -> let (h, t) = split2 ':' v in
  match List.map sn (String.split_on_char ',' h) with
  | [a; b; c; d; e; f; g] ->
      ({ q_version = a; q_vid = b; q_pid = c; q_flow = d; q_caps = e; q_disc = f; q_pass = g }, bytes_of_hex t)
  | _ -> failwith "qr fields") s
let parse_sr s = parse_res (fun v -> let (h, t) = split2 ':' v in
  match List.map sn (String.split_on_char ',' h) with
  | [a; b; c] -> { sr_general = a; sr_proto_id = b; sr_proto_code = c; sr_data = bytes_of_hex t }
  | _ -> failwith "sr fields") s

let digits_str (l : n list) = String.concat "" (List.map (fun d -> string_of_int (int_of_n d)) l)
let b01 b = if b then "1" else "0"
let opt_n s = if s = "-" then None else Some (sn s)

let sec_of grp ctl = n_of_int ((if grp = "1" then 1 else 0) + (if ctl = "1" then 64 else 0))

let hs_header sess ctr grp ctl src dk dst =
  let h0 = { p_flags = N0; p_sess = sn sess; p_sec = sec_of grp ctl; p_ctr = sn ctr; p_src = N0; p_dst = N0 } in
  let h1 = plain_set_src h0 (opt_n src) in
  match dk with
  | "u" -> plain_set_dst_unicast h1 (Some (sn dst))
  | "g" -> plain_set_dst_groupcast h1 (Some (sn dst))
  | _ -> plain_set_dst_unicast h1 None

let model_line (f : string list) : string option =
  match f with
  | ["HP"; id; fl; sess; sec; ctr; src; dst; sfx] ->
      let h = plain_of_fields [fl; sess; sec; ctr; src; dst] in
      let enc = plain_encode h in
      let input = enc @ bytes_of_hex sfx in
      Some (Printf.sprintf "HP %s %s %s" id (hex_of_bytes enc) (plain_dec_str input (plain_decode input)))
  | ["HX"; id; ex; fl; pr; op; ven; ack; sfx] ->
      let h = proto_of_fields [ex; fl; pr; op; ven; ack] in
      let enc = proto_encode h in
      let input = enc @ bytes_of_hex sfx in
      Some (Printf.sprintf "HX %s %s %s" id (hex_of_bytes enc) (proto_dec_str input (proto_decode input)))
  | ["HD"; id; hx] ->
      let input = bytes_of_hex hx in
      let r = plain_decode input in
      let second = match r with
        | Ok (_, rest) -> proto_dec_str rest (proto_decode rest)
        | _ -> "-" in
      Some (Printf.sprintf "HD %s %s %s" id (plain_dec_str input r) second)
  | ["HS"; id; sess; ctr; grp; ctl; src; dk; dst] ->
      let h = hs_header sess ctr grp ctl src dk dst in
      Some (Printf.sprintf "HS %s %s %s" id (plain_str h) (hex_of_bytes (plain_encode h)))
  | ["B"; id; hx] ->
      let bs = bytes_of_hex hx in
      let enc = b38_encode bs in
      Some (Printf.sprintf "B %s %s %s" id (hex_of_bytes enc) (res_str hex_of_bytes (b38_decode enc)))
  | ["BD"; id; hx] ->
      Some (Printf.sprintf "BD %s %s" id (res_str hex_of_bytes (b38_decode (bytes_of_hex hx))))
  | ["M"; id; pass; disc] ->
      (match manual_encode (sn pass) (sn disc) with
       | Ok code ->
           Some (Printf.sprintf "M %s %s %s" id (digits_str code)
                   (res_str manual_str (manual_parse (List.map digit_char code))))
       | _ -> Some (Printf.sprintf "M %s panic -" id))
  | ["MD"; id; hx] ->
      Some (Printf.sprintf "MD %s %s" id (res_str manual_str (manual_parse (bytes_of_hex hx))))
  | ["Q"; id; vid; pid; flow; caps; disc; pass; data] ->
      let p = { q_version = N0; q_vid = sn vid; q_pid = sn pid; q_flow = sn flow; q_caps = sn caps;
                q_disc = sn disc; q_pass = sn pass } in
      let enc = qr_encode p (qr_tail (bytes_of_hex data)) in
      Some (Printf.sprintf "Q %s %s %s" id (hex_of_bytes enc) (res_str qr_str (qr_decode enc)))
  | ["QD"; id; hx] ->
      Some (Printf.sprintf "QD %s %s" id (res_str qr_str (qr_decode (bytes_of_hex hx))))
  | ["S"; id; g; pid; pc; data] ->
      let r = { sr_general = sn g; sr_proto_id = sn pid; sr_proto_code = sn pc; sr_data = bytes_of_hex data } in
      let enc = sr_encode r in
      Some (Printf.sprintf "S %s %s %s" id (hex_of_bytes enc) (res_str sr_str (sr_decode enc)))
  | ["SD"; id; hx] ->
      Some (Printf.sprintf "SD %s %s" id (res_str sr_str (sr_decode (bytes_of_hex hx))))
  | _ -> None

(* monitor: case fields, then "@", then the implementation's output fields (after the id) *)
let spec_line (case : string list) (impl : string list) : string option =
  match case, impl with
  | ["HP"; id; fl; sess; sec; ctr; src; dst; sfx], [enc; dec] ->
      let h = plain_of_fields [fl; sess; sec; ctr; src; dst] in
      let e = bytes_of_hex enc in
      let d = parse_plain_dec dec in
      Some (Printf.sprintf "HP %s %s" id (b01 (mon_plain_rt h e d && mon_plain_dec (e @ bytes_of_hex sfx) d)))
  | ["HX"; id; ex; fl; pr; op; ven; ack; sfx], [enc; dec] ->
      let h = proto_of_fields [ex; fl; pr; op; ven; ack] in
      let e = bytes_of_hex enc in
      let d = parse_proto_dec dec in
      Some (Printf.sprintf "HX %s %s" id (b01 (mon_proto_rt h e d && mon_proto_dec (e @ bytes_of_hex sfx) d)))
  | ["HD"; id; hx], [pd; xd] ->
      let input = bytes_of_hex hx in
      let d = parse_plain_dec pd in
      let ok1 = mon_plain_dec input d in
      let ok2 = match d with
        | Ok (_, k) when xd <> "-" ->
            let k = int_of_nat k in
            let rest = List.filteri (fun i _ -> i >= k) input in
            mon_proto_dec rest (parse_proto_dec xd)
        | _ -> true in
      Some (Printf.sprintf "HD %s %s" id (b01 (ok1 && ok2)))
  | ["HS"; id; sess; ctr; grp; ctl; src; dk; dst], [raw; enc] ->
      (* what the setters build is well-formed, and its encoding decodes to it *)
      let h = plain_of_fields (String.split_on_char ',' raw) in
      let e = bytes_of_hex enc in
      let _ = (sess, ctr, grp, ctl, src, dk, dst) in
      let d = consumed e (plain_decode e) in
      Some (Printf.sprintf "HS %s %s" id (b01 (plain_wf h && mon_plain_rt h e d)))
  | ["B"; id; hx], [enc; dec] ->
      Some (Printf.sprintf "B %s %s" id
              (b01 (mon_b38_rt (bytes_of_hex hx) (bytes_of_hex enc) (parse_res bytes_of_hex dec)
                    && mon_b38_dec (bytes_of_hex enc) (parse_res bytes_of_hex dec))))
  | ["BD"; id; hx], [dec] ->
      Some (Printf.sprintf "BD %s %s" id (b01 (mon_b38_dec (bytes_of_hex hx) (parse_res bytes_of_hex dec))))
  | ["M"; id; pass; disc], [code; parsed] ->
      let c = if code = "panic" then Panic N0
        else Ok (List.init (String.length code) (fun i -> n_of_int (Char.code code.[i] - 48))) in
      let p = if parsed = "-" then Panic N0 else parse_manual parsed in
      let ok2 = match c with
        | Ok ds -> mon_manual_dec (List.map digit_char ds) p
        | _ -> true in
      Some (Printf.sprintf "M %s %s" id (b01 (mon_manual_rt (sn pass) (sn disc) c p && ok2)))
  | ["MD"; id; hx], [parsed] ->
      Some (Printf.sprintf "MD %s %s" id (b01 (mon_manual_dec (bytes_of_hex hx) (parse_manual parsed))))
  | ["Q"; id; vid; pid; flow; caps; disc; pass; data], [enc; dec] ->
      let p = { q_version = N0; q_vid = sn vid; q_pid = sn pid; q_flow = sn flow; q_caps = sn caps;
                q_disc = sn disc; q_pass = sn pass } in
      let d = parse_qr dec in
      Some (Printf.sprintf "Q %s %s" id
              (b01 (mon_qr_rt p (qr_tail (bytes_of_hex data)) (bytes_of_hex enc) d
                    && mon_qr_dec (bytes_of_hex enc) d)))
  | ["QD"; id; hx], [dec] ->
      Some (Printf.sprintf "QD %s %s" id (b01 (mon_qr_dec (bytes_of_hex hx) (parse_qr dec))))
  | ["S"; id; g; pid; pc; data], [enc; dec] ->
      let r = { sr_general = sn g; sr_proto_id = sn pid; sr_proto_code = sn pc; sr_data = bytes_of_hex data } in
      let d = parse_sr dec in
      Some (Printf.sprintf "S %s %s" id (b01 (mon_sr_rt r (bytes_of_hex enc) d && mon_sr_dec (bytes_of_hex enc) d)))
  | ["SD"; id; hx], [dec] ->
      Some (Printf.sprintf "SD %s %s" id (b01 (mon_sr_dec (bytes_of_hex hx) (parse_sr dec))))
  | _ -> None

let () =
  let spec_mode = Array.length Sys.argv > 1 && Sys.argv.(1) = "spec" in
  try
    while true do
      let line = input_line stdin in
      if line <> "" then begin
        let f = String.split_on_char ' ' line in
        if spec_mode then begin
          let rec cut acc = function
            | "@" :: rest -> (List.rev acc, rest)
            | x :: rest -> cut (x :: acc) rest
            | [] -> (List.rev acc, []) in
          let (case, impl) = cut [] f in
          match spec_line case impl with
          | Some s -> print_endline s
          | None -> ()
        end else
          match model_line f with
          | Some s -> print_endline s
          | None -> ()   (* T lines: formats without a model *)
      end
    done
  with End_of_file -> ()
