(* Line-oriented driver for the C17 models: reads cases, prints one canonical
   line per case (same format as the harness' impl.out).  With argv[1] = "spec"
   it reads "<case> @ <implementation output fields>" lines and prints the verdict
   of the extracted monitor (the executable property) on the implementation's output. *)
open Model
open Util

let hex_of_bytes (l : n list) : string =
  if l = [] then "-" else
  String.concat "" (List.map (fun b -> Printf.sprintf "%02x" (int_of_n b)) l)

let bytes_of_hex (s : string) : n list =
  if s = "-" || s = "" then [] else
  List.init (String.length s / 2) (fun i -> n_of_int (int_of_string ("0x" ^ String.sub s (2 * i) 2)))

let ns = string_of_n
let sn = n_of_string
let nat_of_int (i : int) : nat = let rec go k acc = if k <= 0 then acc else go (k - 1) (S acc) in go i O
let rec int_of_nat (x : nat) : int = match x with O -> 0 | S k -> 1 + int_of_nat k

let plain_str (h : plain_hdr) =
  String.concat "," [ns h.p_flags; ns h.p_sess; ns h.p_sec; ns h.p_ctr; ns h.p_src; ns h.p_dst]
let proto_str (h : proto_hdr) =
  String.concat "," [ns h.x_exch; ns h.x_flags; ns h.x_proto; ns h.x_opcode; ns h.x_vendor; ns h.x_ack]

let res_str (f : 'a -> string) (r : 'a res) : string =
  match r with
  | Ok v -> "ok:" ^ f v
  | Err e -> "err:" ^ ns e
  | Panic _ -> "panic"

let plain_dec_str input r =
  res_str (fun (h, k) -> plain_str h ^ ":" ^ string_of_int (int_of_nat k)) (consumed input r)
let proto_dec_str input r =
  res_str (fun (h, k) -> proto_str h ^ ":" ^ string_of_int (int_of_nat k)) (consumed input r)

let manual_str (p : manual_payload) =
  String.concat "," [(if p.m_long then "1" else "0"); ns p.m_short_disc; ns p.m_passcode; ns p.m_vid; ns p.m_pid]
let qr_str ((p, t) : qr_payload * n list) =
  String.concat "," [ns p.q_version; ns p.q_vid; ns p.q_pid; ns p.q_flow; ns p.q_caps; ns p.q_disc; ns p.q_pass]
  ^ ":" ^ hex_of_bytes t
let sr_str (r : status_report) =
  String.concat "," [ns r.sr_general; ns r.sr_proto_id; ns r.sr_proto_code] ^ ":" ^ hex_of_bytes r.sr_data

(* parsing of implementation outputs (spec mode) *)
let split2 c s = match String.index_opt s c with
  | Some i -> (String.sub s 0 i, String.sub s (i + 1) (String.length s - i - 1))
  | None -> (s, "")

let parse_res (f : string -> 'a) (s : string) : 'a res =
  if s = "panic" then Panic N0
  else let (k, v) = split2 ':' s in
    if k = "ok" then Ok (f v) else if k = "err" then Err (sn v) else failwith ("bad result: " ^ s)

let plain_of_fields l = match List.map sn l with
  | [a; b; c; d; e; f] -> { p_flags = a; p_sess = b; p_sec = c; p_ctr = d; p_src = e; p_dst = f }
  | _ -> failwith "plain fields"
let proto_of_fields l = match List.map sn l with
  | [a; b; c; d; e; f] -> { x_exch = a; x_flags = b; x_proto = c; x_opcode = d; x_vendor = e; x_ack = f }
  | _ -> failwith "proto fields"
let parse_plain_dec s = parse_res (fun v -> let (h, k) = split2 ':' v in
  (plain_of_fields (String.split_on_char ',' h), nat_of_int (int_of_string k))) s
let parse_proto_dec s = parse_res (fun v -> let (h, k) = split2 ':' v in
  (proto_of_fields (String.split_on_char ',' h), nat_of_int (int_of_string k))) s
let parse_manual s = parse_res (fun v -> match String.split_on_char ',' v with
  | [l; sd; p; vi; pi] -> { m_long = (l = "1"); m_short_disc = sn sd; m_passcode = sn p; m_vid = sn vi; m_pid = sn pi }
  | _ -> failwith "manual fields") s
let parse_qr s = parse_res (fun v -> let (h, t) = split2 ':' v in
  match List.map sn (String.split_on_char ',' h) with
  | [a; b; c; d; e; f; g] ->
      ({ q_version = a; q_vid = b; q_pid = c; q_flow = d; q_caps = e; q_disc = f; q_pass = g }, bytes_of_hex t)
  | _ -> failwith "qr fields") s
let parse_sr s = parse_res (fun v -> let (h, t) = split2 ':' v in
  match List.map sn (String.split_on_char ',' h) with
  | [a; b; c] -> { sr_general = a; sr_proto_id = b; sr_proto_code = c; sr_data = bytes_of_hex t }
  | _ -> failwith "sr fields") s


(* ---- check-in, BDX, BLE advertisement, mDNS TXT (deepening) ---- *)
let b01 b = if b then "1" else "0"
let opt_str (f : 'a -> string) (o : 'a option) : string =
  match o with Some v -> "some:" ^ f v | None -> "none"
let parse_opt (f : string -> 'a) (s : string) : 'a option =
  if s = "none" then None else let (_, v) = split2 ':' s in Some (f v)
let optn_str (o : n option) = match o with Some v -> ns v | None -> "-"
let optn_of s = if s = "-" then None else Some (sn s)

let tc_str t = ns (tc_to_byte t)
let init_str (m : bdx_init) =
  String.concat "," [tc_str m.i_tc; ns (rc_to_byte m.i_rc); ns m.i_mbs; ns m.i_start; ns m.i_len]
  ^ ":" ^ hex_of_bytes m.i_fd ^ ":" ^ hex_of_bytes m.i_meta
let accept_str (m : bdx_accept) =
  String.concat "," [b01 m.a_receive; tc_str m.a_tc; ns (rc_to_byte m.a_rc); ns m.a_mbs; ns m.a_len]
  ^ ":" ^ hex_of_bytes m.a_meta
let split3 s = match String.split_on_char ':' s with
  | [a; b; c] -> (a, b, c) | _ -> failwith ("3 fields: " ^ s)
let parse_init s = parse_res (fun v -> let (h, fd, meta) = split3 v in
  match List.map sn (String.split_on_char ',' h) with
  | [tc; rc; mbs; st; len] -> { i_tc = tc_of_byte tc; i_rc = rc_of_byte rc; i_mbs = mbs; i_start = st;
                                 i_len = len; i_fd = bytes_of_hex fd; i_meta = bytes_of_hex meta }
  | _ -> failwith "init fields") s
let parse_accept s = parse_res (fun v -> let (h, meta) = split2 ':' v in
  match String.split_on_char ',' h with
  | [r; tc; rc; mbs; len] -> { a_receive = (r = "1"); a_tc = tc_of_byte (sn tc); a_rc = rc_of_byte (sn rc);
                               a_mbs = sn mbs; a_len = sn len; a_meta = bytes_of_hex meta }
  | _ -> failwith "accept fields") s
let block_str (c, d) = ns c ^ ":" ^ hex_of_bytes d
let parse_block s = parse_res (fun v -> let (c, d) = split2 ':' v in (sn c, bytes_of_hex d)) s
let skip_str (c, k) = ns c ^ "," ^ ns k
let parse_skip s = parse_res (fun v -> let (c, k) = split2 ',' v in (sn c, sn k)) s

let adv_str (a : adv) = String.concat "," [ns a.a_vid; ns a.a_pid; ns a.a_disc; b01 a.a_additional]
let radv_str (r : radv) = hex_of_bytes r.r_id ^ "," ^ b01 r.r_additional
let parse_adv s = parse_opt (fun v -> match String.split_on_char ',' v with
  | [vid; pid; d; a] -> { a_vid = sn vid; a_pid = sn pid; a_disc = sn d; a_additional = (a = "1") }
  | _ -> failwith "adv fields") s
let parse_radv s = parse_opt (fun v -> let (i, a) = split2 ',' v in
  { r_id = bytes_of_hex i; r_additional = (a = "1") }) s

let pairs_str (l : (n list * n list) list) =
  if l = [] then "-" else String.concat ";" (List.map (fun (k, v) -> hex_of_bytes k ^ ":" ^ hex_of_bytes v) l)
let parse_pairs s = if s = "-" then [] else
  List.map (fun p -> let (k, v) = split2 ':' p in (bytes_of_hex k, bytes_of_hex v)) (String.split_on_char ';' s)
let comm_adv_of = function
  | [disc; enh; vid; pid; sai; sii; dn; pi; ph; dt; tcp; icd] ->
      { ca_disc = sn disc; ca_enhanced = (enh = "1"); ca_vid = sn vid; ca_pid = sn pid;
        ca_sai = optn_of sai; ca_sii = optn_of sii; ca_dn = bytes_of_hex dn; ca_pi = bytes_of_hex pi;
        ca_ph = sn ph; ca_dt = optn_of dt; ca_tcp = (tcp = "1");
        ca_icd = (if icd = "-" then None else Some (icd = "1")) }
  | _ -> failwith "comm_adv fields"
let own_filter (a : comm_adv) =
  { c_disc = Some a.ca_disc; c_short = Some (fst (N.div_eucl a.ca_disc (n_of_int 256)));
    c_vid = Some a.ca_vid; c_pid = Some a.ca_pid; c_dt = a.ca_dt; c_cm_only = true }
let filter_of s = match String.split_on_char ',' s with
  | [d; sh; v; p; dt; cm] -> { c_disc = optn_of d; c_short = optn_of sh; c_vid = optn_of v; c_pid = optn_of p;
                               c_dt = optn_of dt; c_cm_only = (cm = "1") }
  | _ -> failwith "filter fields"

(* oracles of the check-in model: constant answers computed by the generator with the
   real primitives (HMAC / AES-CCM called directly, not through sc/checkin.rs) *)
let ci_line id cap counter app nonce enc =
  let counter = sn counter and app = bytes_of_hex app in
  let nonce = bytes_of_hex nonce and enc = bytes_of_hex enc in
  let nonce_of c = if c = counter then nonce else [] in
  let aead_enc _ _ = enc in
  let plaintext = le_bytes (nat_of_int 4) counter @ app in
  let aead_dec n c = if n = nonce && c = enc then Some plaintext else None in
  let payload = checkin_generate nonce_of aead_enc (nat_of_int (int_of_string cap)) counter app in
  let parsed = match payload with
    | Ok p -> res_str (fun (c, a) -> ns c ^ ":" ^ hex_of_bytes a) (checkin_parse nonce_of aead_dec p)
    | _ -> "-" in
  Printf.sprintf "CI %s %s %s" id (res_str hex_of_bytes payload) parsed
let cp_oracles dec expn =
  let pt = if dec = "none" then None else Some (bytes_of_hex dec) in
  let nonce_of _ = bytes_of_hex expn in
  let aead_dec _ _ = pt in
  (nonce_of, aead_dec)

let digits_str (l : n list) = String.concat "" (List.map (fun d -> string_of_int (int_of_n d)) l)
let b01 b = if b then "1" else "0"
let opt_n s = if s = "-" then None else Some (sn s)

let sec_of grp ctl = n_of_int ((if grp = "1" then 1 else 0) + (if ctl = "1" then 64 else 0))

let hs_header sess ctr grp ctl src dk dst =
  let h0 = { p_flags = N0; p_sess = sn sess; p_sec = sec_of grp ctl; p_ctr = sn ctr; p_src = N0; p_dst = N0 } in
  let h1 = plain_set_src h0 (opt_n src) in
  match dk with
  | "u" -> plain_set_dst_unicast h1 (Some (sn dst))
  | "g" -> plain_set_dst_groupcast h1 (Some (sn dst))
  | _ -> plain_set_dst_unicast h1 None

let model_line (f : string list) : string option =
  match f with
  | ["HP"; id; fl; sess; sec; ctr; src; dst; sfx] ->
      let h = plain_of_fields [fl; sess; sec; ctr; src; dst] in
      let enc = plain_encode h in
      let input = enc @ bytes_of_hex sfx in
      Some (Printf.sprintf "HP %s %s %s" id (hex_of_bytes enc) (plain_dec_str input (plain_decode input)))
  | ["HX"; id; ex; fl; pr; op; ven; ack; sfx] ->
      let h = proto_of_fields [ex; fl; pr; op; ven; ack] in
      let enc = proto_encode h in
      let input = enc @ bytes_of_hex sfx in
      Some (Printf.sprintf "HX %s %s %s" id (hex_of_bytes enc) (proto_dec_str input (proto_decode input)))
  | ["HD"; id; hx] ->
      let input = bytes_of_hex hx in
      let r = plain_decode input in
      let second = match r with
        | Ok (_, rest) -> proto_dec_str rest (proto_decode rest)
        | _ -> "-" in
      Some (Printf.sprintf "HD %s %s %s" id (plain_dec_str input r) second)
  | ["HS"; id; sess; ctr; grp; ctl; src; dk; dst] ->
      let h = hs_header sess ctr grp ctl src dk dst in
      Some (Printf.sprintf "HS %s %s %s" id (plain_str h) (hex_of_bytes (plain_encode h)))
  | ["B"; id; hx] ->
      let bs = bytes_of_hex hx in
      let enc = b38_encode bs in
      Some (Printf.sprintf "B %s %s %s" id (hex_of_bytes enc) (res_str hex_of_bytes (b38_decode enc)))
  | ["BD"; id; hx] ->
      Some (Printf.sprintf "BD %s %s" id (res_str hex_of_bytes (b38_decode (bytes_of_hex hx))))
  | ["M"; id; pass; disc] ->
      (match manual_encode (sn pass) (sn disc) with
       | Ok code ->
           Some (Printf.sprintf "M %s %s %s" id (digits_str code)
                   (res_str manual_str (manual_parse (List.map digit_char code))))
       | _ -> Some (Printf.sprintf "M %s panic -" id))
  | ["MD"; id; hx] ->
      Some (Printf.sprintf "MD %s %s" id (res_str manual_str (manual_parse (bytes_of_hex hx))))
  | ["Q"; id; vid; pid; flow; caps; disc; pass; data] ->
      let p = { q_version = N0; q_vid = sn vid; q_pid = sn pid; q_flow = sn flow; q_caps = sn caps;
                q_disc = sn disc; q_pass = sn pass } in
      let enc = qr_encode p (qr_tail (bytes_of_hex data)) in
      Some (Printf.sprintf "Q %s %s %s" id (hex_of_bytes enc) (res_str qr_str (qr_decode enc)))
  | ["QD"; id; hx] ->
      Some (Printf.sprintf "QD %s %s" id (res_str qr_str (qr_decode (bytes_of_hex hx))))
  | ["S"; id; g; pid; pc; data] ->
      let r = { sr_general = sn g; sr_proto_id = sn pid; sr_proto_code = sn pc; sr_data = bytes_of_hex data } in
      let enc = sr_encode r in
      Some (Printf.sprintf "S %s %s %s" id (hex_of_bytes enc) (res_str sr_str (sr_decode enc)))
  | ["SD"; id; hx] ->
      Some (Printf.sprintf "SD %s %s" id (res_str sr_str (sr_decode (bytes_of_hex hx))))
  | ["CI"; id; _key; cap; counter; app; nonce; enc] -> Some (ci_line id cap counter app nonce enc)
  | ["CP"; id; _key; payload; dec; expn] ->
      let (nonce_of, aead_dec) = cp_oracles dec expn in
      Some (Printf.sprintf "CP %s %s" id
              (res_str (fun (c, a) -> ns c ^ ":" ^ hex_of_bytes a) (checkin_parse nonce_of aead_dec (bytes_of_hex payload))))
  | ["XI"; id; tc; rc; mbs; st; len; fd; meta] ->
      let m = { i_tc = tc_of_byte (sn tc); i_rc = rc_of_byte (sn rc); i_mbs = sn mbs; i_start = sn st;
                i_len = sn len; i_fd = bytes_of_hex fd; i_meta = bytes_of_hex meta } in
      let enc = init_encode m in
      Some (Printf.sprintf "XI %s %s %s" id (hex_of_bytes enc) (res_str init_str (init_decode enc)))
  | ["XID"; id; hx] -> Some (Printf.sprintf "XID %s %s" id (res_str init_str (init_decode (bytes_of_hex hx))))
  | ["XA"; id; r; tc; rc; mbs; len; meta] ->
      let m = { a_receive = (r = "1"); a_tc = tc_of_byte (sn tc); a_rc = rc_of_byte (sn rc); a_mbs = sn mbs;
                a_len = sn len; a_meta = bytes_of_hex meta } in
      let enc = accept_encode m in
      Some (Printf.sprintf "XA %s %s %s" id (hex_of_bytes enc) (res_str accept_str (accept_decode (r = "1") enc)))
  | ["XAD"; id; r; hx] ->
      Some (Printf.sprintf "XAD %s %s" id (res_str accept_str (accept_decode (r = "1") (bytes_of_hex hx))))
  | ["XB"; id; c; d] ->
      let enc = block_encode (sn c) (bytes_of_hex d) in
      Some (Printf.sprintf "XB %s %s %s" id (hex_of_bytes enc) (res_str block_str (block_decode enc)))
  | ["XBD"; id; hx] -> Some (Printf.sprintf "XBD %s %s" id (res_str block_str (block_decode (bytes_of_hex hx))))
  | ["XQ"; id; c; tr] ->
      let enc = query_encode (sn c) @ bytes_of_hex tr in
      Some (Printf.sprintf "XQ %s %s %s" id (hex_of_bytes enc) (res_str ns (query_decode enc)))
  | ["XQD"; id; hx] -> Some (Printf.sprintf "XQD %s %s" id (res_str ns (query_decode (bytes_of_hex hx))))
  | ["XS"; id; c; k; tr] ->
      let enc = skip_encode (sn c) (sn k) @ bytes_of_hex tr in
      Some (Printf.sprintf "XS %s %s %s" id (hex_of_bytes enc) (res_str skip_str (skip_decode enc)))
  | ["XSD"; id; hx] -> Some (Printf.sprintf "XSD %s %s" id (res_str skip_str (skip_decode (bytes_of_hex hx))))
  | ["A"; id; vid; pid; disc] ->
      let a = { a_vid = sn vid; a_pid = sn pid; a_disc = sn disc; a_additional = false } in
      let enc = adv_encode a in
      Some (Printf.sprintf "A %s %s %s %s" id (hex_of_bytes enc) (opt_str adv_str (adv_parse enc))
              (opt_str adv_str (adv_parse_service (adv_payload a))))
  | ["AR"; id; rid] ->
      let r = { r_id = bytes_of_hex rid; r_additional = false } in
      let enc = radv_encode r in
      Some (Printf.sprintf "AR %s %s %s %s" id (hex_of_bytes enc) (opt_str radv_str (radv_parse enc))
              (opt_str radv_str (radv_parse_service (radv_payload r))))
  | ["AD"; id; hx] ->
      let b = bytes_of_hex hx in
      Some (Printf.sprintf "AD %s %s %s %s %s" id (opt_str adv_str (adv_parse b)) (opt_str adv_str (adv_parse_service b))
              (opt_str radv_str (radv_parse b)) (opt_str radv_str (radv_parse_service b)))
  | ["CE"; id; ku; ids; ca; path] ->
      let l = if ids = "-" then [] else List.map sn (String.split_on_char '.' ids) in
      Some (Printf.sprintf "CE %s %s %s %s" id (hex_of_bytes (ku_value (sn ku))) (hex_of_bytes (eku_value l))
              (hex_of_bytes (bc_value (ca = "1") (optn_of path))))
  | "MC" :: id :: fields ->
      let a = comm_adv_of fields in
      let published = comm_txt a in
      let parsed = txt_decode (txt_encode published) in
      Some (Printf.sprintf "MC %s %s %s %s" id (pairs_str published) (pairs_str parsed)
              (b01 (filter_matches (own_filter a) (txt_scan parsed))))
  | ["MF"; id; filt; pairs] ->
      let ps = parse_pairs pairs in
      let ((sii, sai), sat) = session_params ps in
      Some (Printf.sprintf "MF %s %s %s,%s,%s %s" id (b01 (filter_matches (filter_of filt) (txt_scan ps)))
              (optn_str sii) (optn_str sai) (optn_str sat) (b01 (tcp_server ps)))
  | ["MTD"; id; hx] -> Some (Printf.sprintf "MTD %s %s" id (pairs_str (txt_decode (bytes_of_hex hx))))
  | ["MN"; id; kind; a; b] ->
      let label = if kind = "o" then op_label (sn a) (sn b) else comm_label (sn a) in
      let m = if kind = "o" then op_label_match (sn a) (sn b) label else comm_label_match (sn a) label in
      Some (Printf.sprintf "MN %s %s %s" id (hex_of_bytes label) (b01 m))
  | ["MI"; id; kind; a; b; label] ->
      let l = bytes_of_hex label in
      let m = if kind = "o" then op_label_match (sn a) (sn b) l else comm_label_match (sn a) l in
      Some (Printf.sprintf "MI %s %s" id (b01 m))
  | _ -> None


(* monitor: case fields, then "@", then the implementation's output fields (after the id) *)
let spec_line (case : string list) (impl : string list) : string option =
  match case, impl with
  | ["HP"; id; fl; sess; sec; ctr; src; dst; sfx], [enc; dec] ->
      let h = plain_of_fields [fl; sess; sec; ctr; src; dst] in
      let e = bytes_of_hex enc in
      let d = parse_plain_dec dec in
      Some (Printf.sprintf "HP %s %s" id (b01 (mon_plain_rt h e d && mon_plain_dec (e @ bytes_of_hex sfx) d)))
  | ["HX"; id; ex; fl; pr; op; ven; ack; sfx], [enc; dec] ->
      let h = proto_of_fields [ex; fl; pr; op; ven; ack] in
      let e = bytes_of_hex enc in
      let d = parse_proto_dec dec in
      Some (Printf.sprintf "HX %s %s" id (b01 (mon_proto_rt h e d && mon_proto_dec (e @ bytes_of_hex sfx) d)))
  | ["HD"; id; hx], [pd; xd] ->
      let input = bytes_of_hex hx in
      let d = parse_plain_dec pd in
      let ok1 = mon_plain_dec input d in
      let ok2 = match d with
        | Ok (_, k) when xd <> "-" ->
            let k = int_of_nat k in
            let rest = List.filteri (fun i _ -> i >= k) input in
            mon_proto_dec rest (parse_proto_dec xd)
        | _ -> true in
      Some (Printf.sprintf "HD %s %s" id (b01 (ok1 && ok2)))
  | ["HS"; id; sess; ctr; grp; ctl; src; dk; dst], [raw; enc] ->
      (* what the setters build is well-formed, and its encoding decodes to it *)
      let h = plain_of_fields (String.split_on_char ',' raw) in
      let e = bytes_of_hex enc in
      let _ = (sess, ctr, grp, ctl, src, dk, dst) in
      let d = consumed e (plain_decode e) in
      Some (Printf.sprintf "HS %s %s" id (b01 (plain_wf h && mon_plain_rt h e d)))
  | ["B"; id; hx], [enc; dec] ->
      Some (Printf.sprintf "B %s %s" id
              (b01 (mon_b38_rt (bytes_of_hex hx) (bytes_of_hex enc) (parse_res bytes_of_hex dec)
                    && mon_b38_dec (bytes_of_hex enc) (parse_res bytes_of_hex dec))))
  | ["BD"; id; hx], [dec] ->
      Some (Printf.sprintf "BD %s %s" id (b01 (mon_b38_dec (bytes_of_hex hx) (parse_res bytes_of_hex dec))))
  | ["M"; id; pass; disc], [code; parsed] ->
      let c = if code = "panic" then Panic N0
        else Ok (List.init (String.length code) (fun i -> n_of_int (Char.code code.[i] - 48))) in
      let p = if parsed = "-" then Panic N0 else parse_manual parsed in
      let ok2 = match c with
        | Ok ds -> mon_manual_dec (List.map digit_char ds) p
        | _ -> true in
      Some (Printf.sprintf "M %s %s" id (b01 (mon_manual_rt (sn pass) (sn disc) c p && ok2)))
  | ["MD"; id; hx], [parsed] ->
      Some (Printf.sprintf "MD %s %s" id (b01 (mon_manual_dec (bytes_of_hex hx) (parse_manual parsed))))
  | ["Q"; id; vid; pid; flow; caps; disc; pass; data], [enc; dec] ->
      let p = { q_version = N0; q_vid = sn vid; q_pid = sn pid; q_flow = sn flow; q_caps = sn caps;
                q_disc = sn disc; q_pass = sn pass } in
      let d = parse_qr dec in
      Some (Printf.sprintf "Q %s %s" id
              (b01 (mon_qr_rt p (qr_tail (bytes_of_hex data)) (bytes_of_hex enc) d
                    && mon_qr_dec (bytes_of_hex enc) d)))
  | ["QD"; id; hx], [dec] ->
      Some (Printf.sprintf "QD %s %s" id (b01 (mon_qr_dec (bytes_of_hex hx) (parse_qr dec))))
  | ["S"; id; g; pid; pc; data], [enc; dec] ->
      let r = { sr_general = sn g; sr_proto_id = sn pid; sr_proto_code = sn pc; sr_data = bytes_of_hex data } in
      let d = parse_sr dec in
      Some (Printf.sprintf "S %s %s" id (b01 (mon_sr_rt r (bytes_of_hex enc) d && mon_sr_dec (bytes_of_hex enc) d)))
  | ["SD"; id; hx], [dec] ->
      Some (Printf.sprintf "SD %s %s" id (b01 (mon_sr_dec (bytes_of_hex hx) (parse_sr dec))))
  | ["CI"; id; _key; cap; counter; app; _nonce; _enc], [payload; parsed] ->
      let p = parse_res bytes_of_hex payload in
      let d = if parsed = "-" then Panic N0
        else parse_res (fun v -> let (c, a) = split2 ':' v in (sn c, bytes_of_hex a)) parsed in
      Some (Printf.sprintf "CI %s %s" id (b01 (mon_checkin_rt (nat_of_int (int_of_string cap)) (sn counter) (bytes_of_hex app) p d)))
  | ["CP"; id; _key; payload; _dec; expn], [parsed] ->
      let d = parse_res (fun v -> let (c, a) = split2 ':' v in (sn c, bytes_of_hex a)) parsed in
      Some (Printf.sprintf "CP %s %s" id (b01 (mon_checkin_dec (fun _ -> bytes_of_hex expn) (bytes_of_hex payload) d)))
  | ["XI"; id; tc; rc; mbs; st; len; fd; meta], [enc; dec] ->
      let m = { i_tc = tc_of_byte (sn tc); i_rc = rc_of_byte (sn rc); i_mbs = sn mbs; i_start = sn st;
                i_len = sn len; i_fd = bytes_of_hex fd; i_meta = bytes_of_hex meta } in
      let d = parse_init dec in
      Some (Printf.sprintf "XI %s %s" id (b01 (mon_init_rt m d && mon_init_dec (bytes_of_hex enc) d)))
  | ["XID"; id; hx], [dec] -> Some (Printf.sprintf "XID %s %s" id (b01 (mon_init_dec (bytes_of_hex hx) (parse_init dec))))
  | ["XA"; id; r; tc; rc; mbs; len; meta], [enc; dec] ->
      let m = { a_receive = (r = "1"); a_tc = tc_of_byte (sn tc); a_rc = rc_of_byte (sn rc); a_mbs = sn mbs;
                a_len = sn len; a_meta = bytes_of_hex meta } in
      let d = parse_accept dec in
      Some (Printf.sprintf "XA %s %s" id (b01 (mon_accept_rt m d && mon_accept_dec (r = "1") (bytes_of_hex enc) d)))
  | ["XAD"; id; r; hx], [dec] ->
      Some (Printf.sprintf "XAD %s %s" id (b01 (mon_accept_dec (r = "1") (bytes_of_hex hx) (parse_accept dec))))
  | ["XB"; id; c; d], [enc; dec] ->
      let r = parse_block dec in
      Some (Printf.sprintf "XB %s %s" id (b01 (mon_block_rt (sn c) (bytes_of_hex d) r && mon_block_dec (bytes_of_hex enc) r)))
  | ["XBD"; id; hx], [dec] -> Some (Printf.sprintf "XBD %s %s" id (b01 (mon_block_dec (bytes_of_hex hx) (parse_block dec))))
  | ["XQ"; id; c; _tr], [enc; dec] ->
      let r = parse_res sn dec in
      let ok = (match r with Ok v -> v = sn c | _ -> false) in
      Some (Printf.sprintf "XQ %s %s" id (b01 (ok && mon_query_dec (bytes_of_hex enc) r)))
  | ["XQD"; id; hx], [dec] -> Some (Printf.sprintf "XQD %s %s" id (b01 (mon_query_dec (bytes_of_hex hx) (parse_res sn dec))))
  | ["XS"; id; c; k; _tr], [enc; dec] ->
      let r = parse_skip dec in
      let ok = (match r with Ok (a, b) -> a = sn c && b = sn k | _ -> false) in
      Some (Printf.sprintf "XS %s %s" id (b01 (ok && mon_skip_dec (bytes_of_hex enc) r)))
  | ["XSD"; id; hx], [dec] -> Some (Printf.sprintf "XSD %s %s" id (b01 (mon_skip_dec (bytes_of_hex hx) (parse_skip dec))))
  | ["A"; id; vid; pid; disc], [_enc; pa; ps] ->
      let a = { a_vid = sn vid; a_pid = sn pid; a_disc = sn disc; a_additional = false } in
      Some (Printf.sprintf "A %s %s" id (b01 (mon_adv_rt a (parse_adv pa) (parse_adv ps))))
  | ["AR"; id; rid], [_enc; pa; ps] ->
      let r = { r_id = bytes_of_hex rid; r_additional = false } in
      Some (Printf.sprintf "AR %s %s" id (b01 (mon_radv_rt r (parse_radv pa) (parse_radv ps))))
  | ["AD"; id; _hx], [pa; ps; ra; rs] ->
      Some (Printf.sprintf "AD %s %s" id (b01 (mon_adv_dec (parse_adv pa) (parse_radv ra) && mon_adv_dec (parse_adv ps) (parse_radv rs))))
  | ["CE"; id; ku; ids; ca; path], [kv; ev; bv] ->
      let l = if ids = "-" then [] else List.map sn (String.split_on_char '.' ids) in
      let hb s = try bytes_of_hex s with _ -> [] in
      Some (Printf.sprintf "CE %s %s" id (b01 (mon_certext (sn ku) l (ca = "1") (optn_of path) (hb kv) (hb ev) (hb bv))))
  | "MC" :: id :: fields, [_published; parsed; m] ->
      let a = comm_adv_of fields in
      Some (Printf.sprintf "MC %s %s" id (b01 (mon_comm_rt a (parse_pairs parsed) && (not (comm_adv_valid a) || m = "1"))))
  | ["MTD"; id; hx], [pairs] -> Some (Printf.sprintf "MTD %s %s" id (b01 (mon_txt_dec (bytes_of_hex hx) (parse_pairs pairs))))
  | ["MN"; id; _; _; _], [_label; m] -> Some (Printf.sprintf "MN %s %s" id (b01 (m = "1")))
  | ("MF" | "MI") :: id :: _, _ -> Some (Printf.sprintf "%s %s 1" (List.hd case) id)
  | _ -> None


let () =
  let spec_mode = Array.length Sys.argv > 1 && Sys.argv.(1) = "spec" in
  try
    while true do
      let line = input_line stdin in
      if line <> "" then begin
        let f = String.split_on_char ' ' line in
        if spec_mode then begin
          let rec cut acc = function
            | "@" :: rest -> (List.rev acc, rest)
            | x :: rest -> cut (x :: acc) rest
            | [] -> (List.rev acc, []) in
          let (case, impl) = cut [] f in
          match spec_line case impl with
          | Some s -> print_endline s
          | None -> ()
        end else
          match model_line f with
          | Some s -> print_endline s
          | None -> ()   (* T lines: formats without a model *)
      end
    done
  with End_of_file -> ()
