(* Extraction of the C20 model.  ExtrOcamlBasic only. *)
From RsM Require Import Lib.MachInt Model.Slots Model.SlotsSpec.
Require Import ExtrOcamlBasic.
Extraction Language OCaml.
Extraction "model.ml"
  N.add N.mul N.div_eucl N.ltb
  st_init step run node_init nstep nrun sweeps rsys_init rstep rrun
  evict_choice idle
  mon_evict mon_handles mon_quiescent_clean mon_rdv_end mon_probe mon_swept mon_rx_free
  n_reserved n_live n_dropped n_present_handles marker_obs clean_tbl.
