(* Line-oriented driver for the C20 model (Model/Slots.v, Model/SlotsSpec.v).
   D / V / W lines run the extracted [step] / [rstep] op by op and print the
   same canonical line as harness/src/bin/c20.rs.  E lines translate the
   scenario into node operations (one handshake attempt after the other, the
   error path where the harness makes the initiator fall silent), run the
   extracted [nstep], the sweeper, and a probe handshake.
   argv[1] = "spec": monitor mode, evaluates the extracted clauses on the
   implementation's own output lines. *)
open Model
open Util

let far = n_of_string "1125899906842624" (* 1 lsl 50, as in the harness *)
let far_half = n_of_string "562949953421312"

let rec nat_of (i : int) : nat = if i <= 0 then O else S (nat_of (i - 1))
let rec int_of_nat (x : nat) : int = match x with O -> 0 | S y -> 1 + int_of_nat y

let num s = if s = "F" then far else n_of_string s

let mode_of = function "P" -> MPase | "C" | "D" -> MCase | "G" -> MGroup | _ -> MPlain
let mode_char = function MPlain -> 'N' | MPase -> 'P' | MCase -> 'C' | MGroup -> 'G'
let b01 b = if b then '1' else '0'

(* ghost data the model does not carry: the fabric letter of a CASE session (C = fabric 1,
   D = fabric 2) and whether a slot went through ReservedSession::update (local session id set) *)
let letter : (int, char) Hashtbl.t = Hashtbl.create 16
let updated : (int, unit) Hashtbl.t = Hashtbl.create 16

let table_str (t : tbl) =
  let buf = Buffer.create 128 in
  let mode_char s = match s.s_mode with
    | MCase -> (try Hashtbl.find letter (int_of_n s.s_id) with Not_found -> 'C')
    | m -> mode_char m in
  List.iter (fun s ->
    let last = if N.ltb s.s_last far_half then string_of_n s.s_last else "F" in
    Buffer.add_string buf (Printf.sprintf "%s%c%c%c@%s[" (string_of_n s.s_id) (mode_char s)
      (b01 s.s_reserved) (b01 s.s_expired) last);
    List.iteri (fun i e ->
      match e with
      | None -> ()
      | Some x ->
          let c = match x with XOwned -> 'o' | XPending -> 'p' | XDropAck -> 'A' | XDropRetr -> 'R' in
          Buffer.add_string buf (Printf.sprintf "%d%c" i c)) s.s_exch;
    Buffer.add_string buf "];") t.t_sess;
  Buffer.contents buf

let mx = nat_of 5

(* ---- D ---- *)
let run_d cap ops =
  let capn = nat_of cap in
  let st = ref st_init in
  let buf = Buffer.create 1024 in
  let ev = Buffer.create 16 in
  Hashtbl.reset letter; Hashtbl.reset updated;
  let note id m = if m = "C" || m = "D" then Hashtbl.replace letter (int_of_n id) m.[0] in
  List.iter (fun o ->
    let p = Array.of_list (String.split_on_char ':' o) in
    let apply op = let (s', r) = step capn mx !st op in st := s'; r in
    let res =
      match p.(0) with
      | "a" -> (match apply (OAdd (num p.(1))) with RId id -> "id" ^ string_of_n id | _ -> "nospace")
      | "r" -> (match apply (OReserveNow (num p.(1))) with RId id -> "id" ^ string_of_n id | _ -> "nospace")
      | "R" -> (match apply (OReserve (num p.(1))) with RId id -> "id" ^ string_of_n id | _ -> "nospace")
      | "u" -> (match apply (OUpdate (num p.(1), mode_of p.(2), num p.(3))) with
                | ROk -> note (num p.(1)) p.(2); Hashtbl.replace updated (int_of_n (num p.(1))) (); "ok"
                | RErr _ -> "nosess" | _ -> "none")
      | "c" -> ignore (apply (OComplete (num p.(1)))); "ok"
      | "d" -> ignore (apply (ODropH (num p.(1), num p.(2)))); "-"
      | "x" -> (match apply (ORemove (num p.(1))) with ROk -> "ok" | _ -> "none")
      | "e" ->
          let now = num p.(1) in
          (match evict_choice now !st.tb with
           | Some i ->
               let v = List.nth !st.tb.t_sess (int_of_nat i) in
               let nslots = List.length (List.filter (fun e -> e <> None) v.s_exch) in
               Buffer.add_string ev (Printf.sprintf "%c%d%c," (b01 v.s_reserved) nslots (b01 v.s_expired))
           | None -> ());
          (match apply (OEvict now) with RId id -> "id" ^ string_of_n id | _ -> "none")
      | "t" -> (match apply (OTouch (num p.(1), num p.(2))) with ROk -> "ok" | _ -> "none")
      | "E" -> ignore (apply (OSetExpired (num p.(1)))); "ok"
      | "L" -> ignore (apply (OSetLast (num p.(1), num p.(2)))); "ok"
      | "M" -> (match apply (OSetMode (num p.(1), mode_of p.(2))) with ROk -> note (num p.(1)) p.(2); "ok" | _ -> "none")
      | "f" ->
          (* the sessions of fabric 1 (C, G) or 2 (D), as the harness created them *)
          let fab = int_of_string p.(1) in
          let ids = List.filter_map (fun s ->
            let l = (match s.s_mode with
              | MCase -> (try Hashtbl.find letter (int_of_n s.s_id) with Not_found -> 'C')
              | MGroup -> 'G' | _ -> '-') in
            if (fab = 1 && (l = 'C' || l = 'G')) || (fab = 2 && l = 'D') then Some s.s_id else None) !st.tb.t_sess in
          ignore (apply (ORemoveSet (ids, (if p.(2) = "-" then None else Some (num p.(2)))))); "ok"
      | "xr" ->
          (* the session the receive path matches: the first unsecured, not reserved one that still
             has local session id 0 *)
          (match List.find_opt (fun s -> s.s_mode = MPlain && not s.s_reserved
                                         && not (Hashtbl.mem updated (int_of_n s.s_id))) !st.tb.t_sess with
           | None -> "none"
           | Some s ->
               (match apply (ORxExch (s.s_id, num p.(1))) with
                | RIdx i -> "ix" ^ string_of_int (int_of_nat i)
                | RId id -> "closed" ^ string_of_n id
                | _ -> "none"))
      | "p" -> ignore (apply (ORemovePase (if p.(1) = "-" then None else Some (num p.(1))))); "ok"
      | "xa" ->
          (match apply (OExAdd (num p.(1), p.(2) = "1", num p.(3))) with
           | RIdx i -> "ix" ^ string_of_int (int_of_nat i)
           | RErr c -> if int_of_n c = 3 then "noexch" else "nosess"
           | _ -> "nosess")
      | "xd" ->
          (match apply (OExDrop (num p.(1), nat_of (int_of_string p.(2)), p.(3).[0] = '1', p.(3).[1] = '1', num p.(4))) with
           | ROk -> "ok" | _ -> "none")
      | "xk" -> (match apply (OExAcked (num p.(1), nat_of (int_of_string p.(2)), num p.(3))) with ROk -> "ok" | _ -> "none")
      | "s" ->
          (match apply (OSweep (num p.(1))) with
           | RId id -> "id" ^ string_of_n id
           | RIdx i -> "ix" ^ string_of_int (int_of_nat i)
           | _ -> "none")
      | _ -> "?" in
    Buffer.add_string buf (Printf.sprintf "%s>%s#%s=%s " res (table_str !st.tb)
      (string_of_n (n_reserved !st.tb)) (string_of_n (n_present_handles !st))))
    (split_on ',' ops);
  (* quiescence: the sweeper runs until it finds nothing to do *)
  (try
    for _ = 1 to cap * 8 + 8 do
      let (s', r) = step capn mx !st (OSweep far) in
      st := s';
      if r = RNone then raise Exit
    done
  with Exit -> ());
  let fin = Buffer.create 64 in
  List.iter (fun s ->
    let mc = (match s.s_mode with
      | MCase -> (try Hashtbl.find letter (int_of_n s.s_id) with Not_found -> 'C')
      | m -> mode_char m) in
    Buffer.add_string fin (Printf.sprintf "%s%c[" (string_of_n s.s_id) mc);
    List.iteri (fun i e ->
      match e with
      | None -> ()
      | Some x ->
          let c = match x with XOwned -> 'o' | XPending -> 'p' | XDropAck -> 'A' | XDropRetr -> 'R' in
          Buffer.add_string fin (Printf.sprintf "%d%c" i c)) s.s_exch;
    Buffer.add_string fin "];") !st.tb.t_sess;
  let body = String.trim (Buffer.contents buf) ^ " swept>" ^ Buffer.contents fin in
  Printf.sprintf "%s | ev=%s dl=%s" (String.trim body) (if Buffer.length ev = 0 then "-" else Buffer.contents ev)
    (string_of_n (n_dropped !st.tb))

(* ---- V / W ---- *)
let slot_no = function RvIdle -> 0 | RvRequested _ -> 1 | RvInFlight _ -> 2 | RvResolved _ -> 3

let run_v ops =
  let s = ref rsys_init in
  let buf = Buffer.create 256 in
  let find id = List.find_opt (fun r -> int_of_n r.rq_id = id) !s.r_reqs in
  List.iter (fun o ->
    let k = o.[0] and arg = String.sub o 1 (String.length o - 1) in
    let apply op = let (s', r) = rstep !s op in s := s'; r in
    let res =
      match k with
      | 's' -> ignore (apply (RStart (n_of_string arg))); "-"
      | 'p' -> (match apply (RPoll (n_of_int (int_of_string arg))) with ROk -> "ok" | _ -> "-")
      | 't' ->
          (* the harness sleeps past the requester's timer, then polls it: a requester that has
             not placed its request yet has no timer (the poll places it); one whose answer is
             already deposited takes it (select polls the wait first); otherwise the timer wins *)
          let id = int_of_string arg in
          (match find id with
           | None -> "-"
           | Some r ->
               let resolved = (match !s.r_slot with RvResolved _ -> true | _ -> false) in
               if r.rq_phase = PWait || resolved
               then (match apply (RPoll (n_of_int id)) with ROk -> "ok" | _ -> "-")
               else (match apply (RTimeout (n_of_int id)) with RErr _ -> "nf" | _ -> "-"))
      | 'c' -> ignore (apply (RCancel (n_of_int (int_of_string arg)))); "-"
      | 'k' -> (match apply RPick with RId v -> "pick" ^ string_of_n v | _ -> "-")
      | 'd' ->
          (match String.split_on_char ':' arg with
           | [svc; has] -> ignore (apply (RDeposit (n_of_string svc, has = "1"))); "-"
           | _ -> "?")
      | _ -> "?" in
    Buffer.add_string buf (Printf.sprintf "%s>%d " res (slot_no !s.r_slot)))
    (split_on ',' ops);
  List.iter (fun r -> s := fst (rstep !s (RCancel r.rq_id))) !s.r_reqs;
  Printf.sprintf "%s | end=%d" (String.trim (Buffer.contents buf)) (slot_no !s.r_slot)

(* ---- E ---- *)
let field fields k =
  let r = ref "" in
  List.iter (fun kv ->
    match String.index_opt kv '=' with
    | Some i when String.sub kv 0 i = k -> r := String.sub kv (i + 1) (String.length kv - i - 1)
    | _ -> ()) fields;
  !r

let run_e cap fields =
  let capn = nat_of cap in
  let kind = if field fields "k" = "P" then HPase else HCase in
  let beh = List.filter (fun x -> x <> "") (String.split_on_char '.' (field fields "beh")) in
  let geti k = (try int_of_string (field fields k) with _ -> 0) in
  let junk = geti "j" and cx = geti "cx" and age = geti "age" in
  let unrel = geti "u" and ut = geti "ut" and noresp = geti "noresp" in
  let (busy, idle_n) = (match String.split_on_char '.' (field fields "fill") with
    | [a; b] -> (int_of_string a, int_of_string b) | _ -> (0, 0)) in
  let nd = ref node_init in
  let clock = ref 10 in
  let tick () = clock := !clock + 10; n_of_int !clock in
  let apply op = let (n', r) = nstep capn mx !nd op in nd := n'; r in
  (* sessions that exist before the disturbance (established, [busy] of them carry an exchange) *)
  let core_op o = let (c', r) = step capn mx !nd.core o in
    nd := { core = c'; marker = !nd.marker; atts = !nd.atts; n_next = !nd.n_next }; r in
  for i = 0 to busy + idle_n - 1 do
    (match core_op (OAdd (tick ())) with
     | RId id ->
         ignore (core_op (OSetMode (id, MCase)));
         if i < busy then ignore (core_op (OExAdd (id, false, tick ())))
     | _ -> ())
  done;
  (* a first handshake message: up to [tries] attempts while the device answers Busy *)
  let rec rx tries = if tries = 0 then None else
    match apply (NRx (kind, tick ())) with
    | RId a -> Some a
    | _ -> rx (tries - 1) in
  let msgs_full = (match kind with HPase -> 2 | HCase -> 1) in
  (* an attempt that is good up to and including handshake message k (k = 1 is the first message),
     after which the initiator is silent; [full] = it also acknowledges the final status;
     [cancel] = the handler future is dropped after its first answer *)
  let attempt ?(cancel=false) tries upto full =
    match rx tries with
    | None -> false
    | Some a when noresp = 1 && not full ->
        (* no handler takes the exchange: accept time-out *)
        ignore (apply (NAcceptTimeout (a, tick ()))); false
    | Some a ->
        (match apply (NAccept (a, VGood, tick ())) with
         | ROk ->
             if cancel then begin ignore (apply (NCancel (a, false, tick ()))); false end else begin
             let ok = ref true in
             for _ = 2 to (min upto (msgs_full + 1)) do
               if !ok then (match apply (NMsg (a, VGood, tick ())) with ROk -> () | _ -> ok := false)
             done;
             if full && !ok then (match apply (NAck (a, tick ())) with ROk -> true | _ -> false)
             else begin
               (* the device's last message is never acknowledged (or a refusal was sent): the handler errs *)
               ignore (apply (NFail (a, false, tick ())));
               false
             end end
         | RErr c when int_of_n c = 4 || int_of_n c = 5 ->
             (* Busy / SessionNotFound status: a complete initiator acknowledges it, a silent one does not *)
             if full then ignore (apply (NAck (a, tick ()))) else ignore (apply (NFail (a, false, tick ())));
             false
         | RErr _ ->
             ignore (apply (NFail (a, false, tick ())));
             false
         | _ -> false) in
  (* a complete initiator retries (six tries in all) *)
  let full_with_retries first_cancelled =
    let ok = ref false and t = ref 0 in
    while not !ok && !t < 6 do
      ok := attempt ~cancel:(first_cancelled && !t = 0) 6 (msgs_full + 1) true;
      incr t
    done;
    !ok in
  List.iter (fun b ->
    if b = "f" then ignore (full_with_retries (cx > 0))
    else ignore (attempt 1 (int_of_string (String.sub b 1 (String.length b - 1))) false)) beh;
  for j = 0 to junk - 1 do
    if beh <> [] then begin
      match rx 1 with
      | None -> ()
      | Some a ->
          if j mod 3 = 2 then begin
            (match apply (NAccept (a, VGood, tick ())) with _ -> ());
            ignore (apply (NFail (a, false, tick ())))
          end else
            (match apply (NAccept (a, VBad, tick ())) with _ -> ())
    end
  done;
  (* first messages that ask for no acknowledgement *)
  for _ = 1 to unrel do
    if beh <> [] then begin
      match rx 1 with
      | None -> ()
      | Some a ->
          if ut = 1 then ignore (apply (NAcceptTimeout (a, tick ())))
          else begin
            (* a handler takes it; its answer goes to nobody and is never acknowledged *)
            (match apply (NAccept (a, VGood, tick ())) with _ -> ());
            ignore (apply (NFail (a, false, tick ())))
          end
    end
  done;
  nd := sweeps capn mx (nat_of 64) (tick ()) !nd;
  if age = 1 then clock := !clock + 61000;
  let now = tick () in
  let t = !nd.core.tb in
  let res = n_reserved t and xl = int_of_n (n_live t) - busy and xd = n_dropped t in
  let marker = int_of_n (marker_obs now !nd.marker) in
  let est = List.length (List.filter (fun s -> s.s_mode <> MPlain && not s.s_reserved) t.t_sess) in
  let plain = List.length (List.filter (fun s -> s.s_mode = MPlain && not s.s_reserved) t.t_sess) in
  let n_idle = List.length (List.filter (fun s -> idle now s) t.t_sess) in
  let recl = (cap - List.length t.t_sess) + n_idle in
  let probe = full_with_retries false in
  Printf.sprintf "q=1 res=%s xl=%d xd=%s rx=0 marker=%s rdv=00 recl=%d probe=%s | est=%d plain=%d total=%d"
    (string_of_n res) xl (string_of_n xd)
    (match marker with 0 -> "none" | 1 -> "expired" | _ -> "live") recl
    (if probe then "ok" else "fail") est plain (List.length t.t_sess)

(* ---- monitor mode: the extracted clauses on the implementation's lines ---- *)
let spec_line f =
  match f with
  | "D" :: id :: rest ->
      let bad = ref [] in
      let line = String.concat " " rest in
      (* "#nres=nlive" after every op *)
      List.iter (fun tok ->
        match String.rindex_opt tok '#' with
        | Some i ->
            let c = String.sub tok (i + 1) (String.length tok - i - 1) in
            (match String.split_on_char '=' c with
             | [a; b] ->
                 if not (mon_handles (n_of_string a) (n_of_string b)) && not (List.mem "reserved-without-handle" !bad)
                 then bad := "reserved-without-handle" :: !bad
             | _ -> ())
        | None -> ()) rest;
      let contains s sub =
        let n = String.length s and m = String.length sub in
        let rec go i = i + m <= n && (String.sub s i m = sub || go (i + 1)) in go 0 in
      if contains line "panic" || contains line "PANIC" then bad := "panic" :: !bad;
      (match List.filter (fun t -> String.length t > 3 && String.sub t 0 3 = "ev=") rest with
       | [t] ->
           let v = String.sub t 3 (String.length t - 3) in
           if v <> "-" then
             List.iter (fun e ->
               if e <> "" then begin
                 let reserved = e.[0] = '1' in
                 let nslots = int_of_string (String.sub e 1 (String.length e - 2)) in
                 if not (mon_evict reserved (n_of_int nslots)) && not (List.mem "evicted-busy-session" !bad)
                 then bad := "evicted-busy-session" :: !bad
               end) (String.split_on_char ',' v)
       | _ -> ());
      List.iter (fun t ->
        if String.length t > 3 && String.sub t 0 3 = "dl=" then begin
          let d = (try n_of_string (String.sub t 3 (String.length t - 3)) with _ -> n_of_int 1) in
          if not (mon_swept d) then bad := "dropped-exchange-never-swept" :: !bad
        end) rest;
      Printf.printf "D %s %s\n" id (if !bad = [] then "ok" else String.concat "," !bad)
  | (("V" | "W") as k) :: id :: rest ->
      let e = List.fold_left (fun acc t ->
        if String.length t > 4 && String.sub t 0 4 = "end=" then int_of_string (String.sub t 4 (String.length t - 4)) else acc) (-1) rest in
      Printf.printf "%s %s %s\n" k id (if e >= 0 && mon_rdv_end (n_of_int e) then "ok" else "rendezvous-not-released")
  | "E" :: id :: rest ->
      let g k = field rest k in
      if List.mem "PANIC" rest || g "res" = "" then Printf.printf "E %s no-result\n" id
      else begin
        let marker = (match g "marker" with "none" -> 0 | "expired" -> 1 | _ -> 2) in
        let rdv = g "rdv" in
        let clean = mon_quiescent_clean (n_of_string (g "res")) (n_of_string (g "xl")) (n_of_string (g "xd"))
            (n_of_int marker) (n_of_int (Char.code rdv.[0] - 48)) (n_of_int (Char.code rdv.[1] - 48)) in
        let bad = ref [] in
        let rxb = (try n_of_string (g "rx") with _ -> n_of_int 1) in
        if not (mon_rx_free rxb) then bad := "rx-buffer-never-freed" :: !bad
        else if g "q" <> "1" || not clean then bad := "not-clean-after-quiescence" :: !bad;
        (match int_of_n (mon_probe (n_of_string (g "recl")) (g "probe" = "ok")) with
         | 0 -> ()
         | 1 -> bad := "probe-failed-one-reclaimable-slot" :: !bad
         | _ -> bad := "probe-handshake-failed" :: !bad);
        Printf.printf "E %s %s\n" id (if !bad = [] then "ok" else String.concat "," !bad)
      end
  | _ -> ()

let () =
  let spec = Array.length Sys.argv > 1 && Sys.argv.(1) = "spec" in
  try
    while true do
      let line = input_line stdin in
      let f = List.filter (fun x -> x <> "") (String.split_on_char ' ' line) in
      let key = (match f with k :: id :: _ -> k ^ " " ^ id | _ -> "? ?") in
      if spec then (try spec_line f with _ -> Printf.printf "%s unreadable-output\n" key)
      else try
        match f with
        | "D" :: id :: n :: rest ->
            let cap = int_of_string (String.sub n 2 (String.length n - 2)) in
            Printf.printf "D %s %s\n" id (run_d cap (String.concat "" rest))
        | (("V" | "W") as k) :: id :: _ :: rest ->
            Printf.printf "%s %s %s\n" k id (run_v (String.concat "" rest))
        | "E" :: id :: n :: rest ->
            let cap = int_of_string (String.sub n 2 (String.length n - 2)) in
            Printf.printf "E %s %s\n" id (run_e cap rest)
        | _ -> ()
      with End_of_file -> raise End_of_file | _ -> Printf.printf "%s driver-error\n" key
    done
  with End_of_file -> ()
