(* Line-oriented driver for the C10 model.
   Default mode: reads case lines (P / S / E) and prints what the MODEL does, in the format of
   harness/src/bin/c10.rs.
   "spec" mode (argv[1] = "spec"): reads `<case line> => <implementation output>` lines and
   evaluates the extracted executable clauses of Model/ExchangeSpec.v on the implementation's own
   observations; prints `<kind> <id> ok` or `<kind> <id> <violation names>`.
   Hand-written and trusted: parsing / printing, and (S lines) the bookkeeping that turns a script
   operation into a model label (creation ordinals of Exchange objects, aliases of initiator
   exchange ids, the counter chosen for a send). *)
open Model
open Util

module Str_index = struct
  let find (s : string) (sub : string) : int =
    let n = String.length s and m = String.length sub in
    let rec go i = if i + m > n then n else if String.sub s i m = sub then i else go (i + 1) in
    go 0
end

let rec nat_of (i : int) : nat = if i <= 0 then O else S (nat_of (i - 1))
let rec int_of_nat (n : nat) : int = match n with O -> 0 | S k -> 1 + int_of_nat k
let ni = n_of_int
let sn = string_of_n

(* ---------------------------------------------------------------- common parsing *)

let op_of_char c = match c with
  | 'n' -> OpNewSession | 'a' -> OpStandaloneAck | 's' -> OpScStatus | 'c' -> OpScClose | _ -> OpOrdinary
let char_of_op o = match o with
  | OpOrdinary -> 'o' | OpNewSession -> 'n' | OpStandaloneAck -> 'a' | OpScStatus -> 's' | OpScClose -> 'c'

let role_of r st = match r, st with
  | 'I', 'd' -> InitDropped | 'I', _ -> InitOwned
  | _, 'd' -> RespDropped | _, 'o' -> RespOwned | _, _ -> RespPending
let role_chars r = match r with
  | InitOwned -> ('I', 'o') | InitDropped -> ('I', 'd')
  | RespPending -> ('R', 'p') | RespOwned -> ('R', 'o') | RespDropped -> ('R', 'd')

let field_map fields =
  List.filter_map (fun kv -> match String.index_opt kv '=' with
    | None -> None
    | Some i -> Some (String.sub kv 0 i, String.sub kv (i + 1) (String.length kv - i - 1))) fields
let get fm k d = try List.assoc k fm with Not_found -> d

(* P slots: <exid>/<I|R>/<o|d|p>/<retr|->/<ack|ack+|-> ; S slots carry 0|1 for the retransmission *)
let parse_slot ~flag s : exch option =
  if s = "-" then None else
  match String.split_on_char '/' s with
  | [id; r; st; retr; ack] ->
      let retr = if retr = "-" then None
        else if flag then (if retr = "1" then Some { r_base = ni 300; r_ctr = ni 0; r_count = ni 0 } else None)
        else Some { r_base = ni 300; r_ctr = n_of_string retr; r_count = ni 0 } in
      let ack = if ack = "-" then None
        else if ack.[String.length ack - 1] = '+' then
          Some { a_ctr = n_of_string (String.sub ack 0 (String.length ack - 1)); a_acked = true }
        else Some { a_ctr = n_of_string ack; a_acked = false } in
      Some { e_id = n_of_string id; e_role = role_of r.[0] st.[0];
             e_mrp = { rm_retr = retr; rm_ack = ack; rm_received = true }; e_rat = N0 }
  | _ -> failwith ("bad slot " ^ s)

let slot_str ~flag (o : exch option) = match o with
  | None -> "-"
  | Some e ->
      let (r, st) = role_chars e.e_role in
      Printf.sprintf "%s/%c/%c/%s/%s" (sn e.e_id) r st
        (match e.e_mrp.rm_retr with
         | Some r -> if flag then "1" else sn r.r_ctr
         | None -> if flag then "0" else "-")
        (match e.e_mrp.rm_ack with
         | Some a -> sn a.a_ctr ^ (if a.a_acked then "+" else "")
         | None -> "-")

let slots_str ~flag l = String.concat "," (List.map (slot_str ~flag) l)

(* trailing freed slots are invisible in the implementation's snapshot (it prints up to the last occupied index) *)
let rec trim_free (l : exch option list) =
  match List.rev l with
  | None :: t -> trim_free (List.rev t)
  | _ -> l

let res_name (r : bool res) = match r with
  | Ok false -> "routed" | Ok true -> "new"
  | Err c -> (match int_of_n c with 2 -> "dup" | 3 -> "noexch" | 4 -> "nosess" | 5 -> "nospace" | _ -> "err")
  | Panic _ -> "panic"
let res_code name = ni (match name with
  | "routed" -> 0 | "new" -> 1 | "dup" -> 2 | "noexch" -> 3 | "nosess" -> 4 | "nospace" -> 5 | _ -> 9)

(* ---------------------------------------------------------------- P *)

type pcase = { p_enc : bool; p_grp : bool; p_exp : bool; p_win : rx; p_pre : exch option list; p_msg : msg }

let parse_msg ~key ~enc s : msg =
  match String.split_on_char ':' s with
  | [ctr; exid; ir; op; rel; ack] ->
      { m_key = key; m_enc = enc; m_group = false; m_ctl = false; m_ctr = n_of_string ctr; m_exid = n_of_string exid; m_init = (ir = "i");
        m_op = op_of_char op.[0]; m_rel = (rel = "1"); m_ack = (if ack = "-" then None else Some (n_of_string ack)) }
  | _ -> failwith ("bad msg " ^ s)

let parse_p fields : pcase =
  let fm = field_map fields in
  let enc = get fm "enc" "1" = "1" in
  let win = match String.split_on_char ':' (get fm "win" "0:0:0") with
    | [s; m; b] -> { synced = (s = "1"); max_ctr = n_of_string m; bitmap = n_of_string b }
    | _ -> failwith "bad win" in
  { p_enc = enc; p_grp = get fm "grp" "0" = "1"; p_exp = get fm "exp" "0" = "1"; p_win = win;
    p_pre = List.map (parse_slot ~flag:false) (split_on ',' (get fm "pre" ""));
    p_msg = parse_msg ~key:(ni 5) ~enc (get fm "msg" "") }

let run_p fields =
  let c = parse_p fields in
  let s = { s_id = ni 7; s_key = ni 5; s_enc = c.p_enc; s_group = c.p_grp; s_expired = c.p_exp; s_win = c.p_win; s_exchs = c.p_pre } in
  let (s', r) = session_post_recv s c.p_msg N0 in
  Printf.sprintf "%s [%s] w=%d:%s:%s" (res_name r) (slots_str ~flag:false (trim_free s'.s_exchs))
    (if s'.s_win.synced then 1 else 0) (sn s'.s_win.max_ctr) (sn s'.s_win.bitmap)

let view (o : exch option) = match o with Some e -> Some (e.e_id, e.e_role) | None -> None

(* spec: P <id> <fields> => <res> [<slots>] w=... *)
let spec_p fields impl =
  let c = parse_p fields in
  match String.split_on_char ' ' impl with
  | res :: tbl :: _ ->
      let tbl = String.sub tbl 1 (String.length tbl - 2) in
      let post = List.map (parse_slot ~flag:false) (split_on ',' tbl) in
      let fresh = snd (post_recv c.p_win c.p_msg.m_ctr c.p_enc false) in
      let ok = post_recv_ok mAX_EXCHANGES (List.map view c.p_pre) c.p_exp fresh c.p_msg.m_exid c.p_msg.m_init
                 c.p_msg.m_op (res_code res) (List.map view post) in
      if ok then "ok" else "gate-or-routing"
  | _ -> "unparsable"

(* ---------------------------------------------------------------- S *)

let state_str (s : sys) (hs : (n * nat) option list) =
  let sess = List.map (fun se ->
    Printf.sprintf "S%sk%s%c%c[%s]" (sn se.s_id) (sn se.s_key) (if se.s_group then 'g' else if se.s_enc then 'e' else 'u')
      (if se.s_expired then 'x' else '-') (slots_str ~flag:true (trim_free se.s_exchs))) s.sessions in
  let rx = match s.rx0 with
    | RxEmpty -> "E"
    | RxHolding m -> Printf.sprintf "H%s:%s:%c" (sn m.m_key) (sn m.m_exid) (if m.m_init then 'i' else 'r')
    | RxTaken _ -> "T" in
  let h = List.map (fun o -> match o with
    | Some (sid, idx) -> Printf.sprintf "%s.%d" (sn sid) (int_of_nat idx)
    | None -> "x") hs in
  Printf.sprintf "%s|rx=%s|h=%s" (String.concat ";" sess) rx (String.concat "," h)

let find_key_sess (s : sys) key = List.find_opt (fun se -> se.s_key = key) s.sessions

(* the pending retransmission counter of the exchange a header addresses *)
let target_retr (s : sys) key exid init =
  match find_key_sess s key with
  | None -> None
  | Some se ->
      List.fold_left (fun acc o -> match o with
        | Some e when e.e_id = exid && (is_responder e.e_role) = init ->
            (match e.e_mrp.rm_retr with Some r -> Some r.r_ctr | None -> None)
        | _ -> acc) None se.s_exchs

let rx_label (s : sys) arg : msg =
  match String.split_on_char ':' arg with
  | [key; ctr; exid; ir; op; rel; ack] ->
      let key = n_of_string key and exid = n_of_string exid and init = (ir = "i") in
      let tr = target_retr s key exid init in
      let base = match tr with Some c -> c | None -> N0 in
      let ack = match ack with
        | "-" -> None
        | "@" -> Some base
        | _ -> Some (N.add base (ni 1000)) in
      { m_key = key; m_enc = (int_of_n key < 10); m_group = (int_of_n key = 9); m_ctl = false; m_ctr = n_of_string ctr; m_exid = exid; m_init = init;
        m_op = op_of_char op.[0]; m_rel = (rel = "1"); m_ack = ack }
  | _ -> failwith ("bad rx op " ^ arg)

let nth_opt l i = try List.nth l i with _ -> None

let run_s ops =
  (* the transport with its TX buffer (Model/ExchangeTx.v) *)
  let st = ref (sysx_init N0) in
  let hs : (n * nat) option list ref = ref [] in
  let fresh = ref 5000 in
  let buf = Buffer.create 1024 in
  let do_x l = match stepx false !st l with
    | Some (s', ev) -> st := s'; Some ev
    | None -> None in
  let core_ev ev = List.filter_map (fun e -> match e with XEv e -> Some e | _ -> None) ev in
  let do_step l = match do_x (XCore l) with Some ev -> Some (core_ev ev) | None -> None in
  let flush () = match do_x XFlush with
    | Some [XWire _] -> "sent"
    | Some [XTxNoSession _] -> "dropped"
    | _ -> "no" in
  let state () =
    let txs = match !st.tx with TxEmpty -> "E" | TxQueued _ -> "Q" | TxTaken _ -> "T" in
    let base = state_str !st.core !hs in
    (* insert |tx=..| before |h= *)
    let i = Str_index.find base "|h=" in
    String.sub base 0 i ^ "|tx=" ^ txs ^ String.sub base i (String.length base - i) in
  List.iter (fun op ->
    let kind = op.[0] and arg = String.sub op 1 (String.length op - 1) in
    let res = match kind with
      | '+' -> (match do_step (LAddSession (n_of_string arg, true, false)) with Some _ -> "ok" | None -> "err")
      | '-' -> (match do_step (LRemoveSession (n_of_string arg)) with Some _ -> "ok" | None -> "na")
      | 'x' -> (match do_step (LExpireSession (n_of_string arg)) with Some _ -> "ok" | None -> "na")
      | 't' -> ignore (do_step (LTick (n_of_string arg))); "ok"
      | 'r' ->
          let m = rx_label !st.core arg in
          (match do_step (LRx m) with
           | None -> "busy"
           | Some ev ->
               let kept = List.exists (fun e -> match e with EvKeep _ -> true | _ -> false) ev in
               let direct = List.filter_map (fun e -> match e with
                 | EvDupAck _ -> Some "sack" | EvSessionNotFound _ -> Some "snf"
                 | EvNoSpaceClose _ -> Some "close" | _ -> None) ev in
               (if kept then "kept" else "gone") ^ (String.concat "" (List.map (fun d -> "+" ^ d) direct)))
      | 'A' ->
          (match do_step LAccept with
           | Some ev ->
               (match List.find_opt (fun e -> match e with EvAccept _ -> true | _ -> false) ev with
                | Some (EvAccept (sid, idx, _)) ->
                    hs := !hs @ [Some (sid, idx)];
                    Printf.sprintf "acc:%s.%d" (sn sid) (int_of_nat idx)
                | _ -> "no")
           | None -> "no")
      | 'v' ->
          (match nth_opt !hs (int_of_string arg) with
           | None -> "na"
           | Some (sid, idx) ->
               (match !st.core.rx0 with
                | RxTaken (_, s2, i2) when s2 = sid && i2 = idx -> "holds"
                | _ ->
                    (match do_step (LRecv (sid, idx)) with
                     | Some ev ->
                         (match ev with
                          | [EvDeliver (_, _, m)] -> Printf.sprintf "got:%c" (char_of_op m.m_op)
                          | _ -> "no")
                     | None -> "no")))
      | 'd' ->
          (match nth_opt !hs (int_of_string arg) with
           | None -> "na"
           | Some (sid, idx) -> (match do_step (LRxDone (sid, idx)) with Some _ -> "ok" | None -> "no"))
      | 'D' ->
          let n = int_of_string arg in
          (match nth_opt !hs n with
           | None -> "na"
           | Some (sid, idx) ->
               ignore (do_step (LDropExch (sid, idx)));
               hs := List.mapi (fun i o -> if i = n then None else o) !hs;
               "ok")
      | 's' | 'q' ->
          (match String.split_on_char ':' arg with
           | [n; rel] ->
               (match nth_opt !hs (int_of_string n) with
                | None -> "na"
                | Some (sid, idx) ->
                    (* Exchange::init_send lets go of the RxMessage first *)
                    ignore (do_step (LRxDone (sid, idx)));
                    let e = match find_sid !st.core.sessions sid with
                      | Some se -> (match nth_error se.s_exchs idx with Some (Some e) -> Some e | _ -> None)
                      | None -> None in
                    let pending = match e with Some e -> e.e_mrp.rm_retr | None -> None in
                    (* the counter of a send: the pending retransmission's, else a fresh one *)
                    let ctr = match pending with
                      | Some r -> r.r_ctr
                      | None -> incr fresh; ni !fresh in
                    let gives_up = match pending with
                      | Some r -> rel = "1" && int_of_n r.r_count >= 5
                      | None -> false in
                    let can_send = match find_sid !st.core.sessions sid, e with
                      | Some se, Some _ -> not se.s_group
                      | _, _ -> false in
                    let r = match do_x (XInitSend (sid, idx)) with
                      | None -> "no"     (* buffer busy, or NoSession *)
                      | Some _ ->
                          ignore (do_x (XComplete (sid, idx, ctr, rel = "1")));
                          if not can_send then "no" else if gives_up then "timeout" else "ok" in
                    if kind = 's' then ignore (flush ());
                    r)
           | _ -> "?")
      | 'F' -> flush ()
      | 'i' ->
          (match String.split_on_char ':' arg with
           | [sid; al] ->
               let sid = n_of_string sid in
               (match do_step (LInitiate (sid, n_of_string al)) with
                | Some _ ->
                    (match !st.core.handles with
                     | (s2, idx) :: _ ->
                         hs := !hs @ [Some (s2, idx)];
                         Printf.sprintf "ini:%s.%d" (sn s2) (int_of_nat idx)
                     | [] -> "no")
                | None -> "no")
           | _ -> "?")
      | 'W' -> (match do_step LSweepAccept with Some _ -> "fired" | None -> "no")
      | 'O' -> (match do_step LSweepOrphan with Some _ -> "fired" | None -> "no")
      | 'C' ->
          (* the closer waits for the TX buffer; what it queues is sent at once here *)
          (match !st.tx with
           | TxEmpty ->
               (match do_step LCloseDropped with
                | Some ev ->
                    ignore (flush ());
                    (match ev with
                     | [EvStandaloneAck _] -> "closed:sack"
                     | [EvCloseSession _] -> "closed:close"
                     | _ -> "closed:none")
                | None -> "idle:none")
           | _ -> "txbusy")
      | _ -> "?" in
    Buffer.add_string buf (Printf.sprintf "%s@%s " res (state ()))) (split_on ';' ops);
  String.trim (Buffer.contents buf)

(* ---- S spec: parse the implementation's states back and evaluate the clauses *)

let parse_state (str : string) : sys * (n * nat) option list =
  match List.filter (fun f -> not (String.length f > 3 && String.sub f 0 3 = "tx=")) (String.split_on_char '|' str) with
  | [sess; rx; h] ->
      let sessions = List.map (fun s ->
        (* S<sid>k<key><e|u><x|->[slots] *)
        let kpos = String.index s 'k' in
        let lb = String.index s '[' in
        let sid = n_of_string (String.sub s 1 (kpos - 1)) in
        let key = n_of_string (String.sub s (kpos + 1) (lb - kpos - 3)) in
        let grp = s.[lb - 2] = 'g' in
        let enc = s.[lb - 2] = 'e' || grp and exp = s.[lb - 1] = 'x' in
        let slots = String.sub s (lb + 1) (String.length s - lb - 2) in
        { s_id = sid; s_key = key; s_enc = enc; s_group = grp; s_expired = exp; s_win = rx_unsynced;
          s_exchs = List.map (parse_slot ~flag:true) (split_on ',' slots) }) (split_on ';' sess) in
      let rxv = String.sub rx 3 (String.length rx - 3) in
      let hsl = List.map (fun x -> if x = "x" then None else
        match String.split_on_char '.' x with
        | [a; b] -> Some (n_of_string a, nat_of (int_of_string b))
        | _ -> None) (split_on ',' (String.sub h 2 (String.length h - 2))) in
      let live = List.filter_map (fun x -> x) hsl in
      let rxs = if rxv = "E" then RxEmpty
        else if rxv = "T" then RxTaken ({ m_key = N0; m_enc = true; m_group = false; m_ctl = false; m_ctr = N0; m_exid = N0; m_init = true;
                                          m_op = OpOrdinary; m_rel = false; m_ack = None }, N0, O)
        else match String.split_on_char ':' (String.sub rxv 1 (String.length rxv - 1)) with
          | [k; e; ir] -> RxHolding { m_key = n_of_string k; m_enc = true; m_group = (k = "9"); m_ctl = false; m_ctr = N0; m_exid = n_of_string e;
                                      m_init = (ir = "i"); m_op = OpOrdinary; m_rel = false; m_ack = None }
          | _ -> failwith "bad rx" in
      ({ sessions; rx0 = rxs; handles = live; now = N0; next_sid = N0 }, hsl)
  | _ -> failwith ("bad state " ^ str)

let held_msg (s : sys) = match s.rx0 with RxHolding m -> Some m | _ -> None

let spec_s ops impl =
  let toks = List.filter (fun x -> x <> "") (String.split_on_char ' ' impl) in
  let opl = split_on ';' ops in
  let viol = ref [] in
  let add v = if not (List.mem v !viol) then viol := v :: !viol in
  if List.length toks <> List.length opl then add "length-mismatch" else begin
    let pre = ref (sys_init N0, []) in
    List.iter2 (fun op tok ->
      let at = String.index tok '@' in
      let res = String.sub tok 0 at and stxt = String.sub tok (at + 1) (String.length tok - at - 1) in
      let (post, posth) = parse_state stxt in
      let (pres, preh) = !pre in
      (* strip direct sends and timing *)
      let base = match String.index_opt res '+' with Some i -> String.sub res 0 i | None -> res in
      let (base, ms) = match String.index_opt base '~' with
        | Some i -> (String.sub base 0 i, int_of_string (String.sub base (i + 1) (String.length base - i - 1)))
        | None -> (base, 0) in
      let kind = op.[0] and arg = String.sub op 1 (String.length op - 1) in
      let quiet = LTick N0 in
      let label = match kind with
        | 'r' ->
            (match String.split_on_char ':' arg with
             | [key; ctr; exid; ir; o; rel; _] ->
                 (* initiator aliases: the implementation prints aliases in its tables, so the alias is the id *)
                 LRx { m_key = n_of_string key; m_enc = (int_of_string key < 10); m_group = (key = "9"); m_ctl = false; m_ctr = n_of_string ctr;
                       m_exid = n_of_string exid; m_init = (ir = "i"); m_op = op_of_char o.[0]; m_rel = (rel = "1");
                       m_ack = None }
             | _ -> quiet)
        | 'A' -> if String.length base >= 3 && String.sub base 0 3 = "acc" then LAccept else quiet
        | 'D' -> if base = "ok" then LDropExch (N0, O) else quiet
        | 'i' ->
            (match String.split_on_char ':' arg with
             | [sid; al] when String.length base >= 3 && String.sub base 0 3 = "ini" -> LInitiate (n_of_string sid, n_of_string al)
             | _ -> quiet)
        | 'W' -> if base = "fired" then LSweepAccept else quiet
        | 'C' -> if String.length base >= 6 && String.sub base 0 6 = "closed" then LCloseDropped else quiet
        | _ -> quiet in
      if not (sessions_lifecycle_b label pres.sessions post.sessions) then add ("lifecycle-" ^ String.make 1 kind);
      if not (group_sessions_ok post.sessions) then add "group-session-left-behind-or-with-mrp";
      (match kind with
       | 'v' ->
           if String.length base >= 3 && String.sub base 0 3 = "got" then begin
             match held_msg pres, nth_opt preh (int_of_string arg) with
             | Some m, Some (sid, idx) -> if not (deliver_ok pres sid idx m) then add "cross-delivery"
             | _ -> add "delivery-from-empty-slot"
           end else begin
             (* a refused recv must leave the slot alone *)
             match held_msg pres, held_msg post with
             | Some _, None -> add "recv-discarded-message"
             | _ -> ()
           end
       | 'D' ->
           if base = "ok" then begin
             match nth_opt preh (int_of_string arg) with
             | Some (sid, idx) -> if not (drop_ok pres post sid idx) then add "drop-loses-ack-or-close"
             | None -> ()
           end
       | 'O' -> if base <> "locked" && not (sweep_orphan_ok pres (base = "fired")) then add "orphan-sweeper"
       | 'W' ->
           if base <> "locked" && not (sweep_accept_ok pres (base = "fired") (ni ms) (ni ms)) then add "accept-timeout-sweeper"
       | 'A' ->
           let fired = String.length base >= 3 && String.sub base 0 3 = "acc" in
           let (sid, idx) = if fired then
               (match String.split_on_char '.' (String.sub base 4 (String.length base - 4)) with
                | [a; b] -> (n_of_string a, nat_of (int_of_string b)) | _ -> (N0, O))
             else (N0, O) in
           if not (accept_ok pres fired sid idx) then add "accept"
       | 'C' ->
           (match String.split_on_char ':' base with
            | [f; what] when f <> "txbusy" ->
                if what = "close-unsent" || what = "sack-unsent" then add "closer-message-not-sent";
                let acks = if what = "sack" || what = "sack-unsent" then 1 else 0 in
                let closes = if what = "close" || what = "close-unsent" then 1 else 0 in
                if not (close_ok pres (f = "closed") (ni acks) (ni closes) post) then add "closer"
            | _ -> ())
       | 'r' ->
           (match label with
            | LRx m ->
                if base <> "busy" && not (rx_ok pres m (base = "kept") post) then add "kept-without-owner";
                let dup = (match String.index_opt res '+' with Some _ -> true | None -> false) in
                if base = "gone" && not (peer_close_ok pres m dup post) then add "peer-close-ignored"
            | _ -> ())
       | _ -> ());
      pre := (post, posth)) opl toks;
    (* after a final orphan sweep whatever still sits in the slot must have a live owner *)
    let (fin, _) = !pre in
    let last_is_sweep = (match List.rev opl with o :: _ -> o = "O" | [] -> false) in
    (match held_msg fin with
     | Some m -> if last_is_sweep && unowned fin.sessions m then add "wedged"
     | None -> ())
  end;
  if !viol = [] then "ok" else String.concat "," (List.rev !viol)

(* ---------------------------------------------------------------- E: prediction

   A discrete-event interpretation of an end-to-end script over the extracted [step]: the network
   and every computation are instantaneous, datagrams for the device queue up while its RX buffer
   is occupied, sweepers and the closer run as soon as they are enabled, handlers are polled in
   index order.  Hand-written and trusted like the rest of this driver; it re-states the handler
   behaviours of harness/src/bin/c10.rs.  Only scenarios marked det=1 are compared. *)

type meta = { tag : int; beh : int; arg : int; origin : int (* 0 controller, 1/2 ghost session, 9 group *) }
type dgram = { dm : msg; dmeta : meta option }

type hst =
  | Idle
  | Fresh of (n * nat)
  | SendWait of (n * nat) * int          (* reliable reply out; give-up time *)
  | AbandonAt of (n * nat) * int
  | HoldUntil of (n * nat) * int * meta
  | Wait2 of (n * nat) * int
  | SleepEnd of (n * nat) * int
  | SleepEcho of (n * nat) * int * meta

type handler = { kind : char; delay : int; mutable first : bool; mutable hs : hst }

type eop =
  | EGhost of int * int * bool * bool * char * int * int   (* sess exid init rel op beh arg *)
  | EGroup of int * bool * int * int                        (* exid rel beh arg *)
  | EAck of int * int * bool
  | EWait of int
  | EProbeA of int
  | EProbeG of int * int

let key_of_sess s = if s = 0 then 2 else if s = 9 then 9 else 10 + s
let giveup_ms = 1400   (* the device's retransmission ladder with an 80 ms base interval ends after about 1.4 s *)

let predict_e fields =
  let fm = field_map fields in
  let handlers = Array.of_list (List.map (fun h ->
    { kind = h.[0]; delay = (try int_of_string (String.sub h 1 (String.length h - 1)) with _ -> 0); first = true; hs = Idle })
    (List.filter (fun x -> x <> "") (String.split_on_char '.' (get fm "h" "")))) in
  let autoack = get fm "ga" "1" = "1" in
  let script = List.filter_map (fun o ->
    if o = "" then None else
    let p = Array.of_list (String.split_on_char ':' (String.sub o 1 (String.length o - 1))) in
    let i k = int_of_string p.(k) in
    match o.[0] with
    | 'g' -> Some (EGhost (i 0, i 1, p.(2) = "i", p.(3) = "1", p.(4).[0], i 5, i 6))
    | 'x' -> Some (EGroup (i 0, p.(1) = "1", i 2, i 3))
    | 'a' -> Some (EAck (i 0, i 1, p.(2) = "i"))
    | 'w' -> Some (EWait (i 0))
    | 'p' | 'P' -> Some (EProbeA (i 0))
    | 'q' | 'Q' -> Some (EProbeG (i 0, i 1))
    | _ -> None) (String.split_on_char ';' (get fm "s" "")) in
  (* --- the device *)
  let st = ref (sys_init N0) in
  let now = ref 0 in
  let step_l l = match step false !st l with Some (s', ev) -> st := s'; Some ev | None -> None in
  let tick_to t = if t > !now then begin ignore (step_l (LTick (ni (t - !now)))); now := t end in
  List.iter (fun k -> ignore (step_l (LAddSession (ni k, true, false)))) [2; 11; 12];
  let inq : dgram Queue.t = Queue.create () in
  let slot_meta : meta option ref = ref None in
  let deliv : (int * string) list ref = ref [] in
  let replies : int list ref = ref [] in
  let xdrop = ref 0 in
  let fresh_tx = ref 5000 in
  let ctr_of = Hashtbl.create 8 in     (* counters of the peers, per key *)
  let next_ctr key = let c = (try Hashtbl.find ctr_of key with Not_found -> (if key = 2 then 100 else if key = 9 then 9000 else if key = 11 then 1000 else 5000)) + 1 in
    Hashtbl.replace ctr_of key c; c in
  let last_dev : (int * int, n) Hashtbl.t = Hashtbl.create 8 in   (* last counter the device used on (key, exid) *)
  let probe_answered : int list ref = ref [] in
  let opened : (int * int * int) list ref = ref [] in   (* reliable ghost openers: (tag, key, exid) *)
  let answered_ex : (int * int) list ref = ref [] in    (* (key, exid) the device sent something on *)
  let closed_keys : int list ref = ref [] in
  let mk_msg key exid init rel op ack =
    { m_key = ni key; m_enc = true; m_group = (key = 9); m_ctl = false; m_ctr = ni (next_ctr key); m_exid = ni exid; m_init = init;
      m_op = op_of_char op; m_rel = rel; m_ack = ack } in
  let exch_of (sid, idx) = match find_sid !st.sessions sid with
    | Some se -> (match nth_error se.s_exchs idx with Some (Some e) -> Some (se, e) | _ -> None)
    | None -> None in
  let ident h = match exch_of h with
    | Some (se, e) -> let k = int_of_n se.s_key in
        Printf.sprintf "%d:%d:%c" k (if k = 2 then 65535 else int_of_n e.e_id) (fst (role_chars e.e_role))
    | None -> "0:0:?" in
  (* the device sends on the exchange of [h]; acknowledgements of the peers come back through the queue *)
  let dev_send h rel (echo : meta option) =
    match exch_of h with
    | None -> ()
    | Some (se, e) ->
        let key = int_of_n se.s_key and exid = int_of_n e.e_id in
        let ctr = match e.e_mrp.rm_retr with Some r -> r.r_ctr | None -> incr fresh_tx; ni !fresh_tx in
        (match step_l (LSend (fst h, snd h, ctr, rel)) with
         | Some _ when not se.s_group ->
             Hashtbl.replace last_dev (key, exid) ctr;
             answered_ex := (key, exid) :: !answered_ex;
             (match echo with
              | Some m ->
                  if m.origin = 0 then probe_answered := m.tag :: !probe_answered
                  else replies := m.tag :: !replies
              | None -> ());
             let peer_acks = (key = 2) || (autoack && (key = 11 || key = 12)) in
             if rel && peer_acks then
               Queue.add { dm = mk_msg key exid (is_responder e.e_role) false 'a' (Some ctr); dmeta = None } inq
         | _ -> ()) in
  let drop_h h = ignore (step_l (LDropExch (fst h, snd h))) in
  let session_gone h = match find_sid !st.sessions (fst h) with None -> true | Some _ -> false in
  let retrans_pending_h h = match exch_of h with
    | Some (_, e) -> (match e.e_mrp.rm_retr with Some _ -> true | None -> false)
    | None -> false in
  let log_delivery h =
    (match !slot_meta with
     | Some m -> deliv := (m.tag, Printf.sprintf "%d>%s" m.tag (ident h)) :: !deliv
     | None -> ());
    !slot_meta in
  let try_recv h = match step_l (LRecv (fst h, snd h)) with
    | Some [EvDeliver _] -> true
    | _ -> false in
  let rx_done h = ignore (step_l (LRxDone (fst h, snd h))) in
  (* one handler makes progress if it can *)
  let progress (h : handler) : bool =
    match h.hs with
    | Idle ->
        (match !st.rx0 with
         | RxHolding m ->
             (match owner_of !st.sessions m with
              | Some ((_, _), e) when is_pending e.e_role && !now >= int_of_n e.e_rat + h.delay ->
                  (match step_l LAccept with
                   | Some ev ->
                       (match List.find_opt (fun e -> match e with EvAccept _ -> true | _ -> false) ev with
                        | Some (EvAccept (sid, idx, _)) ->
                            if h.kind = 'x' || (h.kind = 'y' && h.first) then begin
                              h.first <- false; incr xdrop; drop_h (sid, idx)
                            end else h.hs <- Fresh (sid, idx);
                            true
                        | _ -> false)
                   | None -> false)
              | _ -> false)
         | _ -> false)
    | Fresh hd ->
        if try_recv hd then begin
          let m = log_delivery hd in
          (match m with
           | None -> rx_done hd; drop_h hd; h.hs <- Idle
           | Some m ->
               if m.beh <> 4 then rx_done hd;
               (match m.beh with
                | 1 -> dev_send hd true (Some m); h.hs <- SendWait (hd, !now + giveup_ms)
                | 2 -> drop_h hd; h.hs <- Idle
                | 3 -> dev_send hd true (Some m); h.hs <- AbandonAt (hd, !now + m.arg)
                | 4 -> h.hs <- HoldUntil (hd, !now + m.arg, m)
                | 5 -> h.hs <- Wait2 (hd, !now + m.arg)
                | 6 -> dev_send hd false None; h.hs <- SleepEnd (hd, !now + m.arg)
                | 7 -> h.hs <- SleepEcho (hd, !now + m.arg, m)
                | _ -> drop_h hd; h.hs <- Idle));
          true
        end else if session_gone hd then begin drop_h hd; h.hs <- Idle; true end
        else false
    | SendWait (hd, t) ->
        if session_gone hd || not (retrans_pending_h hd) then begin drop_h hd; h.hs <- Idle; true end
        else if !now >= t then begin
          (* retransmissions until the entry gives up *)
          let guard = ref 0 in
          while retrans_pending_h hd && !guard < 8 do dev_send hd true None; incr guard done;
          drop_h hd; h.hs <- Idle; true
        end else false
    | AbandonAt (hd, t) ->
        if session_gone hd || not (retrans_pending_h hd) || !now >= t then begin drop_h hd; h.hs <- Idle; true end
        else false
    | HoldUntil (hd, t, m) ->
        if !now >= t then begin
          rx_done hd; dev_send hd true (Some m); h.hs <- SendWait (hd, !now + giveup_ms); true
        end else false
    | Wait2 (hd, t) ->
        if session_gone hd then begin drop_h hd; h.hs <- Idle; true end
        else if try_recv hd then begin
          ignore (log_delivery hd); rx_done hd; dev_send hd false None; drop_h hd; h.hs <- Idle; true
        end else if !now >= t then begin drop_h hd; h.hs <- Idle; true end
        else false
    | SleepEnd (hd, t) -> if !now >= t then begin drop_h hd; h.hs <- Idle; true end else false
    | SleepEcho (hd, t, m) ->
        if !now >= t then begin dev_send hd false (Some m); drop_h hd; h.hs <- Idle; true end else false in
  let quiesce () =
    let again = ref true in
    let fuel = ref 10000 in
    while !again && !fuel > 0 do
      again := false; decr fuel;
      (* process_rx *)
      (match !st.rx0 with
       | RxEmpty when not (Queue.is_empty inq) ->
           let d = Queue.pop inq in
           (match step_l (LRx d.dm) with
            | Some ev ->
                List.iter (fun e -> match e with
                  | EvKeep _ -> slot_meta := d.dmeta
                  | EvNoSpaceClose sid | EvPeerClosed sid -> ignore sid; closed_keys := int_of_n d.dm.m_key :: !closed_keys
                  | EvDupAck _ -> answered_ex := (int_of_n d.dm.m_key, int_of_n d.dm.m_exid) :: !answered_ex
                  | _ -> ()) ev
            | None -> ());
           again := true
       | _ -> ());
      (* sweepers and closer *)
      (match step_l LSweepOrphan with Some _ -> again := true | None -> ());
      (match step_l LSweepAccept with Some _ -> again := true | None -> ());
      (match step_l LCloseDropped with
       | Some ev ->
           List.iter (fun e -> match e with
             | EvStandaloneAck (sid, idx, _) -> ignore idx;
                 (* which exchange: the closer does not tell, but an acknowledgement on the wire is
                    what `unacked` looks for: mark every exchange of that session as answered *)
                 (match find_sid !st.sessions sid with
                  | Some se -> answered_ex := (int_of_n se.s_key, -1) :: !answered_ex
                  | None -> ())
             | EvCloseSession (sid, _) -> ignore sid
             | _ -> ()) ev;
           again := true
       | None -> ());
      Array.iter (fun h -> if progress h then again := true) handlers
    done in
  (* the next instant at which something can become enabled by the passing of time alone *)
  let next_time () =
    let c = ref max_int in
    let add t = if t > !now && t < !c then c := t in
    Array.iter (fun h -> match h.hs with
      | SendWait (_, t) | AbandonAt (_, t) | HoldUntil (_, t, _) | Wait2 (_, t) | SleepEnd (_, t) | SleepEcho (_, t, _) -> add t
      | _ -> ()) handlers;
    (match !st.rx0 with
     | RxHolding m ->
         (match owner_of !st.sessions m with
          | Some ((_, _), e) when is_pending e.e_role ->
              add (int_of_n e.e_rat + 1000);
              Array.iter (fun h -> if h.hs = Idle then add (int_of_n e.e_rat + h.delay)) handlers
          | _ -> ())
     | _ -> ());
    !c in
  let run_until t =
    quiesce ();
    let continue_ = ref true in
    while !continue_ do
      let n = next_time () in
      if n <= t then begin tick_to n; quiesce () end else continue_ := false
    done;
    tick_to t; quiesce () in
  (* --- the script *)
  let probes = ref [] in
  let fresh_exid = ref 0x7000 in
  let a_exid = ref 0x9000 in
  let inject_ghost tag sess exid init rel op beh arg =
    let key = key_of_sess sess in
    Queue.add { dm = mk_msg key exid init rel op None; dmeta = Some { tag; beh; arg; origin = sess } } inq;
    if init && rel && (op = 'o' || op = 'n') then opened := (tag, key, exid) :: !opened in
  List.iteri (fun i op ->
    match op with
    | EGhost (sess, exid, init, rel, op, beh, arg) -> inject_ghost i sess exid init rel op beh arg
    | EGroup (exid, rel, beh, arg) ->
        Queue.add { dm = mk_msg 9 exid true rel 'o' None; dmeta = Some { tag = i; beh; arg; origin = 9 } } inq
    | EAck (sess, exid, init) ->
        let key = key_of_sess sess in
        let ack = (try Some (Hashtbl.find last_dev (key, exid)) with Not_found -> None) in
        Queue.add { dm = mk_msg key exid init false 'a' ack; dmeta = None } inq
    | EWait ms -> run_until (!now + ms)
    | EProbeA timeout ->
        let t0 = !now in
        incr a_exid;
        Queue.add { dm = mk_msg 2 !a_exid true true 'o' None; dmeta = Some { tag = i; beh = 1; arg = 0; origin = 0 } } inq;
        quiesce ();
        let ok = ref (List.mem i !probe_answered) in
        while not !ok && !now < t0 + timeout do
          let n = min (next_time ()) (t0 + timeout) in
          tick_to n; quiesce (); ok := List.mem i !probe_answered
        done;
        probes := (if !ok then "ok" else "unanswered") :: !probes
    | EProbeG (sess, timeout) ->
        let t0 = !now in
        incr fresh_exid;
        let key = key_of_sess sess in
        (match find_key_sess !st (ni key) with
         | Some se when not se.s_expired ->
             inject_ghost i sess !fresh_exid true true 'o' 1 0;
             quiesce ();
             let ok = ref (List.mem i !replies) in
             while not !ok && !now < t0 + timeout do
               let n = min (next_time ()) (t0 + timeout) in
               tick_to n; quiesce (); ok := List.mem i !replies
             done;
             (* without automatic acknowledgements the ghost acknowledges the answer to its probe itself *)
             if !ok && not autoack then begin
               let ack = (try Some (Hashtbl.find last_dev (key, !fresh_exid)) with Not_found -> None) in
               Queue.add { dm = mk_msg key !fresh_exid true false 'a' ack; dmeta = None } inq
             end;
             probes := (if !ok then "ok" else "unanswered") :: !probes
         | _ ->
             (* no such session any more, or expired: SessionNotFound *)
             Queue.add { dm = mk_msg key !fresh_exid true true 'o' None; dmeta = None } inq;
             run_until (t0 + timeout);
             probes := "expired" :: !probes)) script;
  run_until (!now + 1250);
  (* --- what to compare *)
  let shape = String.concat "" (List.sort compare (List.map (fun se ->
    let k = int_of_n se.s_key in
    Printf.sprintf "L%d[%s]" k (String.concat "," (List.map (fun o -> match o with
      | None -> "-"
      | Some e -> let (r, stc) = role_chars e.e_role in
          Printf.sprintf "%d/%c/%c" (if k = 2 then 65535 else int_of_n e.e_id) r stc) (trim_free se.s_exchs)))) !st.sessions)) in
  let unacked = List.length (List.filter (fun (_, key, exid) ->
    let answered = List.mem (key, exid) !answered_ex || List.mem (key, -1) !answered_ex || List.mem key !closed_keys
                   || (match find_key_sess !st (ni key) with None -> true | Some _ -> false) in
    let still_owned = (match find_key_sess !st (ni key) with
      | Some se -> List.exists (fun o -> match o with Some e -> int_of_n e.e_id = exid && e.e_role = RespOwned | None -> false) se.s_exchs
      | None -> false) in
    not answered && not still_owned) !opened) in
  let d = List.sort compare !deliv in
  Printf.sprintf "pred=%s/%s/%s/%d/%d/%s"
    (String.concat "," (List.rev !probes))
    (String.concat "," (List.map snd d))
    (String.concat "," (List.map string_of_int (List.sort_uniq compare !replies)))
    !xdrop unacked shape

(* ---------------------------------------------------------------- E spec: handler logs *)

(* deliv=<tag>:<psess>:<pexid>:<i|r>><hsess>:<hexid>:<I|R>,... *)
let spec_e impl =
  let viol = ref [] in
  let add v = if not (List.mem v !viol) then viol := v :: !viol in
  List.iter (fun f ->
    if String.length f > 6 && String.sub f 0 6 = "deliv=" then
      List.iter (fun d ->
        match String.split_on_char '>' d with
        | [p; h] ->
            (match String.split_on_char ':' p, String.split_on_char ':' h with
             | [_tag; ps; pe; pi], [hs; he; hr] ->
                 (* the controller's probes do not know their exchange id: 65535 = any *)
                 let pe' = if pe = "65535" then he else pe in
                 if not (delivery_matches (n_of_string ps) (n_of_string pe') (pi = "i")
                           (n_of_string hs) (n_of_string he) (hr = "R")) then add "cross-delivery"
             | _ -> add "unparsable-delivery")
        | _ -> ()) (split_on ',' (String.sub f 6 (String.length f - 6)))) (String.split_on_char ' ' impl);
  if !viol = [] then "ok" else String.concat "," (List.rev !viol)

(* ---------------------------------------------------------------- main *)

let split_arrow (line : string) : (string * string) option =
  let n = String.length line in
  let rec go i =
    if i + 4 > n then None
    else if String.sub line i 4 = " => " then Some (String.sub line 0 i, String.sub line (i + 4) (n - i - 4))
    else go (i + 1) in
  go 0

let () =
  let spec = Array.length Sys.argv > 1 && Sys.argv.(1) = "spec" in
  (try
    while true do
      let line = input_line stdin in
      if line <> "" then begin
        if spec then begin
          match split_arrow line with
          | Some (case, impl) ->
              (match String.split_on_char ' ' case with
               | "P" :: id :: fields -> Printf.printf "P %s %s\n" id (spec_p fields impl)
               | "S" :: id :: ops :: _ -> Printf.printf "S %s %s\n" id (spec_s ops impl)
               | "E" :: id :: _ -> Printf.printf "E %s %s\n" id (spec_e impl)
               | _ -> ())
          | None -> ()
        end else begin
          match String.split_on_char ' ' line with
          | "P" :: id :: fields -> Printf.printf "P %s %s\n" id (run_p fields)
          | "S" :: id :: ops :: _ -> Printf.printf "S %s %s\n" id (run_s ops)
          | "S" :: id :: [] -> Printf.printf "S %s \n" id
          | "E" :: id :: fields -> Printf.printf "E %s %s\n" id (try predict_e fields with e -> "pred-error:" ^ Printexc.to_string e)
          | _ -> ()
        end
      end
    done
  with End_of_file -> ())
