(* Extraction of the C10 model and of the executable property clauses.  ExtrOcamlBasic only. *)
From RsM Require Import Lib.MachInt Model.Dedup Model.Mrp Model.Exchange Model.ExchangeSpec Model.ExchangeTx.
Require Import ExtrOcamlBasic.
Extraction Language OCaml.
Extraction "model.ml"
  N.add N.mul N.div_eucl N.eqb
  rm_new post_recv session_post_recv sys_init step owner_of find_sid
  post_recv_ok sessions_lifecycle_b deliver_ok sweep_orphan_ok sweep_accept_ok close_ok accept_ok rx_ok
  unowned delivery_matches drop_ok peer_close_ok group_sessions_ok is_pending is_owned is_dropped
  sysx_init stepx.
