(* Line-oriented driver for the C08 model (fail-safe automaton + key-value store).
   stdin: case lines  "S <id> <wnfp> <op>,<op>,..."  /  "H <id>"
   stdout: the same canonical lines the harness prints from the real code.
   argv[1] = "spec": monitor mode - stdin carries, per case, the case line followed by the
   IMPLEMENTATION's output line; the extracted [monitor] is evaluated on the implementation's
   own observations and one verdict line per case is printed. *)
open Model
open Util

let n = n_of_string
let s_of_n = string_of_n

let parse_sess c = match c with
  | 'p' -> SP
  | d -> SC (n_of_int (Char.code d - 48))

let parse_op (t : string) : op =
  match t.[0] with
  | 'T' -> OTimeout
  | 'X' -> ORestart
  | 'P' -> ONewPase
  | 'E' -> ONewCase (n_of_int (Char.code t.[1] - 48))
  | kind ->
    let s = parse_sess t.[1] in
    let rest = if String.length t > 3 then split_on ':' (String.sub t 3 (String.length t - 3)) else [] in
    let a i = List.nth rest i in
    (match kind with
     | 'A' -> OArm (s, n (a 0), n (a 1))
     | 'C' -> OCsr (s, a 0 = "1")
     | 'R' -> ORoot (s, n (a 0))
     | 'N' -> OAddNoc (s, n (a 0))
     | 'U' -> OUpdNoc (s, n (a 0))
     | 'L' -> OAclW (s, n (a 0), a 1 = "1")
     | 'B' -> OLabel (s, n (a 0), a 1 = "1")
     | 'I' -> OVid (s, N.add (n_of_int 65520) (n (a 0)), a 1 = "1")
     | 'W' -> ONetAdd (s, n (a 0), (if a 1 = "-" then None else Some (n (a 1))))
     | 'D' -> ONetDel (s, n (a 0))
     | 'K' -> OComplete (s, n (a 0))
     | 'Q' -> OCompleteCut (s, n (a 0))
     | 'V' -> ORevoke s
     | _ -> failwith ("bad op " ^ t))

let status_str = function
  | StOk -> "ok" | StGone -> "gone" | StAccess -> "access" | StFsReq -> "fsreq"
  | StBusy -> "busy" | StAuth -> "auth" | StFail -> "fail" | StConstraint -> "constraint"
  | StInvCmd -> "invcmd" | StMissingCsr -> "missingcsr" | StConflict -> "conflict"
  | StTableFull -> "tablefull" | StNotFound -> "notfound" | StBounds -> "bounds"
  | StIdNotFound -> "idnotfound" | StLabelConflict -> "labelconflict" | StCut j -> "cut" ^ s_of_n j

let fabric_str (f : fabric) =
  Printf.sprintf "%s:%s:%s:%s:%s:%s:%s" (s_of_n f.f_idx) (s_of_n f.f_root) (s_of_n f.f_nid) (s_of_n f.f_key)
    (String.concat "+" (List.map s_of_n f.f_acl)) (s_of_n f.f_label) (s_of_n f.f_vid)

let fabrics_str (l : fabric list) =
  let l = List.sort (fun a b -> compare (int_of_n a.f_idx) (int_of_n b.f_idx)) l in
  String.concat " " (List.map fabric_str l)

let nets_str (x : nets) =
  Printf.sprintf "%d:%s" (if x.n_managed then 1 else 0) (String.concat "+" (List.map s_of_n x.n_ids))

let state_str (st : state) =
  let fs = match st.s_fs with
    | Idle -> "idle"
    | Armed (f, fl) -> Printf.sprintf "a%s/%s" (s_of_n f) (s_of_n (fl_bits fl)) in
  let p = match st.s_pase with
    | PAbsent -> "-" | PLive f -> "L" ^ s_of_n f | PExpired f -> "E" ^ s_of_n f in
  let c = String.concat "" (List.map (fun f ->
      match cget (n_of_int f) st.s_case with
      | None -> "L" | Some true -> "E" | Some false -> "-") [1; 2; 3]) in
  Printf.sprintf "fs=%s bc=%s w=%d p=%s c=%s F[%s] N[%s] | F[%s] N[%s]"
    fs (s_of_n st.s_bc) (if st.s_win then 1 else 0) p c
    (fabrics_str st.s_fabs) (nets_str st.s_nets)
    (fabrics_str st.s_kv.k_fabs)
    (match st.s_kv.k_net with None -> "-" | Some x -> nets_str x)

let parse_init (s : string) =
  init_state (s.[0] = '1') (s.[1] = '1') (n_of_int (Char.code s.[2] - 48)) (s.[3] = '1')

let run_s (f : string list) =
  let st0 = parse_init (List.nth f 2) in
  let ops = match f with
    | _ :: _ :: _ :: o :: _ -> List.map parse_op (List.filter (fun x -> x <> "") (split_on ',' o))
    | _ -> [] in
  let (_, tr) = run st0 ops in
  String.concat ";" (List.map (fun (r, st) -> status_str r ^ "@" ^ state_str st) tr)

(* ------------------------------------------------------------------ monitor mode *)
(* parse the implementation's own observation back into the model's state type *)
let parse_fabric (s : string) : fabric =
  match split_on ':' s with
  | [i; r; nid; k; acl; l; v] ->
    { f_idx = n i; f_root = n r; f_nid = n nid; f_key = n k;
      f_acl = List.map n (List.filter (fun x -> x <> "") (split_on '+' acl));
      f_label = n l; f_vid = n v }
  | _ -> failwith ("bad fabric " ^ s)

let between (s : string) (pre : string) : string * string =
  (* s starts with pre ... "]" ; returns (inside, rest after "]") *)
  let lp = String.length pre in
  if String.length s < lp || String.sub s 0 lp <> pre then failwith ("expected " ^ pre ^ " in " ^ s);
  let j = String.index_from s lp ']' in
  (String.sub s lp (j - lp), String.sub s (j + 1) (String.length s - j - 1))

let parse_nets (s : string) : nets =
  match split_on ':' s with
  | m :: rest ->
    let ids = String.concat ":" rest in
    { n_managed = (m = "1"); n_ids = List.map n (List.filter (fun x -> x <> "") (split_on '+' ids)) }
  | _ -> failwith ("bad nets " ^ s)

let trim = String.trim

let parse_state (s : string) : state =
  (* fs=.. bc=.. w=.. p=.. F[..] N[..] | F[..] N[..] *)
  let i = String.index s 'F' in
  let head = split_on ' ' (trim (String.sub s 0 i)) in
  let get k = let pre = k ^ "=" in
    let x = List.find (fun t -> String.length t > String.length pre && String.sub t 0 (String.length pre) = pre) head in
    String.sub x (String.length pre) (String.length x - String.length pre) in
  let fs = let v = get "fs" in
    if v = "idle" then Idle
    else (match split_on '/' (String.sub v 1 (String.length v - 1)) with
          | [f; b] -> Armed (n f, fl_of_bits (n b))
          | _ -> failwith "bad fs") in
  let p = let v = get "p" in
    if v = "-" then PAbsent
    else if v.[0] = 'L' then PLive (n (String.sub v 1 (String.length v - 1)))
    else PExpired (n (String.sub v 1 (String.length v - 1))) in
  let rest = String.sub s i (String.length s - i) in
  let (rf, rest) = between rest "F[" in
  let (rn, rest) = between (trim rest) "N[" in
  let rest = trim rest in
  let rest = trim (String.sub rest 1 (String.length rest - 1)) in  (* drop '|' *)
  let (kf, rest) = between rest "F[" in
  let (kn, _) = between (trim rest) "N[" in
  let fabs x = List.map parse_fabric (List.filter (fun t -> t <> "") (split_on ' ' x)) in
  { s_fs = fs; s_bc = n (get "bc"); s_win = (get "w" = "1"); s_pase = p;
    s_fabs = fabs rf; s_nets = parse_nets rn;
    s_kv = { k_fabs = fabs kf; k_net = (if kn = "-" then None else Some (parse_nets kn)) };
    s_key = N0; s_root = N0; s_nkeys = N0;
    s_case = (let v = get "c" in
              List.concat (List.mapi (fun i ch ->
                match ch with
                | 'E' -> [(n_of_int (i + 1), true)]
                | '-' -> [(n_of_int (i + 1), false)]
                | _ -> []) (List.init (String.length v) (String.get v)))) }

let parse_status (s : string) : status =
  match s with
  | "ok" -> StOk | "gone" -> StGone | "access" -> StAccess | "fsreq" -> StFsReq
  | "busy" -> StBusy | "auth" -> StAuth | "fail" -> StFail | "constraint" -> StConstraint
  | "invcmd" -> StInvCmd | "missingcsr" -> StMissingCsr | "conflict" -> StConflict
  | "tablefull" -> StTableFull | "notfound" -> StNotFound | "bounds" -> StBounds
  | "idnotfound" -> StIdNotFound | "labelconflict" -> StLabelConflict
  | _ ->
    if String.length s > 3 && String.sub s 0 3 = "cut" then StCut (n (String.sub s 3 (String.length s - 3)))
    else StFail  (* any other error answer: a refusal *)

let verdict_names (v : n list) =
  String.concat "," (List.map (fun c -> match int_of_n c with
    | 1 -> "rollback-not-exact"
    | 2 -> "store-changed-under-failsafe"
    | 3 -> "commit-not-durable"
    | 4 -> "partial-commit"
    | 5 -> "refused-command-changed-state"
    | 6 -> "accepted-out-of-order"
    | 7 -> "accepted-from-other-context"
    | 8 -> "failed-complete-left-unrollbackable"
    | 9 -> "staged-change-orphaned-by-context-switch"
    | 10 -> "staged-change-stored-by-vid-statement"
    | 11 -> "flags-changed-without-credential-command"
    | k -> "clause" ^ string_of_int k) v)

let spec_case (case_line : string) (impl_line : string) =
  let f = split_on ' ' case_line in
  let id = List.nth f 1 in
  let st0 = parse_init (List.nth f 2) in
  let ops = match f with
    | _ :: _ :: _ :: o :: _ -> List.map parse_op (List.filter (fun x -> x <> "") (split_on ',' o))
    | _ -> [] in
  (* "S <id> <status>@<state>;..." *)
  let body =
    let k = String.index_from impl_line 2 ' ' in
    String.sub impl_line (k + 1) (String.length impl_line - k - 1) in
  let obs = List.map (fun t ->
      let j = String.index t '@' in
      (parse_status (String.sub t 0 j), parse_state (String.sub t (j + 1) (String.length t - j - 1))))
      (List.filter (fun x -> x <> "") (split_on ';' body)) in
  if List.length obs <> List.length ops then
    Printf.printf "S %s incomplete\n" id
  else begin
    let v = monitor st0 (List.combine ops obs) in
    Printf.printf "S %s %s\n" id (if v = [] then "ok" else verdict_names v)
  end

let () =
  let spec = Array.length Sys.argv > 1 && Sys.argv.(1) = "spec" in
  let pending = ref None in
  (try
    while true do
      let line = input_line stdin in
      if line <> "" then begin
        if spec then begin
          match !pending with
          | None -> if line.[0] = 'S' then pending := Some line
          | Some c ->
            pending := None;
            (try spec_case c line with e ->
               Printf.printf "S %s monitor-error:%s\n" (List.nth (split_on ' ' c) 1) (Printexc.to_string e))
        end else begin
          let f = split_on ' ' line in
          match List.hd f with
          | "S" -> Printf.printf "S %s %s\n" (List.nth f 1) (run_s f)
          | "H" -> Printf.printf "H %s maxfab=%s maxnet=%s\n" (List.nth f 1) (s_of_n max_fabrics_n) (s_of_n max_nets_n)
          | _ -> ()
        end
      end
    done
  with End_of_file -> ())
