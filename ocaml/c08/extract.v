(* Extraction of the C08 model and its executable specification.  ExtrOcamlBasic only:
   bool, option, list, prod, unit, sumbool map to OCaml's; N / positive / nat stay inductive. *)
From Coq Require Import NArith.
From RsM Require Import Model.Failsafe Model.FailsafeSpec.
Require Import ExtrOcamlBasic.
Extraction Language OCaml.
Extraction "model.ml"
  N.add N.mul N.div_eucl
  step run init_state cget fl_bits fl_of_bits
  monitor max_fabrics_n max_nets_n.
