(* Extraction of the C03 model and monitors.  ExtrOcamlBasic only. *)
From RsM Require Import Lib.MachInt Model.Headers Model.Dedup Model.Mrp Model.Exchange Model.Packet Model.PacketSpec.
Require Import ExtrOcamlBasic.
Extraction Language OCaml.
Extraction "model.ml"
  N.add N.mul N.div_eucl
  plain_new proto_new plain_encode proto_encode plain_decode
  rx_unsynced rm_new gstore_new
  decode_packet pre_send session_encode sealed_term nonce
  swap_remove set_sessions
  auth_check mon_decode mon_roundtrip mk_observation adjust_rel addr_reliable.
