(* Line-oriented driver for the C03 model: reads case lines, prints one
   canonical line per case (same format as harness/src/bin/c03.rs; the formats
   are described there).
   argv[1] = "spec": monitor mode.  Input lines are `<case line> @ <the
   implementation's output tokens>`; the extracted property (mon_decode /
   mon_roundtrip of Model/PacketSpec.v) is evaluated on what the implementation
   did, from the base state the implementation reported.  Output `<kind> <id> 1`
   or `<kind> <id> 0 <where>`. *)
open Model
open Util

let rec nat_of_int (i : int) : nat = if i <= 0 then O else S (nat_of_int (i - 1))
let rec int_of_nat (n : nat) : int = match n with O -> 0 | S k -> 1 + int_of_nat k

(* ---------------------------------------------------------------- bytes *)
let hexval c =
  match c with
  | '0' .. '9' -> Char.code c - 48
  | 'a' .. 'f' -> Char.code c - 87
  | 'A' .. 'F' -> Char.code c - 55
  | _ -> failwith "bad hex"

let byte_tbl : n array = Array.init 256 n_of_int

let ints_of_hex (s : string) : int list =
  let n = String.length s / 2 in
  List.init n (fun i -> 16 * hexval s.[2 * i] + hexval s.[2 * i + 1])

let bytes_of_ints (l : int list) : n list = List.map (fun b -> byte_tbl.(b)) l
let bytes_of_hex (s : string) : n list = if s = "-" then [] else bytes_of_ints (ints_of_hex s)

let hex_of_bytes (l : n list) : string =
  let b = Buffer.create (2 * List.length l) in
  List.iter (fun x -> Buffer.add_string b (Printf.sprintf "%02x" (int_of_n x))) l;
  Buffer.contents b

(* ---------------------------------------------------------------- parsing *)
let parse_addr (s : string) : addr =
  match String.split_on_char '.' s with
  | [k; v6; ip; port] ->
      { a_kind = n_of_string k; a_v6 = (v6 = "1"); a_ip = n_of_string ip; a_port = n_of_string port }
  | _ -> failwith ("bad addr " ^ s)

let show_addr (a : addr) : string =
  Printf.sprintf "%s.%d.%s.%s" (string_of_n a.a_kind) (if a.a_v6 then 1 else 0)
    (string_of_n a.a_ip) (string_of_n a.a_port)

let parse_mode (s : string) : smode =
  let rest = String.sub s 1 (String.length s - 1) in
  match s.[0] with
  | 'P' -> MPlain
  | 'A' -> MPase (n_of_string rest)
  | 'C' -> MCase (n_of_string rest)
  | _ ->
      (match String.split_on_char '.' rest with
       | [f; g] -> MGroup (n_of_string f, n_of_string g)
       | _ -> failwith "bad mode")

let show_mode = function
  | MPlain -> "P"
  | MPase f -> "A" ^ string_of_n f
  | MCase f -> "C" ^ string_of_n f
  | MGroup (f, g) -> "G" ^ string_of_n f ^ "." ^ string_of_n g

let role_of (r : char) (s : char) : role =
  match r, s with
  | 'I', 'd' -> InitDropped
  | 'I', _ -> InitOwned
  | _, 'd' -> RespDropped
  | _, 'p' -> RespPending
  | _, _ -> RespOwned

let show_role = function
  | InitOwned -> "I/o" | InitDropped -> "I/d"
  | RespPending -> "R/p" | RespOwned -> "R/o" | RespDropped -> "R/d"

let parse_slot (t : string) : exch option =
  if t = "_" then None
  else match String.split_on_char '/' t with
    | [id; r; s; retr; ack] ->
        let retr = if retr = "-" then None
          else Some { r_base = n_of_int 300; r_ctr = n_of_string retr; r_count = N0 } in
        let ack =
          if ack = "-" then None
          else if ack.[String.length ack - 1] = '+' then
            Some { a_ctr = n_of_string (String.sub ack 0 (String.length ack - 1)); a_acked = true }
          else Some { a_ctr = n_of_string ack; a_acked = false } in
        Some { e_id = n_of_string id; e_role = role_of r.[0] s.[0];
               e_mrp = { rm_retr = retr; rm_ack = ack; rm_received = false }; e_rat = N0 }
    | _ -> failwith ("bad slot " ^ t)

let show_slot = function
  | None -> "_"
  | Some e ->
      Printf.sprintf "%s/%s/%s/%s" (string_of_n e.e_id) (show_role e.e_role)
        (match e.e_mrp.rm_retr with Some r -> string_of_n r.r_ctr | None -> "-")
        (match e.e_mrp.rm_ack with
         | Some a -> string_of_n a.a_ctr ^ (if a.a_acked then "+" else "")
         | None -> "-")

(* a session whose counter is printed as `?` is parsed with counter 0 and flagged *)
let parse_sess (idx : int) (s : string) : psess =
  match String.split_on_char ':' s with
  | [mode; addr; lnode; pnode; deck; enck; lsid; psid; ctr; win; flags; exchs] ->
      let w = String.split_on_char '.' win in
      { ps_id = n_of_int idx;
        ps_addr = parse_addr addr;
        ps_local_node = n_of_string lnode;
        ps_peer_node = (if pnode = "-" then None else Some (n_of_string pnode));
        ps_dec_key = n_of_string deck;
        ps_enc_key = n_of_string enck;
        ps_local_sid = n_of_string lsid;
        ps_peer_sid = n_of_string psid;
        ps_msg_ctr = (if ctr = "?" then N0 else n_of_string ctr);
        ps_win = { synced = (List.nth w 0 = "1"); max_ctr = n_of_string (List.nth w 1);
                   bitmap = n_of_string (List.nth w 2) };
        ps_mode = parse_mode mode;
        ps_exchs = (if exchs = "-" then [] else List.map parse_slot (String.split_on_char ',' exchs));
        ps_expired = (flags.[0] = '1');
        ps_reserved = (flags.[1] = '1') }
  | _ -> failwith ("bad session " ^ s)

let show_sess (hide_ctr : bool) (s : psess) : string =
  Printf.sprintf "%s:%s:%s:%s:%s:%s:%s:%s:%s:%d.%s.%s:%d%d:%s"
    (show_mode s.ps_mode) (show_addr s.ps_addr) (string_of_n s.ps_local_node)
    (match s.ps_peer_node with Some v -> string_of_n v | None -> "-")
    (string_of_n s.ps_dec_key) (string_of_n s.ps_enc_key)
    (string_of_n s.ps_local_sid) (string_of_n s.ps_peer_sid)
    (if hide_ctr then "?" else string_of_n s.ps_msg_ctr)
    (if s.ps_win.synced then 1 else 0) (string_of_n s.ps_win.max_ctr) (string_of_n s.ps_win.bitmap)
    (if s.ps_expired then 1 else 0) (if s.ps_reserved then 1 else 0)
    (if s.ps_exchs = [] then "-" else String.concat "," (List.map show_slot s.ps_exchs))

let parse_list (s : string) (f : int -> string -> 'a) : 'a list =
  if s = "-" then [] else List.mapi f (String.split_on_char ';' s)

let parse_group (_ : int) (s : string) : gcand =
  match String.split_on_char ':' s with
  | [fab; node; gid; key; sid] ->
      { gc_fab = n_of_string fab; gc_node = n_of_string node; gc_gid = n_of_string gid;
        gc_key = n_of_string key; gc_sid = n_of_string sid }
  | _ -> failwith ("bad group " ^ s)

let parse_entry (_ : int) (s : string) : term * n list =
  match String.split_on_char ':' s with
  | [k; nonce; aad; pt; ct] ->
      (Aead (n_of_string k, bytes_of_hex nonce, bytes_of_hex aad, bytes_of_hex pt), bytes_of_hex ct)
  | _ -> failwith ("bad world entry " ^ s)

let parse_oracle (s : string) : oracle =
  match String.split_on_char '.' s with
  | [r; e] -> { or_rand = n_of_string r;
                or_evict = (if e = "-" then None else Some (nat_of_int (int_of_string e))) }
  | _ -> failwith "bad oracle"

let show_gstore (g : gstore) : string =
  let es = List.map (fun e ->
    Printf.sprintf "%s.%s.%s.%s.%s" (string_of_n e.g_fab) (string_of_n e.g_node)
      (string_of_n e.g_rx.max_ctr) (string_of_n e.g_rx.bitmap) (string_of_n e.g_last)) g.g_entries in
  (if es = [] then "-" else String.concat "," es) ^ "/" ^ string_of_n g.g_clock

(* `<entries>/<clock>` back into a store (monitor mode only needs it to exist) *)
let parse_gstore (s : string) : gstore =
  match String.split_on_char '/' s with
  | [es; clock] ->
      let entries =
        if es = "-" then []
        else List.map (fun e ->
          match String.split_on_char '.' e with
          | [fab; node; mx; bm; last] ->
              { g_fab = n_of_string fab; g_node = n_of_string node;
                g_rx = { synced = true; max_ctr = n_of_string mx; bitmap = n_of_string bm };
                g_last = n_of_string last }
          | _ -> failwith "bad gstore entry") (String.split_on_char ',' es) in
      { g_entries = entries; g_clock = n_of_string clock }
  | _ -> failwith ("bad gstore " ^ s)

(* sessions that were not in the case's specification (unique id >= n_spec) were created by
   the receive path: their message counter starts at random and is printed as `?` *)
let show_state (st : pstate) (n_spec : int) : string =
  let ss = List.map (fun s -> show_sess (int_of_n s.ps_id >= n_spec) s) st.st_sessions in
  (if ss = [] then "-" else String.concat ";" ss) ^ "|" ^ show_gstore st.st_gstore

let parse_state (s : string) (groups : gcand list) : pstate =
  match String.split_on_char '|' s with
  | [ss; gs] ->
      { st_sessions = parse_list ss parse_sess; st_groups = groups; st_gstore = parse_gstore gs;
        st_next_id = n_of_int 100 }
  | _ -> failwith ("bad state " ^ s)

let show_hdr (p : plain_hdr) (x : proto_hdr) : string =
  Printf.sprintf "%s.%s.%s.%s.%s.%s;%s.%s.%s.%s.%s.%s"
    (string_of_n p.p_flags) (string_of_n p.p_sess) (string_of_n p.p_sec) (string_of_n p.p_ctr)
    (string_of_n p.p_src) (string_of_n p.p_dst)
    (string_of_n x.x_exch) (string_of_n x.x_flags) (string_of_n x.x_proto) (string_of_n x.x_opcode)
    (string_of_n x.x_vendor) (string_of_n x.x_ack)

let parse_hdr (s : string) : plain_hdr * proto_hdr =
  match String.split_on_char ';' s with
  | [p; x] ->
      let pn = List.map n_of_string (String.split_on_char '.' p) in
      let xn = List.map n_of_string (String.split_on_char '.' x) in
      let g l i = List.nth l i in
      ({ p_flags = g pn 0; p_sess = g pn 1; p_sec = g pn 2; p_ctr = g pn 3; p_src = g pn 4; p_dst = g pn 5 },
       { x_exch = g xn 0; x_flags = g xn 1; x_proto = g xn 2; x_opcode = g xn 3; x_vendor = g xn 4;
         x_ack = g xn 5 })
  | _ -> failwith ("bad header " ^ s)

(* ---------------------------------------------------------------- verdicts *)
let class_of (v : verdict) : char =
  let ec e = if int_of_n e = 1 then 'T' else if int_of_n e = 2 then 'I' else '?' in
  match v with
  | RejPlain e -> ec e
  | RejNoSession -> 'N'
  | RejAuth -> 'D'
  | RejGroupAuth -> 'S'
  | RejProto e -> ec e
  | RejGroupMalformed -> 'D'
  | RejTooBig -> 'B'
  | RejGroupDup -> 'U'
  | RejNoSpace -> 'Z'
  | Routed (_, Ok b) -> if b then 'K' else 'k'
  | Routed (_, Err c) ->
      (match int_of_n c with 2 -> 'U' | 3 -> 'E' | 4 -> 'N' | 5 -> 'X' | _ -> '?')
  | Routed (_, Panic _) -> '!'

let is_ok (v : verdict) = match v with Routed (_, Ok _) -> true | _ -> false

(* ---------------------------------------------------------------- mutations *)
let ext_bytes (n : int) : int list = List.init n (fun i -> 0xA5 lxor ((i * 29) land 0xff))

let flip (w : int array) (bit : int) : int list =
  let c = Array.copy w in
  c.(bit / 8) <- c.(bit / 8) lxor (1 lsl (bit mod 8));
  Array.to_list c

let truncate (w : int array) (len : int) : int list = Array.to_list (Array.sub w 0 len)

(* one mutation = one datagram and source address, or a family of datagrams *)
type mutation = Single of addr * int list | Family of int list list

let mutation_of (from : addr) (w : int array) (m : string) : mutation =
  let rest = String.sub m 1 (String.length m - 1) in
  match m.[0] with
  | '-' -> Single (from, Array.to_list w)
  | 'f' -> Single (from, flip w (int_of_string rest))
  | 't' -> Single (from, truncate w (int_of_string rest))
  | 'x' -> Single (from, Array.to_list w @ ints_of_hex rest)
  | 'w' -> Single (from, ints_of_hex rest)
  | 'a' -> Single (parse_addr rest, Array.to_list w)
  | 'F' -> Family (List.init (Array.length w * 8) (fun b -> flip w b))
  | 'T' -> Family (List.init (Array.length w) (fun l -> truncate w l))
  | 'X' -> Family (List.init 16 (fun i -> Array.to_list w @ ext_bytes (i + 1)))
  | _ -> failwith ("bad mutation " ^ m)

(* ---------------------------------------------------------------- model run *)
let decode_token (world : world) (o : oracle) (st : pstate) (n_spec : int) (base_show : string)
    (from : addr) (wire : int list) : char * string =
  let (st', out) = decode_packet world o st from (bytes_of_ints wire) in
  let c = class_of out.o_verdict in
  let fields =
    if is_ok out.o_verdict then
      Printf.sprintf "[%s;%s]" (show_hdr out.o_plain out.o_proto) (hex_of_bytes out.o_payload)
    else "" in
  let after = show_state st' n_spec in
  let same = (after = base_show) in
  let stt = if same then "=" else "!" ^ after in
  let special = is_ok out.o_verdict || not same in
  ((if special then '*' else c), Printf.sprintf "%c%s%s" c fields stt)

let run_prelude (world : world) (o : oracle) (st : pstate) (from : addr) (pre : string) : pstate =
  if pre = "-" then st
  else List.fold_left (fun st t ->
    let rest = String.sub t 1 (String.length t - 1) in
    match t.[0] with
    | 'w' -> fst (decode_packet world o st from (bytes_of_hex rest))
    | 'r' ->
        let k = int_of_string rest in
        if k < List.length st.st_sessions then
          set_sessions st (swap_remove st.st_sessions (nat_of_int k))
        else st
    | _ -> failwith "bad prelude") st (String.split_on_char ',' pre)

let base_state (sessions : string) (groups : string) : pstate =
  let ss = parse_list sessions parse_sess in
  { st_sessions = ss; st_groups = parse_list groups parse_group; st_gstore = gstore_new;
    st_next_id = n_of_int (List.length ss) }

let run_muts (world : world) (o : oracle) (st : pstate) (n_spec : int) (from : addr)
    (wire : int array) (muts : string) : string list =
  let base_show = show_state st n_spec in
  List.map (fun m ->
    match mutation_of from wire m with
    | Single (a, w) -> snd (decode_token world o st n_spec base_show a w)
    | Family ws ->
        let chars = Buffer.create (List.length ws) in
        let details = Buffer.create 16 in
        List.iteri (fun i w ->
          let (c, tok) = decode_token world o st n_spec base_show from w in
          Buffer.add_char chars c;
          if c = '*' then Buffer.add_string details (Printf.sprintf "@%d:%s" i tok)) ws;
        Buffer.contents chars ^ Buffer.contents details)
    (String.split_on_char ',' muts)

let run_d (f : string array) : string =
  let world = parse_list f.(2) parse_entry in
  let st0 = base_state f.(3) f.(4) in
  let from = parse_addr f.(5) in
  let o = parse_oracle f.(6) in
  let st = run_prelude world o st0 from f.(7) in
  let wire = Array.of_list (if f.(8) = "-" then [] else ints_of_hex f.(8)) in
  let n_spec = List.length st0.st_sessions in
  let base_show = show_state st n_spec in
  String.concat " " (("D " ^ f.(1)) :: ("^" ^ base_show) :: run_muts world o st n_spec from wire f.(9))

let err_char (c : n) : char =
  match int_of_n c with 1 -> 'O' | 4 -> 'V' | 5 -> 'W' | _ -> '?'

(* the protocol header write_packet hands to pre_send: MessageMeta::set_into a new header *)
let tx_proto (pid : string) (opcode : string) (rel : bool) : proto_hdr =
  { x_exch = N0; x_flags = (if rel then n_of_int 4 else N0); x_proto = n_of_string pid;
    x_opcode = n_of_string opcode; x_vendor = N0; x_ack = N0 }

let run_r (f : string array) : string =
  let world = parse_list f.(2) parse_entry in
  let sender = parse_sess 0 f.(3) in
  let ei = if f.(4) = "-" then None else Some (nat_of_int (int_of_string f.(4))) in
  let gctr = if f.(5) = "-" then None else Some (n_of_string f.(5)) in
  let x = tx_proto f.(6) f.(7) (f.(8) = "1") in
  let payload = bytes_of_hex f.(9) in
  let st = base_state f.(10) f.(11) in
  let from = parse_addr f.(12) in
  let o = parse_oracle f.(13) in
  let (s', r) = pre_send sender ei gctr None x in
  match r with
  | Err c -> Printf.sprintf "R %s err:%c" f.(1) (err_char c)
  | Panic _ -> Printf.sprintf "R %s err:!" f.(1)
  | Ok (p, x') ->
      (match session_encode world s' p x' payload with
       | Err c -> Printf.sprintf "R %s err:%c" f.(1) (err_char c)
       | Panic _ -> Printf.sprintf "R %s err:!" f.(1)
       | Ok wire ->
           let n_spec = List.length st.st_sessions in
           let base_show = show_state st n_spec in
           let (_, tok) = decode_token world o st n_spec base_show from (List.map int_of_n wire) in
           Printf.sprintf "R %s tx[%s] %s %s ^%s %s" f.(1) (show_hdr p x') (hex_of_bytes wire)
             (show_sess false s') base_show tok)

(* E <id> <world> <session> <plain;proto> <payload>: Session::encode of an arbitrary header *)
let run_e (f : string array) : string =
  let world = parse_list f.(2) parse_entry in
  let s = parse_sess 0 f.(3) in
  let (p, x) = parse_hdr f.(4) in
  match session_encode world s p x (bytes_of_hex f.(5)) with
  | Ok wire -> Printf.sprintf "E %s %s" f.(1) (hex_of_bytes wire)
  | Err c -> Printf.sprintf "E %s err:%c" f.(1) (err_char c)
  | Panic _ -> Printf.sprintf "E %s err:!" f.(1)

(* ---------------------------------------------------------------- monitor *)

(* `<class>[<fields>]<state>` *)
type token = { t_class : char; t_fields : (plain_hdr * proto_hdr * n list) option; t_state : string option }

let parse_token (t : string) : token =
  let c = t.[0] in
  let rest = String.sub t 1 (String.length t - 1) in
  let (fields, rest) =
    if String.length rest > 0 && rest.[0] = '[' then begin
      let close = String.index rest ']' in
      let inner = String.sub rest 1 (close - 1) in
      let after = String.sub rest (close + 1) (String.length rest - close - 1) in
      (* plain;proto;payload *)
      let i2 = String.rindex inner ';' in
      let hdr = String.sub inner 0 i2 in
      let pl = String.sub inner (i2 + 1) (String.length inner - i2 - 1) in
      let (p, x) = parse_hdr hdr in
      (Some (p, x, bytes_of_hex (if pl = "" then "-" else pl)), after)
    end else (None, rest) in
  let state =
    if rest = "=" then None
    else if String.length rest > 0 && rest.[0] = '!' then Some (String.sub rest 1 (String.length rest - 1))
    else failwith ("bad token state " ^ t) in
  { t_class = c; t_fields = fields; t_state = state }

let observation_of (before : pstate) (groups : gcand list) (tk : token) : observation =
  let after_st = match tk.t_state with
    | None -> before
    | Some s -> parse_state s groups in
  let after = after_st.st_sessions in
  let gstore_changed = (show_gstore after_st.st_gstore <> show_gstore before.st_gstore) in
  let ok = match tk.t_class with 'K' -> Some true | 'k' -> Some false | _ -> None in
  let (p, x, pl) = match tk.t_fields with
    | Some v -> v
    | None -> (plain_new, proto_new, []) in
  mk_observation ok p x pl before.st_sessions after gstore_changed

let split_details (tok : string) : string * (int * string) list =
  match String.split_on_char '@' tok with
  | [] -> ("", [])
  | chars :: ds ->
      (chars, List.map (fun d ->
         let i = String.index d ':' in
         (int_of_string (String.sub d 0 i), String.sub d (i + 1) (String.length d - i - 1))) ds)

let reject_token (c : char) : token = { t_class = c; t_fields = None; t_state = None }

let spec_d (f : string array) (impl : string list) : string =
  let world = parse_list f.(2) parse_entry in
  let groups = parse_list f.(4) parse_group in
  let from = parse_addr f.(5) in
  let wire = Array.of_list (if f.(8) = "-" then [] else ints_of_hex f.(8)) in
  match impl with
  | base :: toks when String.length base > 0 && base.[0] = '^' ->
      let before = parse_state (String.sub base 1 (String.length base - 1)) groups in
      let muts = String.split_on_char ',' f.(9) in
      if List.length muts <> List.length toks then Printf.sprintf "D %s 0 token-count" f.(1)
      else begin
        let bad = ref None in
        let check (desc : string) (a : addr) (w : int list) (tk : token) =
          if !bad = None then begin
            let ob = observation_of before groups tk in
            if not (mon_decode world before a (bytes_of_ints w) ob) then bad := Some desc
          end in
        List.iter2 (fun m tok ->
          match mutation_of from wire m with
          | Single (a, w) -> check m a w (parse_token tok)
          | Family ws ->
              let (chars, details) = split_details tok in
              if String.length chars <> List.length ws then
                (if !bad = None then bad := Some (m ^ ":length"))
              else
                List.iteri (fun i w ->
                  let c = chars.[i] in
                  let tk = if c = '*' then
                      (match List.assoc_opt i details with
                       | Some d -> parse_token d
                       | None -> { t_class = '?'; t_fields = None; t_state = Some "-|-/0" })
                    else reject_token c in
                  check (Printf.sprintf "%s#%d" m i) from w tk) ws)
          muts toks;
        match !bad with
        | None -> Printf.sprintf "D %s 1" f.(1)
        | Some d -> Printf.sprintf "D %s 0 %s" f.(1) d
      end
  | _ -> Printf.sprintf "D %s 0 no-base-state" f.(1)

let spec_r (f : string array) (impl : string list) : string =
  let world = parse_list f.(2) parse_entry in
  let groups = parse_list f.(11) parse_group in
  let from = parse_addr f.(12) in
  let payload = bytes_of_hex f.(9) in
  match impl with
  | [e] when String.length e >= 4 && String.sub e 0 4 = "err:" ->
      (* the sender refused: nothing was sent, nothing to compare *)
      Printf.sprintf "R %s 1" f.(1)
  | [tx; wire; _after; base; tok] ->
      let hdr = String.sub tx 3 (String.length tx - 4) in
      let (p, x) = parse_hdr hdr in
      let before = parse_state (String.sub base 1 (String.length base - 1)) groups in
      let ob = observation_of before groups (parse_token tok) in
      (* the receiving transport is the one the datagram came in on *)
      if not (mon_roundtrip (addr_reliable from) p x payload ob) then Printf.sprintf "R %s 0 roundtrip" f.(1)
      (* and what the sender put on the wire must itself be an honest sealing for the receiver *)
      else if not (mon_decode world before from (bytes_of_hex wire) ob) then Printf.sprintf "R %s 0 unauthentic" f.(1)
      else Printf.sprintf "R %s 1" f.(1)
  | _ -> Printf.sprintf "R %s 0 shape" f.(1)

let () =
  let spec_mode = Array.length Sys.argv > 1 && Sys.argv.(1) = "spec" in
  try
    while true do
      let line = input_line stdin in
      let (case, impl) =
        let n = String.length line in
        let rec find i =
          if i + 3 > n then None
          else if line.[i] = ' ' && line.[i + 1] = '@' && line.[i + 2] = ' ' then Some i
          else find (i + 1) in
        match find 0 with
        | Some i -> (String.sub line 0 i, String.split_on_char ' ' (String.sub line (i + 3) (n - i - 3)))
        | None -> (line, []) in
      let f = Array.of_list (String.split_on_char ' ' case) in
      let out =
        try
          if Array.length f = 10 && f.(0) = "D" then
            Some (if spec_mode then spec_d f impl else run_d f)
          else if Array.length f = 14 && f.(0) = "R" then
            Some (if spec_mode then spec_r f impl else run_r f)
          else if Array.length f = 6 && f.(0) = "E" then
            (* the encoder has no monitor of its own: it is tied by equality with the model, and the
               datagrams it produces are judged by the receiving side (R lines) *)
            Some (if spec_mode then Printf.sprintf "E %s 1" f.(1) else run_e f)
          else None
        with Failure msg | Invalid_argument msg ->
          Some (Printf.sprintf "%s %s DRIVER-ERROR:%s" f.(0) f.(1)
                  (String.map (fun c -> if c = ' ' then '_' else c) msg))
        | Not_found -> Some (Printf.sprintf "%s %s DRIVER-ERROR:not_found" f.(0) f.(1)) in
      match out with Some s -> print_endline s | None -> ()
    done
  with End_of_file -> ()
