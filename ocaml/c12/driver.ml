(* Line-oriented driver for the C12 model: reads cases, prints one
   canonical line per case (same format as the harness' output).
   argv[1] = "spec": monitor mode - reads the IMPLEMENTATION's output
   lines and evaluates the extracted executable property on them. *)
open Model

(* ---- numbers: unsigned 64-bit decimal <-> extracted N (no division on N) *)
let n_of_i64 (x : int64) : n =
  if x = 0L then N0 else
  let rec go (x : int64) : positive =
    let hi = Int64.shift_right_logical x 1 in
    if hi = 0L then XH
    else if Int64.logand x 1L = 0L then XO (go hi) else XI (go hi) in
  Npos (go x)

let i64_of_n (x : n) : int64 =
  match x with
  | N0 -> 0L
  | Npos p ->
      let rec go (p : positive) (depth : int) : int64 =
        if depth > 64 then failwith "model value above 64 bits" else
        match p with
        | XH -> 1L
        | XO q -> Int64.shift_left (go q (depth + 1)) 1
        | XI q -> Int64.logor (Int64.shift_left (go q (depth + 1)) 1) 1L in
      go p 1

let n_of_dec (s : string) : n = n_of_i64 (Int64.of_string ("0u" ^ s))
let dec_of_n (x : n) : string = Printf.sprintf "%Lu" (i64_of_n x)

let kv_of_str (s : string) : n option = if s = "-" then None else Some (n_of_dec s)
let kv_str (k : n option) : string = match k with None -> "-" | Some b -> dec_of_n b

(* ---- schedules: tokens separated by ',', repetition  N*(a.b.c) *)
let expand (s : string) : string list =
  if s = "" || s = "-" then [] else
  List.concat_map (fun tok ->
    match String.index_opt tok '*' with
    | Some i when tok.[String.length tok - 1] = ')' ->
        let n = int_of_string (String.sub tok 0 i) in
        let body = String.sub tok (i + 2) (String.length tok - i - 3) in
        let sub = String.split_on_char '.' body in
        List.concat (List.init n (fun _ -> sub))
    | _ -> [tok]) (String.split_on_char ',' s)

let rest (tok : string) : string = String.sub tok 1 (String.length tok - 1)

(* ---- events *)
let ev_str (e : cev) : string =
  match e with
  | EvNop -> "n"
  | EvYield (v, kv) -> "y" ^ dec_of_n v ^ "@" ^ kv_str kv
  | EvPend b -> "p" ^ dec_of_n b
  | EvFail -> "f"
  | EvDone -> "d"
  | EvBoot -> "b"

let ev_of_str (s : string) : cev =
  match s.[0] with
  | 'n' -> EvNop
  | 'f' -> EvFail
  | 'd' -> EvDone
  | 'b' -> EvBoot
  | 'p' -> EvPend (n_of_dec (rest s))
  | 'y' ->
      let body = rest s in
      let i = String.index body '@' in
      EvYield (n_of_dec (String.sub body 0 i),
               kv_of_str (String.sub body (i + 1) (String.length body - i - 1)))
  | _ -> failwith ("bad event: " ^ s)

(* FNV-style digest, same as harness/src/lib.rs Digest *)
let digest_init = 0xcbf29ce484222325L
let digest_push (h : int64) (x : int64) : int64 =
  Int64.mul (Int64.logxor h x) 0x00000100000001b3L
let digest_kv h (k : n option) =
  match k with None -> digest_push h 0L | Some b -> digest_push (digest_push h 1L) (i64_of_n b)
let digest_ev (h : int64) (e : cev) : int64 =
  match e with
  | EvNop -> digest_push h 10L
  | EvYield (v, kv) -> digest_kv (digest_push (digest_push h 11L) (i64_of_n v)) kv
  | EvPend b -> digest_push (digest_push h 12L) (i64_of_n b)
  | EvFail -> digest_push h 13L
  | EvDone -> digest_push h 14L
  | EvBoot -> digest_push h 15L

(* ---- the three machines *)
let gop_of (tok : string) : gop =
  match tok.[0] with
  | 'r' -> GReserve (n_of_dec (rest tok))
  | 's' -> GSync (n_of_dec (rest tok))
  | 'o' -> GStore true
  | 'f' -> GStore false
  | 'c' -> GCrash
  | 't' -> GReset
  | _ -> failwith ("bad group op: " ^ tok)

let g_final (s : gstate) : string =
  Printf.sprintf "%s %s %s %s" (dec_of_n s.gs_ram.g_ctr) (dec_of_n s.gs_ram.g_bnd) (kv_str s.gs_kv)
    (match s.gs_pend with None -> "-" | Some (v, b) -> dec_of_n v ^ ":" ^ dec_of_n b)

let eop_of (tok : string) : eop =
  match tok with
  | "po" -> EPush true
  | "pf" -> EPush false
  | "c" -> ECrash
  | _ -> failwith ("bad event op: " ^ tok)

let e_final (s : estate) : string = Printf.sprintf "%s %s" (dec_of_n s.e_next) (kv_str s.e_kv)

let kop_of (tok : string) : kop =
  match tok.[0] with
  | 's' -> KSend (tok = "so")
  | 'p' -> KPersist (tok = "po")
  | 'i' -> KInvalidate (n_of_dec (rest tok))
  | 'c' -> KCrash (n_of_dec (rest tok))
  | _ -> failwith ("bad check-in op: " ^ tok)

let k_final (s : kstate) : string =
  (* "bare=ok": the harness drives a bare CheckInCounter next to the Icd and prints a difference here *)
  Printf.sprintf "%s %s %s bare=ok" (dec_of_n (c_next s.k_ctr)) (kv_str s.k_kv) (dec_of_n (c_persist_value s.k_ctr))

let buf = Buffer.create 65536

let out_events (evs : cev list) =
  (* evs is in reverse order *)
  let first = ref true in
  List.iter (fun e ->
    if not !first then Buffer.add_char buf ',';
    first := false;
    Buffer.add_string buf (ev_str e)) (List.rev evs)

let flush_line () =
  Buffer.add_char buf '\n';
  print_string (Buffer.contents buf);
  Buffer.clear buf

let run_model (line : string) =
  match String.split_on_char ' ' line with
  | [("G" | "g") as k; id; kv0; ops] ->
      let s = ref (g_init (kv_of_str kv0)) and evs = ref [] in
      List.iter (fun tok ->
        let (s', e) = g_step true !s (gop_of tok) in
        s := s'; evs := e :: !evs) (expand ops);
      Buffer.add_string buf (k ^ " " ^ id ^ " ");
      out_events !evs;
      Buffer.add_string buf (" | " ^ g_final !s);
      flush_line ()
  | [("X" | "x") as k; id; kv0; ops] ->
      (* real initiate_group calls: I<rand>o / I<rand>f = reserve, then the store (if one is due) *)
      let s = ref (g_init (kv_of_str kv0)) and evs = ref [] in
      List.iter (fun tok ->
        if tok = "c" then begin
          let (s', e) = g_step true !s GCrash in s := s'; evs := e :: !evs
        end else if tok = "t" then begin
          let (s', e) = g_step true !s GReset in s := s'; evs := e :: !evs
        end else if tok.[0] = 's' then begin
          let (s', e) = g_step true !s (GSync (n_of_dec (rest tok))) in s := s'; evs := e :: !evs
        end else begin
          let n = String.length tok in
          let r = n_of_dec (String.sub tok 1 (n - 2)) and ok = tok.[n - 1] = 'o' in
          let (s1, e1) = g_step true !s (GReserve r) in
          match e1 with
          | EvPend _ ->
              let (s2, e2) = g_step true s1 (GStore ok) in
              s := s2; evs := e2 :: !evs
          | _ -> s := s1; evs := e1 :: !evs
        end) (expand ops);
      Buffer.add_string buf (k ^ " " ^ id ^ " ");
      out_events !evs;
      Buffer.add_string buf (" | " ^ g_final !s);
      flush_line ()
  | [("E" | "e") as k; id; kv0; ops] ->
      let s = ref (e_init (kv_of_str kv0)) and evs = ref [] in
      List.iter (fun tok ->
        let (s', e) = e_step true !s (eop_of tok) in
        s := s'; evs := e :: !evs) (expand ops);
      Buffer.add_string buf (k ^ " " ^ id ^ " ");
      out_events !evs;
      Buffer.add_string buf (" | " ^ e_final !s);
      flush_line ()
  | [("K" | "k") as k; id; epoch; kv0; r0; ops] ->
      let s = ref (k_boot (kv_of_str kv0) (n_of_dec r0) (n_of_dec epoch)) and evs = ref [] in
      let ob = ref true in
      List.iter (fun tok ->
        let op = kop_of tok in
        if not (k_allowed !s op) then ob := false;
        let (s', e) = k_step !s op in
        s := s'; evs := e :: !evs) (expand ops);
      Buffer.add_string buf (Printf.sprintf "%s %s %s %d " k id epoch (if !ob then 1 else 0));
      out_events !evs;
      Buffer.add_string buf (" | " ^ k_final !s);
      flush_line ()
  | ["GW"; id; kv0; klo; khi; post] ->
      let h = ref digest_init in
      let use (s : gstate ref) =
        let (s1, e1) = g_step true !s (GReserve N0) in
        h := digest_ev !h e1;
        let (s2, e2) = g_step true s1 (GStore true) in
        h := digest_ev !h e2; s := s2 in
      for k = int_of_string klo to int_of_string khi do
        let s = ref (g_init (kv_of_str kv0)) in
        for _ = 1 to k do use s done;
        let (s', e) = g_step true !s GCrash in
        s := s'; h := digest_ev !h e;
        for _ = 1 to int_of_string post do use s done;
        h := digest_push (digest_push !h (i64_of_n !s.gs_ram.g_ctr)) (i64_of_n !s.gs_ram.g_bnd);
        h := digest_kv !h !s.gs_kv
      done;
      Printf.printf "GW %s %016Lx\n" id !h
  | ["EW"; id; kv0; klo; khi; post] ->
      let h = ref digest_init in
      let use (s : estate ref) =
        let (s1, e1) = e_step true !s (EPush true) in
        h := digest_ev !h e1; s := s1 in
      for k = int_of_string klo to int_of_string khi do
        let s = ref (e_init (kv_of_str kv0)) in
        for _ = 1 to k do use s done;
        let (s', e) = e_step true !s ECrash in
        s := s'; h := digest_ev !h e;
        for _ = 1 to int_of_string post do use s done;
        h := digest_push !h (i64_of_n !s.e_next);
        h := digest_kv !h !s.e_kv
      done;
      Printf.printf "EW %s %016Lx\n" id !h
  | ["KW"; id; epoch; kv0; klo; khi; post] ->
      let h = ref digest_init in
      let stepd (s : kstate ref) (op : kop) =
        let (s1, e1) = k_step !s op in
        h := digest_ev !h e1; s := s1 in
      for k = int_of_string klo to int_of_string khi do
        let s = ref (k_boot (kv_of_str kv0) N0 (n_of_dec epoch)) in
        stepd s (KPersist true);
        for _ = 1 to k do stepd s (KSend true) done;
        stepd s (KCrash N0);
        stepd s (KPersist true);
        for _ = 1 to int_of_string post do stepd s (KSend true) done;
        h := digest_push (digest_push !h (i64_of_n (c_next !s.k_ctr))) (i64_of_n (c_persist_value !s.k_ctr));
        h := digest_kv !h !s.k_kv
      done;
      Printf.printf "KW %s %016Lx\n" id !h
  | _ -> if line <> "" then failwith ("bad case line: " ^ line)

(* monitor mode: input = implementation output lines *)
let run_spec (line : string) =
  match String.split_on_char ' ' line with
  | ("G" | "X") :: id :: evs :: _ ->
      let t = List.map ev_of_str (if evs = "" then [] else String.split_on_char ',' evs) in
      Printf.printf "%s %s %d\n" (List.hd (String.split_on_char ' ' line)) id (if monitor g_ahead t then 1 else 0)
  | "E" :: id :: evs :: _ ->
      let t = List.map ev_of_str (if evs = "" then [] else String.split_on_char ',' evs) in
      Printf.printf "E %s %d\n" id (if monitor e_ahead t then 1 else 0)
  | "K" :: id :: epoch :: ob :: evs :: tl ->
      (* the checker appends "# <ops of the case>": the one-lap hypothesis is about the schedule *)
      let ops = List.nth tl (List.length tl - 1) in
      let within_lap = N.leb (k_travel (n_of_dec epoch) (List.map kop_of (expand ops))) two32 in
      if ob <> "1" then Printf.printf "K %s -\n" id
      else if not within_lap then Printf.printf "K %s lap\n" id
      else begin
        let t = List.map ev_of_str (if evs = "" then [] else String.split_on_char ',' evs) in
        Printf.printf "K %s %d\n" id (if monitor k_ahead t then 1 else 0)
      end
  | _ -> ()

let () =
  let spec_mode = Array.length Sys.argv > 1 && Sys.argv.(1) = "spec" in
  try
    while true do
      let line = input_line stdin in
      (* one output line per input line, whatever the line contains: a line that cannot be
         parsed (unexpected token, harness panic marker) is answered with "?" for the checker *)
      (try if spec_mode then run_spec line else run_model line
       with End_of_file -> raise End_of_file
          | _ ->
              Buffer.clear buf;
              (match String.split_on_char ' ' line with
               | k :: id :: _ -> Printf.printf "%s %s ?\n" k id
               | _ -> ()))
    done
  with End_of_file -> ()
