(* Extraction of the C12 model and monitor.  ExtrOcamlBasic only: bool,
   option, list, prod, unit, sumbool map to OCaml's; N / positive stay
   inductive. *)
From RsM Require Import Lib.MachInt Lib.C12Sort Model.Counters Model.CountersSpec.
Require Import ExtrOcamlBasic.
Extraction Language OCaml.
Extraction "model.ml"
  N.add N.mul N.div_eucl
  g_init g_step e_init e_step k_boot k_step k_allowed c_next c_persist_value
  yields monitor g_covers e_covers k_covers g_ahead e_ahead k_ahead k_travel g_travel e_travel N.leb two32.
