(* Line-oriented driver for the C09 model.
   K/L/R lines evaluate the extracted functions directly.  E lines interpret the
   network script into a sequence of model operations with the scheduling the
   real nodes exhibit when the in-process network is much faster than the
   back-off (a datagram is decided when it is sent; an acknowledgement returns
   before the next timer), then run the extracted [step]. *)
open Model
open Util

let opt_n_of_string s = if s = "-" then None else Some (n_of_string s)

let rm_str (s : rm) =
  let r = match s.rm_retr with
    | Some r -> Printf.sprintf "R%s:%s:%s" (string_of_n r.r_base) (string_of_n r.r_ctr) (string_of_n r.r_count)
    | None -> "R-" in
  let a = match s.rm_ack with
    | Some a -> Printf.sprintf "A%s:%d" (string_of_n a.a_ctr) (if a.a_acked then 1 else 0)
    | None -> "A-" in
  Printf.sprintf "%s %s %d" r a (if s.rm_received then 1 else 0)

let err_name c = let i = int_of_n c in if i = 1 then "timeout" else if i = 2 then "dup" else "err"

let run_r ops =
  let buf = Buffer.create 256 in
  let st = ref rm_new in
  (try
    List.iter (fun op ->
      match String.split_on_char ':' op with
      | ["s"; ctr; rel; sai] ->
          let (s', r) = rm_pre_send !st (n_of_string ctr) (rel = "1") (opt_n_of_string sai) in
          (match r with
           | Panic _ -> Buffer.add_string buf "panic|"; raise Exit
           | Ok p ->
               st := s';
               Buffer.add_string buf
                 (match p with Some a -> Printf.sprintf "ok+%s %s|" (string_of_n a) (rm_str s')
                             | None -> Printf.sprintf "ok %s|" (rm_str s'))
           | Err c -> st := s'; Buffer.add_string buf (Printf.sprintf "%s %s|" (err_name c) (rm_str s')))
      | ["r"; ctr; ack; rel] ->
          let (s', r) = rm_post_recv !st (n_of_string ctr) (opt_n_of_string ack) (rel = "1") in
          st := s';
          (match r with
           | Ok _ -> Buffer.add_string buf (Printf.sprintf "ok %s|" (rm_str s'))
           | Err c -> Buffer.add_string buf (Printf.sprintf "%s %s|" (err_name c) (rm_str s'))
           | Panic _ -> Buffer.add_string buf "panic|"; raise Exit)
      | _ -> failwith "bad R op") (split_on ',' ops)
  with Exit -> ());
  Buffer.contents buf

(* ---- E: scripted two-node scenario ---- *)
type act = D | X | U | H of int | T of int

let parse_acts s =
  Array.of_list (List.map (fun a ->
    match a.[0] with
    | 'x' -> X | 'u' -> U
    | 'h' -> H (int_of_string (String.sub a 1 (String.length a - 1)))
    | 't' -> T (int_of_string (String.sub a 1 (String.length a - 1)))
    | _ -> D) (List.filter (fun a -> a <> "") (split_on '.' s)))

let nat_of_int i = i   (* ExtrOcamlBasic does not map nat; see below *)

let rec nat_of (i : int) : nat = if i <= 0 then O else S (nat_of (i - 1))

let run_e fields =
  let m = ref 1 and ab = ref [||] and ba = ref [||] and oth_after = ref 0 and oth_n = ref 0 in
  List.iter (fun kv ->
    match String.index_opt kv '=' with
    | None -> ()
    | Some i ->
        let k = String.sub kv 0 i and v = String.sub kv (i + 1) (String.length kv - i - 1) in
        if k = "m" then m := int_of_string v
        else if k = "ab" then ab := parse_acts v
        else if k = "ba" then ba := parse_acts v
        else if k = "others" then
          (match String.split_on_char ':' v with
           | [a; b] -> oth_after := int_of_string a; oth_n := int_of_string b
           | _ -> ())) fields;
  let c0 = n_of_int 1000 in
  let st = ref (sys_init c0) in
  let ab_idx = ref 0 and ba_idx = ref 0 in
  (* held datagrams: (remaining count, value) *)
  let held_ab = ref [] and held_ba = ref [] in
  let others_sent = ref false in
  let acks = ref 0 in
  (* virtual clock (ms) for time-delayed datagrams: (due, is_ack, ack value, ab value) *)
  let now = ref 0 in
  let delayed_ab = ref [] and delayed_ba = ref [] in
  let act_of arr i = if i < Array.length arr then arr.(i) else D in
  let find_pos l v =
    let rec go i = function [] -> -1 | x :: t -> if x = v then i else go (i + 1) t in go 0 l in
  (* an acknowledgement [v] was just appended to ba (or released): decide it *)
  let deferred = ref [] in
  let rec decide_ack v released =
    let deliver () =
      let p = find_pos !st.ba v in
      if p >= 0 then st := step !st (DeliverAck (nat_of p)) in
    if released then deliver ()
    else begin
      let a = act_of !ba !ba_idx in
      incr ba_idx;
      (match a with
       | D -> deliver ()
       | X -> let p = find_pos !st.ba v in if p >= 0 then st := step !st (DropBA (nat_of p))
       | U -> let p = find_pos !st.ba v in
              if p >= 0 then st := step !st (DupBA (nat_of p));
              deliver (); deliver ()
       | H n -> held_ba := (max n 1, v) :: !held_ba
       | T ms -> delayed_ba := (!now + ms, v) :: !delayed_ba);
      (match a with
       | H _ | T _ -> ()
       | _ ->
           let rel = ref [] in
           held_ba := List.filter_map (fun (n, x) ->
             if n - 1 = 0 then (rel := x :: !rel; None) else Some (n - 1, x)) !held_ba;
           List.iter (fun x -> decide_ack x true) (List.rev !rel))
    end
  (* deliver the datagram with value [d] to B; acknowledge every main copy *)
  (* The acknowledgement of a first-time message is sent by the receiving application
     (after it has taken the message); the acknowledgement of a duplicate is sent by the
     transport at once.  Within one burst of deliveries the latter therefore go out first. *)
  and deliver_ab d =
    let p = find_pos !st.ab d in
    if p >= 0 then begin
      let before = List.length !st.ba in
      let ndel = List.length !st.b_delivered in
      st := step !st (Deliver (nat_of p));
      if List.length !st.ba > before then begin
        incr acks;
        let v = List.nth !st.ba (List.length !st.ba - 1) in
        if List.length !st.b_delivered > ndel then deferred := v :: !deferred
        else decide_ack v false
      end
    end
  and flush_deferred () =
    let l = List.rev !deferred in
    deferred := [];
    List.iter (fun v -> decide_ack v false) l in
  (* a datagram [d] was just appended to ab: decide it *)
  let decide_ab d =
    let a = act_of !ab !ab_idx in
    incr ab_idx;
    (match a with
     | D -> deliver_ab d
     | X -> let p = find_pos !st.ab d in if p >= 0 then st := step !st (DropAB (nat_of p))
     | U -> let p = find_pos !st.ab d in
            if p >= 0 then st := step !st (DupAB (nat_of p));
            deliver_ab d; deliver_ab d
     | H n -> held_ab := (max n 1, d) :: !held_ab
     | T ms -> delayed_ab := (!now + ms, d) :: !delayed_ab);
    (match a with
     | H _ | T _ -> ()
     | _ ->
         let rel = ref [] in
         held_ab := List.filter_map (fun (n, x) ->
           if n - 1 = 0 then (rel := x :: !rel; None) else Some (n - 1, x)) !held_ab;
         List.iter deliver_ab (List.rev !rel));
    flush_deferred () in
  let last_ab () = List.nth !st.ab (List.length !st.ab - 1) in
  let maybe_others () =
    if not !others_sent && !oth_n > 0 && !ab_idx >= !oth_after then begin
      others_sent := true;
      for _ = 1 to !oth_n do
        st := step !st AOther;
        decide_ab (last_ab ())
      done
    end in
  (* deliver every delayed datagram due before [limit], in due order *)
  let release_until limit =
    let continue = ref true in
    while !continue do
      let cand_ab = List.filter (fun (due, _) -> due < limit) !delayed_ab in
      let cand_ba = List.filter (fun (due, _) -> due < limit) !delayed_ba in
      let best = List.fold_left (fun acc (due, _) -> min acc due) max_int (cand_ab @ List.map (fun (d, _) -> (d, (N0, Main))) cand_ba |> List.map (fun (d, _) -> (d, ()))) in
      if best = max_int then continue := false
      else begin
        now := max !now best;
        (match List.find_opt (fun (due, _) -> due = best) cand_ab with
         | Some ((_, d) as e) ->
             delayed_ab := List.filter (fun x -> x != e) !delayed_ab;
             deliver_ab d; flush_deferred ()
         | None ->
             (match List.find_opt (fun (due, _) -> due = best) cand_ba with
              | Some ((_, v) as e) ->
                  delayed_ba := List.filter (fun x -> x != e) !delayed_ba;
                  decide_ack v true
              | None -> continue := false))
      end
    done in
  let base = n_of_int 80 and jit = n_of_int 100 in
  let results = ref [] in
  (try
    for _ = 1 to !m do
      let nres = List.length !st.a_results in
      st := step !st ASend;
      decide_ab (last_ab ());
      maybe_others ();
      while !st.a_retr <> None do
        let k = match !st.a_retr with Some (_, k) -> k | None -> N0 in
        let fire = !now + int_of_n (backoff_ms base k jit) in
        release_until fire;
        if !st.a_retr <> None then begin
          now := fire;
          let before = List.length !st.ab in
          st := step !st ATimer;
          if List.length !st.ab > before then decide_ab (last_ab ());
          maybe_others ()
        end
      done;
      let rs = !st.a_results in
      let (_, okb) = List.nth rs (List.length rs - 1) in
      ignore nres;
      results := (if okb then "ok" else "timeout") :: !results;
      if not okb then raise Exit
    done
  with Exit -> ());
  release_until (!now + 55);
  (* whatever is still held is released at the end of the run only if later traffic pushes it: not modelled *)
  let delivered = List.map (fun c -> string_of_int (int_of_n c - 1000 - 0)) !st.b_delivered in
  (* main message ids: counters are shared with other traffic; map counter -> main index by order of first use *)
  ignore delivered;
  (!st, List.rev !results, !acks)

let () =
  let spec_mode = Array.length Sys.argv > 1 && Sys.argv.(1) = "spec" in
  try
    while true do
      let line = input_line stdin in
      match String.split_on_char ' ' line with
      | ["K"; id; base; counter] when not spec_mode ->
          let b = n_of_string base and c = n_of_string counter in
          let vs = List.init 256 (fun j -> string_of_n (backoff_ms b c (n_of_int j))) in
          Printf.printf "K %s %s\n" id (String.concat "," vs)
      | ["L"; id; a; i; t; ao] when not spec_mode ->
          Printf.printf "L %s %s\n" id
            (string_of_n (retransmission_timeout_ms (n_of_string a) (n_of_string i) (n_of_string t) (ao = "1")))
      | ["R"; id; ops] when not spec_mode ->
          Printf.printf "R %s %s\n" id (run_r ops)
      | "E" :: id :: fields when not spec_mode ->
          let (s, results, acks) = run_e fields in
          (* main ids: the i-th main message is the i-th (c, _) in a_results order *)
          let main_ctrs = List.map fst s.a_results in
          let idx_of c =
            let rec go i = function [] -> -1 | x :: t -> if x = c then i else go (i + 1) t in go 0 main_ctrs in
          let delivered = List.map (fun c -> string_of_int (idx_of c)) s.b_delivered in
          Printf.printf "E %s done res=%s delivered=%s acks=%d\n" id
            (String.concat "." results) (String.concat "." delivered) acks
      | "E" :: id :: fields when spec_mode ->
          (* monitor: fields from the implementation's own output *)
          let get k =
            let pre = k ^ "=" in
            let l = String.length pre in
            match List.find_opt (fun f -> String.length f >= l && String.sub f 0 l = pre) fields with
            | Some f -> String.sub f l (String.length f - l)
            | None -> "" in
          let res = List.map (fun r -> r = "ok") (split_on '.' (get "res")) in
          let delivered = List.map n_of_string (split_on '.' (get "delivered")) in
          let base = n_of_string (get "base") in
          let txs = List.map (fun m -> List.map n_of_string (split_on ',' m)) (String.split_on_char ';' (get "tx")) in
          let viol = ref [] in
          if not (strictly_increasing delivered) then viol := "delivered-not-once-in-order" :: !viol;
          if not (ok_delivered res delivered) then viol := "ok-not-delivered" :: !viol;
          if get "copies" <> "" && not (reacked (n_of_string (get "copies")) (n_of_string (get "acks"))) then
            viol := "copy-not-acknowledged" :: !viol;
          List.iteri (fun i r ->
            match List.nth_opt txs i with
            | Some times ->
                if not (gaps_ok base times) then viol := "retransmission-before-backoff" :: !viol;
                if not (budget_ok r (n_of_int (List.length times))) then viol := "budget" :: !viol
            | None -> ()) res;
          Printf.printf "E %s %s\n" id (if !viol = [] then "ok" else String.concat "," (List.rev !viol))
      | _ -> ()
    done
  with End_of_file -> ()
