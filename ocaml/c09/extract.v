(* Extraction of the C09 model.  ExtrOcamlBasic only. *)
From RsM Require Import Lib.MachInt Model.Dedup Model.Mrp Model.MrpSpec.
Require Import ExtrOcamlBasic.
Extraction Language OCaml.
Extraction "model.ml"
  N.add N.mul N.div_eucl
  backoff_ms retransmission_timeout_ms
  rm_new rm_pre_send rm_post_recv
  sys_init step mem
  strictly_increasing ok_delivered gaps_ok budget_ok reacked.
