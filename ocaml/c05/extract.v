(* Extraction of the C05 model and specification.  ExtrOcamlBasic only:
   bool, option, list, prod, unit, sumbool map to OCaml's; N / positive
   stay inductive. *)
From RsM Require Import Lib.MachInt Model.Acl Model.AclSpec.
Require Import ExtrOcamlBasic.
Extraction Language OCaml.
Extraction "model.ml"
  N.add N.mul N.div_eucl
  subj_new subj_add_catid_ignore for_session
  acl_add_all allow is_endpoint_accessible im_access
  wf_fabrics spec_allow spec_endpoint spec_granted
  abs_fabric abs_accessor abs_element acl_granted endpoint_reachable granted.
