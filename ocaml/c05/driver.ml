(* Line-oriented driver for the C05 model: reads case lines, prints one
   canonical line per case (same format as the harness' impl.out).
   argv[1] = "spec": evaluate the declarative specification (monitor)
   instead of the model; positions outside the specification's domain
   (tables that are not well-formed, operations other than read/write)
   are printed as '.'.

   case line:  A <id> <mode> <fabrics> <accessors> <requests>
     mode      N (entries go through acl_add) | L (entries stored as given)
     fabrics   - | fabric('|'fabric)*          fabric = idx:entries:groups
     entries   - | entry('+'entry)*            entry  = priv,auth,efab,subjects,targets
     groups    - | group('+'group)*            group  = gid,aux,eps
     accessors accessor(';'accessor)*
                 S<kind>,fab,peer,c1/c2/c3,gid,aux   (session: kind C|P|G|T)
                 R,fab,auth,subj0,cats,aux           (raw: auth N|P|C|G)
     requests  request(';'request)*            request = ep.cl,dts,op,perms
   output:     A <id> <acl_add flags per fabric> <2 chars per accessor x request>  *)
open Model
open Util

let opt_n s = if s = "x" || s = "n" then None else Some (n_of_string s)

let nlist (s : string) : n list =
  if s = "e" || s = "n" || s = "" then [] else List.map n_of_string (String.split_on_char '/' s)

let parse_auth = function
  | "P" -> APase | "C" -> ACase | "G" -> AGroup | s -> failwith ("bad auth " ^ s)

let parse_target (s : string) : target =
  match String.split_on_char '.' s with
  | [ep; cl; dt] -> { t_cl = opt_n cl; t_ep = opt_n ep; t_dt = opt_n dt }
  | _ -> failwith ("bad target " ^ s)

let parse_entry (s : string) : entry =
  match String.split_on_char ',' s with
  | [p; a; ef; subj; targ] ->
      { e_priv = n_of_string p;
        e_auth = parse_auth a;
        e_subj = (if subj = "n" then None else Some (nlist subj));
        e_targ = (if targ = "n" then None
                  else if targ = "e" then Some []
                  else Some (List.map parse_target (String.split_on_char '/' targ)));
        e_fab = opt_n ef }
  | _ -> failwith ("bad entry " ^ s)

let parse_group (s : string) : group =
  match String.split_on_char ',' s with
  | [gid; aux; eps] ->
      { g_id = n_of_string gid; g_eps = nlist eps;
        g_aux = (if aux = "n" then None else Some (aux = "1")) }
  | _ -> failwith ("bad group " ^ s)

let plist (f : string -> 'a) (sep : char) (s : string) : 'a list =
  if s = "-" || s = "" then [] else List.map f (String.split_on_char sep s)

(* returns the fabric and the acl_add flags *)
let parse_fabric (native : bool) (s : string) : fabric * string =
  match String.split_on_char ':' s with
  | [idx; es; gs] ->
      let entries = plist parse_entry '+' es in
      let groups = plist parse_group '+' gs in
      let idx = n_of_string idx in
      if native then begin
        let (f, flags) = acl_add_all { f_idx = idx; f_acl = []; f_groups = groups } entries in
        (f, string_of_flags flags)
      end else ({ f_idx = idx; f_acl = entries; f_groups = groups }, "")
  | _ -> failwith ("bad fabric " ^ s)

let parse_accessor (s : string) : accessor =
  match String.split_on_char ',' s with
  | [k; fab; peer; cats; gid; aux] when String.length k = 2 && k.[0] = 'S' ->
      let fab = n_of_string fab and aux = (aux = "1") in
      let mode = match k.[1] with
        | 'C' -> SCase (fab, nlist cats)
        | 'P' -> SPase fab
        | 'G' -> SGroup (fab, n_of_string gid)
        | 'T' -> SPlain
        | _ -> failwith ("bad session kind " ^ s) in
      for_session mode (opt_n peer) aux
  | ["R"; fab; auth; s0; cats; aux] ->
      let subj = List.fold_left subj_add_catid_ignore (subj_new (n_of_string s0)) (nlist cats) in
      { a_fab = n_of_string fab; a_aux = (aux = "1"); a_subj = subj;
        a_auth = (if auth = "N" then None else Some (parse_auth auth)) }
  | _ -> failwith ("bad accessor " ^ s)

let parse_request (s : string) : request =
  match String.split_on_char ',' s with
  | [path; dts; op; perms] ->
      (match String.split_on_char '.' path with
       | [ep; cl] ->
           { r_ep = opt_n ep; r_cl = opt_n cl; r_perms = opt_n perms;
             r_op = n_of_string op; r_dts = nlist dts }
       | _ -> failwith ("bad path " ^ s))
  | _ -> failwith ("bad request " ^ s)

let n16 = n_of_int 16
let n32 = n_of_int 32

let () =
  let spec_mode = Array.length Sys.argv > 1 && Sys.argv.(1) = "spec" in
  let buf = Buffer.create 65536 in
  try
    while true do
      let line = input_line stdin in
      match String.split_on_char ' ' line with
      | ["A"; id; mode; fabs; accs; reqs] ->
          let native = (mode = "N") in
          let fl = plist (parse_fabric native) '|' fabs in
          let fabrics = List.map fst fl in
          let flags = String.concat "|" (List.map snd fl) in
          let accessors = List.map parse_accessor (String.split_on_char ';' accs) in
          let requests = List.map parse_request (String.split_on_char ';' reqs) in
          Buffer.clear buf;
          let wf = spec_mode && wf_fabrics fabrics in
          (* spec_allow fabs a op r = acl_granted (map abs_fabric fabs) (abs_accessor a) op (abs_element r)
             and spec_endpoint likewise (Model/AclSpec.v); the abstraction of the table is
             computed once per line instead of once per query *)
          let sfabs = if spec_mode then List.map abs_fabric fabrics else [] in
          List.iter (fun a ->
            let sa = abs_accessor a in
            List.iter (fun r ->
              if spec_mode then begin
                let op = if r.r_op = n16 then Some Read
                         else if r.r_op = n32 then Some Write else None in
                (match op with
                 | Some op when wf ->
                     Buffer.add_char buf (if acl_granted sfabs sa op (abs_element r) then '1' else '0')
                 | _ -> Buffer.add_char buf '.');
                (match r.r_ep with
                 | Some ep -> Buffer.add_char buf (if endpoint_reachable sfabs sa ep then '1' else '0')
                 | None -> Buffer.add_char buf '-')
              end else begin
                Buffer.add_char buf (if allow fabrics a r then '1' else '0');
                (match r.r_ep with
                 | Some ep -> Buffer.add_char buf (if is_endpoint_accessible fabrics a ep then '1' else '0')
                 | None -> Buffer.add_char buf '-')
              end) requests) accessors;
          Printf.printf "A %s %s %s\n" id (if flags = "" || not native then "-" else flags) (Buffer.contents buf)
      | _ -> if line <> "" then failwith ("bad line: " ^ line)
    done
  with End_of_file -> ()
