(* Extraction of the C18 model.  ExtrOcamlBasic only: bool, option, list,
   prod, unit, sumbool map to OCaml's; N / positive / nat stay inductive. *)
From RsM Require Import Lib.MachInt Model.Btp Model.BtpSpec Model.BtpRing.
Require Import ExtrOcamlBasic.
Extraction Language OCaml.
Extraction "model.ml"
  N.add N.mul N.div_eucl
  inner_new step run hdr_decode
  sys_fresh sys_established sys_step sys_run snap_of
  ring_new ring_push ring_pop ring_len ring_free ring_clear ring_is_full ring_is_empty
  mon_step mon_endpoint rs_init pmon_run pmon_step ps_ok win_ok ps_init mon_pair is_data_seg head_is_data seg_has_ack.
