(* Hand-written glue shared by the model drivers: conversion between
   OCaml ints / strings and the extracted [positive] / [n] / [z] types.
   Trusted (see DESIGN.md section 6); cross-checked by the vm_compute sample. *)
open Model

let rec pos_of_int (i : int) : positive =
  if i <= 1 then XH
  else if i land 1 = 0 then XO (pos_of_int (i lsr 1))
  else XI (pos_of_int (i lsr 1))

let n_of_int (i : int) : n = if i <= 0 then N0 else Npos (pos_of_int i)

let rec int_of_pos (p : positive) : int =
  match p with
  | XH -> 1
  | XO q -> 2 * int_of_pos q
  | XI q -> 2 * int_of_pos q + 1

let int_of_n (x : n) : int = match x with N0 -> 0 | Npos p -> int_of_pos p

(* decimal strings of arbitrary size, for values above 2^62 *)
let n_of_string (s : string) : n =
  let ten = n_of_int 10 in
  let acc = ref N0 in
  String.iter (fun ch ->
    if ch >= '0' && ch <= '9' then
      acc := N.add (N.mul !acc ten) (n_of_int (Char.code ch - 48))
    else failwith ("bad number: " ^ s)) s;
  !acc

let string_of_n (x : n) : string =
  if x = N0 then "0" else begin
    let ten = n_of_int 10 in
    let buf = Buffer.create 24 in
    let cur = ref x in
    let digits = ref [] in
    while !cur <> N0 do
      let (q, r) = N.div_eucl !cur ten in
      digits := int_of_n r :: !digits;
      cur := q
    done;
    List.iter (fun d -> Buffer.add_char buf (Char.chr (48 + d))) !digits;
    Buffer.contents buf
  end

let split_on (c : char) (s : string) : string list =
  if s = "" then [] else String.split_on_char c s

let bool_of_string01 s = (s = "1")
let string_of_flags (l : bool list) : string =
  String.concat "" (List.map (fun b -> if b then "1" else "0") l)

(* FNV-style digest, same as harness/src/lib.rs Digest *)
let digest_init = 0xcbf29ce484222325L
let digest_push (h : int64) (x : int64) : int64 =
  Int64.mul (Int64.logxor h x) 0x00000100000001b3L
