(* Line-oriented driver for the C07 model (fabric / session / resumption / subscription lifecycle
   with ghost incarnations).
   stdin: case lines  "S <id> <kp> <op>,<op>,..."  /  "H <id>"  (W lines are run like S lines)
   stdout: the same canonical lines the harness prints from the real code.
   argv[1] = "spec": monitor mode - stdin carries, per case, the case line followed by the
   IMPLEMENTATION's output line; the extracted [monitor] is evaluated on the implementation's
   own snapshots (which carry the harness's incarnation bookkeeping) and one verdict line per
   case is printed. *)
open Model
open Util

let n = n_of_string
let s_of_n = string_of_n

let parse_op (t : string) : op =
  let rest = if String.length t > 1 then split_on ':' (String.sub t 1 (String.length t - 1)) else [] in
  let a i = n (List.nth rest i) in
  match t.[0] with
  | 'A' -> OArm (a 0)
  | 'N' -> OAddNoc (a 0, a 1)
  | 'U' -> OUpdNoc (a 0)
  | 'K' -> OComplete (a 0)
  | 'R' -> ORemove (a 0, a 1)
  | 'T' -> OTimeout
  | 'Z' -> OArm0 (a 0)
  | 'V' -> ORevoke (a 0)
  | 'E' -> OEstablish (a 0)
  | 'H' -> OPeer (a 0, a 1)
  | 'G' -> OGroup (a 0)
  | 'S' -> OResume (a 0)
  | 'F' -> OPersist
  | 'X' -> ORestart
  | 'O' -> OReport
  | 'Q' -> ORequest (a 0, a 1)
  | 'B' -> OSubscribe (a 0)
  | 'P' -> ONewPase
  | 'e' -> OEstablishBegin (a 0)
  | 's' -> OResumeBegin (a 0)
  | 'D' -> OFinishFull N0   (* placeholder: the slot name is resolved by [run_s] *)
  | 'b' -> OSubscribeDue (a 0)
  | 'r' -> OSubscribeRemove (a 0, a 1)
  | _ -> failwith ("bad op " ^ t)

let status_str = function
  | StOk -> "ok" | StGone -> "gone" | StAccess -> "access" | StFsReq -> "fsreq"
  | StBusy -> "busy" | StFail -> "fail" | StConstraint -> "constraint"
  | StMissingCsr -> "missingcsr" | StConflict -> "conflict" | StTableFull -> "tablefull"
  | StNotFound -> "notfound" | StNoSpace -> "nospace" | StNoFabric -> "nofabric"
  | StNoRecord -> "refused" | StInvCmd -> "invcmd"

(* a resumption that is declined for whatever reason looks the same to the peer *)
let status_for (o : op) (r : status) : string =
  match o, r with
  | (OResume _ | OResumeBegin _), (StNoFabric | StNoRecord) -> "refused"
  | _, _ -> status_str r

let fabric_str (f : fabric) =
  Printf.sprintf "%s:%s:%s:%s" (s_of_n f.f_idx) (s_of_n f.f_inc) (s_of_n f.f_root) (s_of_n f.f_acl)

let fabrics_str (l : fabric list) =
  let l = List.sort (fun a b -> compare (int_of_n a.f_idx) (int_of_n b.f_idx)) l in
  String.concat " " (List.map fabric_str l)

let mode_str = function MPase -> "P" | MCase -> "C" | MGroup -> "G"

let sess_str (s : session) =
  Printf.sprintf "%s:%s:%s:%s:%d:%d:%s" (s_of_n s.s_id) (mode_str s.s_mode) (s_of_n s.s_fab)
    (s_of_n s.s_node) (if s.s_exp then 1 else 0) (if s.s_res then 1 else 0) (s_of_n s.s_inc)

let sessions_str (l : session list) =
  let l = List.sort (fun a b -> compare (int_of_n a.s_id) (int_of_n b.s_id)) l in
  String.concat " " (List.map sess_str l)

let rec_str (r : rrec) =
  Printf.sprintf "%s:%s:%s:%s" (s_of_n r.r_id) (s_of_n r.r_fab) (s_of_n r.r_node) (s_of_n r.r_inc)

let recs_str (l : rrec list) = String.concat " " (List.map rec_str l)

let sub_str (u : sub0) =
  Printf.sprintf "%s:%s:%s:%s" (s_of_n u.u_id) (s_of_n u.u_fab) (s_of_n u.u_node) (s_of_n u.u_inc)

let subs_str (l : sub0 list) =
  let l = List.sort (fun a b -> compare (int_of_n a.u_id) (int_of_n b.u_id)) l in
  String.concat " " (List.map sub_str l)

let state_str (st : state) =
  let fs = match st.st_fs with
    | Idle -> "idle"
    | Armed (f, fl) -> Printf.sprintf "a%s/%s" (s_of_n f) (s_of_n (fl_bits fl)) in
  Printf.sprintf "fs=%s F[%s] KF[%s] S[%s] R[%s] KR[%s] U[%s] KU[%s]"
    fs (fabrics_str st.st_fabs) (fabrics_str st.st_kvfabs) (sessions_str st.st_sess)
    (recs_str st.st_recs) (recs_str st.st_kvrecs) (subs_str st.st_subs) (subs_str st.st_subs)

let parse_init (s : string) =
  init_state (n_of_int (Char.code s.[0] - 48)) (s.[1] = '1')

let parse_ops (f : string list) =
  match f with
  | _ :: _ :: _ :: o :: _ -> List.map parse_op (List.filter (fun x -> x <> "") (split_on ',' o))
  | _ -> []

(* The harness catches at most one handshake in its last step at a time: while one is pending,
   E / S / e / s are answered "busy" without touching the device, and "D" completes the pending
   one (the model operation needs the name of its reserved slot, which is the next session name
   at the moment the handshake began). *)
let run_s (f : string list) =
  let st0 = parse_init (List.nth f 2) in
  let ops = parse_ops f in
  let st = ref st0 in
  let pending : (bool * n) option ref = ref None in
  let out = List.map (fun o ->
      let tag =
        match o, !pending with
        | (OEstablish _ | OResume _ | OEstablishBegin _ | OResumeBegin _), Some _ -> "busy"
        | (OFinishFull _ | OFinishResume _), None -> "nopending"
        | (OFinishFull _ | OFinishResume _), Some (resume, sid) ->
          pending := None;
          let o' = if resume then OFinishResume sid else OFinishFull sid in
          let (st', r) = step !st o' in
          st := st'; status_for o' r
        | _, _ ->
          let sid = !st.st_nsid in
          let (st', r) = step !st o in
          st := st';
          (match o, r with
           | OEstablishBegin _, StOk -> pending := Some (false, sid)
           | OResumeBegin _, StOk -> pending := Some (true, sid)
           | ORestart, _ -> pending := None
           | _, _ -> ());
          status_for o r in
      tag ^ "@" ^ state_str !st) ops in
  String.concat ";" out

(* ------------------------------------------------------------------ monitor mode *)
let items (s : string) = List.filter (fun t -> t <> "") (split_on ' ' s)

let between (s : string) (pre : string) : string * string =
  let lp = String.length pre in
  let i =
    let rec find k =
      if k + lp > String.length s then failwith ("expected " ^ pre ^ " in " ^ s)
      else if String.sub s k lp = pre then k else find (k + 1) in
    find 0 in
  let j = String.index_from s (i + lp) ']' in
  (String.sub s (i + lp) (j - i - lp), String.sub s (j + 1) (String.length s - j - 1))

let parse_fabric (s : string) : fabric =
  match split_on ':' s with
  | [i; c; r; a] -> { f_idx = n i; f_inc = n c; f_root = n r; f_acl = n a }
  | _ -> failwith ("bad fabric " ^ s)

let parse_sess (s : string) : session =
  match split_on ':' s with
  | [i; m; f; nd; e; r; c] ->
    { s_id = n i; s_mode = (match m with "P" -> MPase | "G" -> MGroup | _ -> MCase);
      s_fab = n f; s_node = n nd; s_exp = (e = "1"); s_res = (r = "1"); s_inc = n c }
  | _ -> failwith ("bad session " ^ s)

let parse_rec (s : string) : rrec =
  match split_on ':' s with
  | [i; f; nd; c] -> { r_id = n i; r_fab = n f; r_node = n nd; r_inc = n c }
  | _ -> failwith ("bad record " ^ s)

let parse_sub (s : string) : sub0 =
  match split_on ':' s with
  | [i; f; nd; c] -> { u_id = n i; u_fab = n f; u_node = n nd; u_inc = n c }
  | _ -> failwith ("bad subscription " ^ s)

let parse_state (s : string) : state =
  let fsv =
    let i = String.index s ' ' in
    let v = String.sub s 3 (i - 3) in
    if v = "idle" then Idle
    else (match split_on '/' (String.sub v 1 (String.length v - 1)) with
          | [f; b] -> Armed (n f, fl_of_bits (n b))
          | _ -> failwith "bad fs") in
  let (rf, rest) = between s " F[" in
  let (kf, rest) = between rest " KF[" in
  let (ss, rest) = between rest " S[" in
  let (rr, rest) = between rest " R[" in
  let (kr, rest) = between rest " KR[" in
  let (uu, _) = between rest " U[" in
  { st_fabs = List.map parse_fabric (items rf); st_kvfabs = List.map parse_fabric (items kf);
    st_sess = List.map parse_sess (items ss); st_recs = List.map parse_rec (items rr);
    st_kvrecs = List.map parse_rec (items kr); st_subs = List.map parse_sub (items uu);
    st_fs = fsv; st_root = N0; st_ninc = N0; st_nsid = N0; st_nrid = N0; st_nsub = N0 }

let parse_status (s : string) : status =
  match s with
  | "ok" -> StOk | "gone" -> StGone | "access" -> StAccess | "fsreq" -> StFsReq
  | "busy" -> StBusy | "constraint" -> StConstraint | "missingcsr" -> StMissingCsr
  | "conflict" -> StConflict | "tablefull" -> StTableFull | "notfound" -> StNotFound
  | "nospace" -> StNoSpace | "nofabric" -> StNoFabric | "refused" -> StNoRecord
  | "invcmd" -> StInvCmd
  | "busy" -> StBusy
  | _ -> StFail  (* any other error answer: a refusal *)

let verdict_names (v : n list) =
  let names = List.map (fun c -> match int_of_n c with
    | 1 -> "session-outlives-fabric"
    | 2 -> "resumption-record-outlives-fabric"
    | 3 -> "subscription-outlives-fabric"
    | 4 -> "persisted-record-outlives-fabric"
    | 5 -> "other-fabrics-affected"
    | 6 -> "request-served-on-stale-session"
    | 7 -> "stale-record-resumed"
    | 8 -> "persisted-fabric-outlives-fabric"
    | 9 -> "removed-incarnation-returns"
    | k -> "clause" ^ string_of_int k) v in
  String.concat "," (List.sort_uniq compare names)

let spec_case (case_line : string) (impl_line : string) =
  let f = split_on ' ' case_line in
  let kind = List.hd f in
  let id = List.nth f 1 in
  let st0 = parse_init (List.nth f 2) in
  let ops = parse_ops f in
  let body =
    let k = String.index_from impl_line 2 ' ' in
    String.sub impl_line (k + 1) (String.length impl_line - k - 1) in
  let obs = List.map (fun t ->
      let j = String.index t '@' in
      (parse_status (String.sub t 0 j), parse_state (String.sub t (j + 1) (String.length t - j - 1))))
      (List.filter (fun x -> x <> "") (split_on ';' body)) in
  if List.length obs <> List.length ops then
    Printf.printf "%s %s incomplete\n" kind id
  else begin
    let v = monitor st0 (List.combine ops obs) in
    Printf.printf "%s %s %s\n" kind id (if v = [] then "ok" else verdict_names v)
  end

let () =
  let spec = Array.length Sys.argv > 1 && Sys.argv.(1) = "spec" in
  let pending = ref None in
  (try
    while true do
      let line = input_line stdin in
      if line <> "" then begin
        if spec then begin
          match !pending with
          | None -> if line.[0] = 'S' || line.[0] = 'W' then pending := Some line
          | Some c ->
            pending := None;
            (try spec_case c line with e ->
               let f = split_on ' ' c in
               Printf.printf "%s %s monitor-error:%s\n" (List.hd f) (List.nth f 1) (Printexc.to_string e))
        end else begin
          let f = split_on ' ' line in
          match List.hd f with
          | "S" | "W" ->
            (* an unparsable case is reported as such (with its id), it does not stop the run *)
            let out = (try run_s f with e -> "driver-error:" ^ Printexc.to_string e) in
            Printf.printf "%s %s %s\n" (List.hd f) (try List.nth f 1 with _ -> "?") out
          | "H" -> Printf.printf "H %s maxfab=%s maxsess=%s maxrec=%s maxsub=%s\n" (List.nth f 1)
                     (s_of_n max_fabrics_n) (s_of_n max_sessions_n) (s_of_n max_records_n) (s_of_n max_subs_n)
          | _ -> ()
        end
      end
    done
  with End_of_file -> ())
