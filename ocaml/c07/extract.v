(* Extraction of the C07 model and its executable specification.  ExtrOcamlBasic only:
   bool, option, list, prod, unit, sumbool map to OCaml's; N / positive / nat stay inductive. *)
From Coq Require Import NArith.
From RsM Require Import Model.Lifecycle Model.LifecycleSpec.
(* -- *)
Require Import ExtrOcamlBasic.
Extraction Language OCaml.
Extraction "model.ml"
  N.add N.mul N.div_eucl
  step run init_state fl_bits fl_of_bits
  monitor bound_b
  max_fabrics_n max_sessions_n max_records_n max_subs_n.
