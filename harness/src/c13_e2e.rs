//! C13 end-to-end stream: two real `Matter` nodes (`rsm_harness::e2e`), the crate's own
//! `InteractionModel` on the device - real subscribe path, real reporter task - and a scripted
//! subscriber that decides when (and whether) every priming chunk and every report is answered.
//! Attribute changes and events are injected on the device at the script's points: while a
//! priming chunk is unanswered, between a report and its StatusResponse, while the device
//! retransmits into a muted network, at the edge of the minimum interval.
//!
//! Per case one line `U <id> <op>~<snapshot>~<answer> ... ` is produced: the operations of the
//! table model as they must have happened (their `now` values are read back from the real table),
//! the real table's snapshot at every observation point, and what the subscriber was sent.  The
//! extracted monitor (`driver spec`) evaluates the property on it and compares the model's
//! prediction; the final tokens carry what the subscriber knows against what the device holds.
//!
//! script steps (space separated after `U <id> <events-buffer: L|S>`):
//!   s:min:max:mask:keep:ev   subscribe (mask over the 24 paths, 16777215 = one wildcard path;
//!                            ev=1 adds a wildcard event path); the first priming chunk is held.
//!                            Optional 7th field: DataVersionFilters `f<c>+<d>/...`: cluster index c
//!                            (endpoint c/2, cluster 10 + c%2), version = its current data version + d
//!   a / A                    answer the held priming chunk / all of them up to the SubscribeResponse
//!   c:k   e:prio             change attribute k / emit an event (device side)
//!   r:ms                     wait up to ms for a report; its first chunk is held
//!   k / K                    answer the held report chunk / the whole report
//!   n                        answer the held report chunk with InvalidSubscription
//!   w:ms                     sleep
//!   m:n                      the network drops the next n datagrams device -> subscriber
//!   x                        the subscriber goes silent for the held report (nothing of it reaches the
//!                            device any more); the device gives up; fresh sessions are installed
//!   q                        answer everything until the device has been quiet for 40 ms
use core::cell::{Cell, RefCell};
use core::num::NonZeroU8;
use std::collections::BTreeMap;
use std::fmt::Write as _;
use std::rc::Rc;

use embassy_futures::select::{select, select4, Either};
use embassy_time::{Duration, Instant, Timer};

use rs_matter::acl::{AclEntry, AuthMode};
use rs_matter::crypto::test_only_crypto;
use rs_matter::dm::clusters::net_comm::DummyNetworks;
use rs_matter::dm::AttrChangeNotifier;
use rs_matter::dm::{
    Access, Async, Attribute, Cluster, Endpoint, Event, Handler, InvokeContext, InvokeReply, MatchContext, Metadata,
    Node, NonBlockingHandler, Privilege, Quality, ReadContext, ReadReply, Reply, WriteContext,
};
use rs_matter::error::{Error, ErrorCode};
use rs_matter::im::encoding::{AttrResp, EventResp, ReportDataResp};
use rs_matter::im::events::EVENT_DATA_TAG;
use rs_matter::im::{EventPriority, IMStatusCode, InteractionModel, InteractionModelState, OpCode, StatusResp};
use rs_matter::persist::DummyKvBlobStore;
use rs_matter::respond::Responder;
use rs_matter::tlv::{FromTLV, TLVElement, TLVTag, TLVWrite};
use rs_matter::transport::exchange::{Exchange, MatterBuffers};
use rs_matter::transport::network::NoNetwork;
use rs_matter::utils::select::Coalesce;
use rs_matter::utils::storage::WriteBuf;

use rsm_harness::e2e::{self, Net};

const A: u16 = 1; // subscriber
const B: u16 = 2; // device under test
const A_NODE: u64 = 0x1111;
const B_NODE: u64 = 0x2222;
const NEAR: u64 = 24;
const ALL: u64 = (1 << NEAR) - 1;
/// padding of every attribute value: a wildcard priming takes several chunks
const PAD: usize = 120;

fn path_of_index(k: u64) -> (u16, u32, u32) {
    ((k / 8) as u16, (10 + (k / 4) % 2) as u32, (k % 4) as u32)
}

fn index_of_path(ep: u16, cl: u32, at: u32) -> Option<u64> {
    if ep < 3 && (10..12).contains(&cl) && at < 4 {
        Some(ep as u64 * 8 + (cl as u64 - 10) * 4 + at as u64)
    } else {
        None
    }
}

// ------------------------------------------------------------------ synthetic node

struct Synth {
    vers: Vec<Cell<u32>>,
    /// data version of each of the six clusters (index = endpoint * 2 + cluster - 10), bumped by every change
    dvs: Vec<Cell<u32>>,
    node: &'static Node<'static>,
}

const EVENTS_META: &[Event] = &[Event::new(1, Access::RV)];

impl Synth {
    fn new() -> Self {
        let mut endpoints = Vec::new();
        for ep in 0..3u16 {
            let mut cls = Vec::new();
            for cl in 10..12u32 {
                let attrs: Vec<Attribute> = (0..4u32).map(|a| Attribute::new(a, Access::RV, Quality::NONE)).collect();
                let attrs: &'static [Attribute] = Box::leak(attrs.into_boxed_slice());
                cls.push(Cluster::new(cl, 1, 0, attrs, &[], EVENTS_META, |_, _, _| true, |_, _, _| true, |_, _, _| true));
            }
            let cls: &'static [Cluster<'static>] = Box::leak(cls.into_boxed_slice());
            endpoints.push(Endpoint::new(ep, &[], cls));
        }
        let endpoints: &'static [Endpoint<'static>] = Box::leak(endpoints.into_boxed_slice());
        let node: &'static Node<'static> = Box::leak(Box::new(Node::new(endpoints)));
        Synth { vers: (0..NEAR).map(|_| Cell::new(1)).collect(), dvs: (0..6).map(|c| Cell::new(40 + c)).collect(), node }
    }
}

impl Handler for Synth {
    fn read(&self, ctx: impl ReadContext, reply: impl ReadReply) -> Result<(), Error> {
        let attr = ctx.attr();
        let k = index_of_path(attr.endpoint_id, attr.cluster_id, attr.attr_id).ok_or(ErrorCode::AttributeNotFound)?;
        let Some(mut writer) = reply.with_dataver(self.dvs[(k / 4) as usize].get())? else {
            return Ok(());
        };
        let mut v = self.vers[k as usize].get().to_le_bytes().to_vec();
        v.resize(4 + PAD, 0x5a);
        let tag = writer.tag();
        writer.writer().str(tag, &v)?;
        writer.complete()
    }

    fn write(&self, _ctx: impl WriteContext) -> Result<(), Error> {
        Err(ErrorCode::AttributeNotFound.into())
    }

    fn invoke(&self, _ctx: impl InvokeContext, _reply: impl InvokeReply) -> Result<(), Error> {
        Err(ErrorCode::CommandNotFound.into())
    }

    fn bump_dataver(&self, _ctx: impl MatchContext) {}
}

impl NonBlockingHandler for Synth {}

struct SynthDm<'a>(Async<&'a Synth>, &'a Synth);

impl Metadata for SynthDm<'_> {
    fn access<F, R>(&self, f: F) -> R
    where
        F: FnOnce(&Node<'_>) -> R,
    {
        f(self.1.node)
    }
}

impl rs_matter::dm::AsyncHandler for SynthDm<'_> {
    fn read_awaits(&self, _ctx: impl ReadContext) -> bool {
        false
    }
    fn write_awaits(&self, _ctx: impl WriteContext) -> bool {
        false
    }
    fn invoke_awaits(&self, _ctx: impl InvokeContext) -> bool {
        false
    }
    async fn read(&self, ctx: impl ReadContext, reply: impl ReadReply) -> Result<(), Error> {
        rs_matter::dm::AsyncHandler::read(&self.0, ctx, reply).await
    }
    fn bump_dataver(&self, _ctx: impl MatchContext) {}
}

// ------------------------------------------------------------------ messages

fn subscribe_request(min: u16, max: u16, mask: u64, keep: bool, events: bool, filters: &[(u64, u32)]) -> Vec<u8> {
    let mut buf = vec![0u8; 900];
    let n = {
        let mut wb = WriteBuf::new(&mut buf);
        (|| -> Result<usize, Error> {
            wb.start_struct(&TLVTag::Anonymous)?;
            wb.bool(&TLVTag::Context(0), keep)?;
            wb.u16(&TLVTag::Context(1), min)?;
            wb.u16(&TLVTag::Context(2), max)?;
            wb.start_array(&TLVTag::Context(3))?;
            if mask == ALL {
                wb.start_list(&TLVTag::Anonymous)?;
                wb.end_container()?;
            } else {
                for k in 0..NEAR {
                    if mask & (1 << k) != 0 {
                        let (ep, cl, at) = path_of_index(k);
                        wb.start_list(&TLVTag::Anonymous)?;
                        wb.u16(&TLVTag::Context(2), ep)?;
                        wb.u32(&TLVTag::Context(3), cl)?;
                        wb.u32(&TLVTag::Context(4), at)?;
                        wb.end_container()?;
                    }
                }
            }
            wb.end_container()?;
            if events {
                wb.start_array(&TLVTag::Context(4))?;
                wb.start_list(&TLVTag::Anonymous)?;
                wb.end_container()?;
                wb.end_container()?;
            }
            wb.bool(&TLVTag::Context(7), false)?;
            if !filters.is_empty() {
                wb.start_array(&TLVTag::Context(8))?;
                for (c, dv) in filters {
                    wb.start_struct(&TLVTag::Anonymous)?;
                    wb.start_list(&TLVTag::Context(0))?;
                    wb.u16(&TLVTag::Context(1), (c / 2) as u16)?;
                    wb.u32(&TLVTag::Context(2), (10 + c % 2) as u32)?;
                    wb.end_container()?;
                    wb.u32(&TLVTag::Context(1), *dv)?;
                    wb.end_container()?;
                }
                wb.end_container()?;
            }
            wb.u8(&TLVTag::Context(0xff), 12)?;
            wb.end_container()?;
            Ok(wb.get_tail())
        })()
        .unwrap()
    };
    buf.truncate(n);
    buf
}

/// what one ReportData chunk carried
#[derive(Debug, Default, Clone)]
struct Chunk {
    sub_id: Option<u32>,
    attrs: Vec<(u64, u32)>,
    events: Vec<u64>,
    more: bool,
    suppress: bool,
}

fn parse_chunk(payload: &[u8]) -> Result<Chunk, Error> {
    let resp = ReportDataResp::from_tlv(&TLVElement::new(payload))?;
    let mut c = Chunk {
        sub_id: resp.subscription_id,
        more: resp.more_chunks.unwrap_or(false),
        suppress: resp.suppress_response.unwrap_or(false),
        ..Default::default()
    };
    if let Some(attrs) = &resp.attr_reports {
        for a in attrs.iter() {
            if let AttrResp::Data(d) = a? {
                if let (Some(ep), Some(cl), Some(at)) = (d.path.endpoint, d.path.cluster, d.path.attr) {
                    if let Some(k) = index_of_path(ep, cl, at) {
                        let bytes = d.data.str()?;
                        let v = u32::from_le_bytes([bytes[0], bytes[1], bytes[2], bytes[3]]);
                        c.attrs.push((k, v));
                    }
                }
            }
        }
    }
    if let Some(events) = &resp.event_reports {
        for e in events.iter() {
            if let EventResp::Data(d) = e? {
                c.events.push(d.event_number);
            }
        }
    }
    Ok(c)
}

async fn status(ex: &mut Exchange<'_>, code: IMStatusCode) -> Result<(), Error> {
    ex.send_with(|_, wb| {
        StatusResp::write(wb, code)?;
        Ok(Some(OpCode::StatusResponse.into()))
    })
    .await
}

// ------------------------------------------------------------------ the trace being built

/// operations of the table model with time values still to be read back from the real table
struct Trace {
    toks: Vec<(String, String, char)>, // (op with {tN}/{lN} placeholders, snapshot or "-", answer)
    times: Vec<Option<u64>>,
    lags: Vec<Option<u64>>,
}

impl Trace {
    fn new() -> Self {
        Trace { toks: Vec::new(), times: Vec::new(), lags: Vec::new() }
    }
    fn time(&mut self) -> usize {
        self.times.push(None);
        self.times.len() - 1
    }
    fn lag(&mut self) -> usize {
        self.lags.push(None);
        self.lags.len() - 1
    }
    fn op(&mut self, op: String) {
        self.toks.push((op, "-".into(), '-'));
    }
    fn op_ans(&mut self, op: String, ans: bool) {
        self.toks.push((op, "-".into(), if ans { 't' } else { 'f' }));
    }
    /// operations that happened earlier than they became known (a report whose first transmission was lost)
    fn insert(&mut self, pos: usize, ops: Vec<(String, String, char)>) {
        for (i, o) in ops.into_iter().enumerate() {
            self.toks.insert(pos + i, o);
        }
    }
    /// attach a snapshot to the last operation
    fn snap(&mut self, s: String) {
        if let Some(t) = self.toks.last_mut() {
            t.1 = s;
        }
    }
    fn render(&self, fallback: u64) -> String {
        let mut out = String::new();
        for (op, snap, ans) in &self.toks {
            let mut op = op.clone();
            for (i, t) in self.times.iter().enumerate() {
                op = op.replace(&format!("{{t{}}}", i), &t.unwrap_or(fallback).to_string());
            }
            for (i, l) in self.lags.iter().enumerate() {
                op = op.replace(&format!("{{l{}}}", i), &l.unwrap_or(0).to_string());
            }
            write!(out, " {}~{}~{}", op, snap, ans).unwrap();
        }
        out
    }
}

#[derive(Clone)]
struct SubInfo {
    mask: u64,
    min: u16,
    max: u16,
    events: bool,
    t_acc: usize,
    established: bool,
    ended_by_script: bool,
    since_evn: u64,
    /// paths of clusters whose DataVersionFilter equals the cluster's version at the subscribe request:
    /// the priming leaves them out (the subscriber says it holds that version already)
    held_already: u64,
}

/// the report (or priming) whose chunk is currently unanswered
struct Held<'a> {
    ex: Exchange<'a>,
    sid: u32,
    chunk: Chunk,
    /// paths of the request already passed by this report
    passed: u64,
    /// time / lag placeholders of the report (None for a priming)
    t_iter: Option<usize>,
    l_iter: Option<usize>,
    evn_at_begin: u64,
    /// the report was begun before it was seen (first transmission lost): its reads go here
    insert_at: Option<usize>,
    /// (priming) the change watermark when the request was accepted
    seen_at_add: u64,
}

fn ms(i: Instant) -> u64 {
    if i == Instant::MAX {
        u64::MAX
    } else {
        i.as_millis()
    }
}

fn ims(v: u64) -> String {
    if v == u64::MAX {
        "M".into()
    } else {
        v.to_string()
    }
}

pub fn run_scenario(line: &str, out: &mut String) {
    let f: Vec<&str> = line.split(' ').filter(|t| !t.is_empty()).collect();
    let id = f[1];
    let steps: Vec<String> = f[3..].iter().map(|s| s.to_string()).collect();
    let r = if f[2] == "S" { run::<448>(&steps) } else { run::<8192>(&steps) };
    writeln!(out, "U {} {}", id, r).unwrap();
}

fn run<const NE: usize>(steps: &[String]) -> String {
    let drop_ba = Rc::new(Cell::new(0u32));
    let mute_a = Rc::new(Cell::new(false));
    let net = {
        let (drop_ba, mute_a) = (drop_ba.clone(), mute_a.clone());
        Net::new(move |src, _, _, _| {
            if src == B && drop_ba.get() > 0 {
                drop_ba.set(drop_ba.get() - 1);
                e2e::Action::Drop
            } else if src == A && mute_a.get() {
                e2e::Action::Drop
            } else {
                e2e::Action::Deliver
            }
        })
    };
    let crypto = test_only_crypto();
    let det = e2e::dev_det(Some(40), Some(40));
    let matter_a = e2e::new_matter(det, true);
    let matter_b = e2e::new_matter(det, true);
    e2e::preset_case_session(&matter_a, &crypto, A_NODE, B_NODE, 1, 2, e2e::node_addr(B), 1, Default::default()).unwrap();
    e2e::preset_case_session(&matter_b, &crypto, B_NODE, A_NODE, 2, 1, e2e::node_addr(A), 1, Default::default()).unwrap();
    {
        let mut acl = AclEntry::new(None, Privilege::ADMIN, AuthMode::Case);
        acl.add_subject(A_NODE).unwrap();
        matter_b.with_state(|state| {
            state.fabrics.fabric_mut(NonZeroU8::new(1).unwrap()).unwrap().acl_add(acl).unwrap();
        });
    }
    let (a_tx, a_rx) = net.attach(A);
    let (b_tx, b_rx) = net.attach(B);

    let synth = Synth::new();
    let buffers: Box<MatterBuffers> = Box::new(MatterBuffers::new());
    let state: Box<InteractionModelState<DummyNetworks, 3, NE>> = Box::new(InteractionModelState::new(DummyNetworks));
    state.suppress_start_up_event();
    let kv = matter_b.kv(DummyKvBlobStore);
    let dm = InteractionModel::new(&matter_b, &crypto, &*buffers, SynthDm(Async(&synth), &synth), &kv, &*state);
    let responder = Responder::new_default(&dm);

    let trace = RefCell::new(Trace::new());
    let subs_info: RefCell<BTreeMap<u32, SubInfo>> = RefCell::new(BTreeMap::new());
    let known: RefCell<BTreeMap<(u32, u64), u32>> = RefCell::new(BTreeMap::new()); // (sub, path) -> version received
    let got_events: RefCell<BTreeMap<u32, Vec<u64>>> = RefCell::new(BTreeMap::new());
    let expect_events: RefCell<BTreeMap<u32, Vec<u64>>> = RefCell::new(BTreeMap::new());
    let evicted_lost: RefCell<Vec<(u32, u64)>> = RefCell::new(Vec::new());
    let notes: RefCell<Vec<String>> = RefCell::new(Vec::new());
    let evn = Cell::new(0u64);
    let session_gen = Cell::new(0u16);
    // when the subscriber last received anything for a subscription
    let last_rx: RefCell<BTreeMap<u32, u64>> = RefCell::new(BTreeMap::new());
    // (reported_at, attribute watermark, event watermark) of every table subscription as last explained by the trace
    let last_state: RefCell<BTreeMap<u32, (u64, u64, u64)>> = RefCell::new(BTreeMap::new());

    // the real table, in the text form of the component harness (contexts cannot be observed: "/X")
    let snapshot = || -> String {
        let snap = state.subscriptions().verif_snapshot();
        let info = subs_info.borrow();
        let sub_text = |v: &rs_matter::im::subscriptions::VerifSub| {
            format!(
                "{}.{}.{}.{}.{}.{}.{}.{}.{}.{}.{}.{}",
                v.id,
                v.fab_idx,
                v.peer_node_id,
                v.min_int_secs,
                v.max_int_secs,
                ims(ms(v.reported_at)),
                ims(ms(v.accepted_at)),
                ims(ms(v.retry_at)),
                v.fail_count,
                v.max_seen_attr_change_id,
                v.max_seen_event_number,
                info.get(&v.id).map_or(0, |i| i.mask)
            )
        };
        format!(
            "n{}.{}.{}.{}.{}/T{}/S{}/X",
            snap.next_subscription_id,
            snap.subscriptions_count,
            snap.next_change_id,
            snap.reporting.as_ref().map_or("-".to_string(), |s| s.id.to_string()),
            snap.reporting_cancelled as u8,
            snap.changed_attrs.iter().map(|e| format!("{}.{}.{}.{}", e.0, e.1, e.2, e.3)).collect::<Vec<_>>().join(","),
            snap.subscriptions.iter().map(sub_text).collect::<Vec<_>>().join(","),
        )
    };
    // read times back from the real table
    let resolve_times = || {
        let snap = state.subscriptions().verif_snapshot();
        let info = subs_info.borrow();
        let mut tr = trace.borrow_mut();
        for v in snap.subscriptions.iter().chain(snap.reporting.iter()) {
            if let Some(i) = info.get(&v.id) {
                if tr.times[i.t_acc].is_none() {
                    tr.times[i.t_acc] = Some(ms(v.accepted_at));
                }
            }
        }
    };

    let inbox: RefCell<std::collections::VecDeque<(Exchange<'_>, u8, Vec<u8>)>> = RefCell::new(Default::default());

    // ---- what the subscriber knows against what the device holds (taken before the nodes are torn down)
    let final_tokens = || -> String {
        let snap = state.subscriptions().verif_snapshot();
        let retained: Vec<u64> = state.events().verif_dump().iter().map(|e| e.1).collect();
        let mut fin = String::new();
        for (sid, i) in subs_info.borrow().iter() {
            let alive = snap.subscriptions.iter().any(|s| s.id == *sid) || snap.reporting.as_ref().map_or(false, |r| r.id == *sid);
            if i.established && !i.ended_by_script {
                write!(fin, " L:{}:{}", sid, alive as u8).unwrap();
            }
            if !alive || !i.established || i.ended_by_script {
                continue;
            }
            // the instant liveness and expiry are measured from is never later than the last message the subscriber got
            if let (Some(v), Some(rx)) = (snap.subscriptions.iter().find(|s| s.id == *sid), last_rx.borrow().get(sid)) {
                if v.reported_at != Instant::MAX && v.fail_count == 0 {
                    write!(fin, " P:{}:{}:{}", sid, ms(v.reported_at), rx).unwrap();
                }
            }
            for k in 0..NEAR {
                if i.mask & (1 << k) != 0 {
                    let dev = synth.vers[k as usize].get();
                    let got = known.borrow().get(&(*sid, k)).copied().unwrap_or(0);
                    write!(fin, " F:{}:{}:{}:{}", sid, k, dev, got).unwrap();
                }
            }
            if i.events {
                let exp: Vec<u64> = expect_events.borrow().get(sid).cloned().unwrap_or_default().into_iter().filter(|n| *n > i.since_evn).collect();
                let got: Vec<u64> = got_events.borrow().get(sid).cloned().unwrap_or_default().into_iter().filter(|n| *n > i.since_evn).collect();
                let lost_evicted: Vec<u64> = exp.iter().copied().filter(|n| !got.contains(n) && !retained.contains(n)).collect();
                let j = |v: &Vec<u64>| if v.is_empty() { "-".to_string() } else { v.iter().map(|n| n.to_string()).collect::<Vec<_>>().join(".") };
                write!(fin, " G:{}:{}:{}:{}", sid, j(&exp), j(&got), j(&lost_evicted)).unwrap();
            }
        }
        fin
    };
    let fin_cell: RefCell<String> = RefCell::new(String::new());

    let outcome = e2e::block_on(async {
        let device = select4(
            matter_b.run(&crypto, b_tx, b_rx, NoNetwork),
            responder.run::<3>(),
            dm.run(),
            matter_a.run(&crypto, a_tx, a_rx, NoNetwork),
        )
        .coalesce();

        // a subscriber keeps accepting: exchanges opened by the device are taken in at once (their first
        // message is copied and the receive slot released), whatever the script is doing
        let acceptor = async {
            loop {
                let mut ex = Exchange::accept(&matter_a).await?;
                ex.recv_fetch().await?;
                let (opcode, payload) = {
                    let rx = ex.rx()?;
                    (rx.meta().proto_opcode, rx.payload().to_vec())
                };
                ex.rx_done()?;
                inbox.borrow_mut().push_back((ex, opcode, payload));
            }
            #[allow(unreachable_code)]
            Ok::<(), Error>(())
        };

        let client = async {
            let mut prim: Option<Held<'_>> = None;
            let mut rep: Option<Held<'_>> = None;
            // is the reporter task known to be parked (past its purge)?
            let mut iter_open: Option<(usize, usize)> = None; // (time, lag placeholders) of the open iteration
            // a report seen in flight in the table whose first chunk has not arrived yet:
            // (position of its reads in the trace, time, lag placeholders, event watermark)
            let mut pending_begin: Option<(usize, usize, usize, u64, u64)> = None;

            // record what a chunk carried: the reads of the model, and the subscriber's knowledge
            macro_rules! note_chunk {
                ($h:expr) => {{
                    let h: &mut Held<'_> = $h;
                    let info = subs_info.borrow().get(&h.sid).cloned();
                    if let Some(info) = info {
                        let last = h.chunk.attrs.last().map(|a| a.0);
                        let mut ops: Vec<(String, String, char)> = Vec::new();
                        for k in 0..NEAR {
                            if info.mask & (1 << k) == 0 || h.passed & (1 << k) != 0 {
                                continue;
                            }
                            let emitted = h.chunk.attrs.iter().any(|a| a.0 == k)
                                || (h.t_iter.is_none() && info.held_already & (1 << k) != 0);
                            // skipped paths up to the last emitted one belong to this chunk; the trailing ones
                            // to the last chunk
                            if emitted || last.map_or(false, |l| k < l) || !h.chunk.more {
                                ops.push((format!("R:{}:{}", h.sid, k), "-".into(), if emitted { 't' } else { 'f' }));
                                h.passed |= 1 << k;
                            }
                        }
                        match h.insert_at.take() {
                            Some(pos) => trace.borrow_mut().insert(pos, ops),
                            None => {
                                trace.borrow_mut().toks.extend(ops);
                                trace.borrow_mut().snap(snapshot());
                            }
                        }
                        for (k, v) in &h.chunk.attrs {
                            known.borrow_mut().insert((h.sid, *k), *v);
                        }
                        last_rx.borrow_mut().insert(h.sid, ms(Instant::now()));
                        got_events.borrow_mut().entry(h.sid).or_default().extend(h.chunk.events.iter().copied());
                    } else {
                        notes.borrow_mut().push(format!("report-for-unknown-subscription:{}", h.sid));
                    }
                }};
            }

            // a report exchange opened by the device: fetch its first chunk
            macro_rules! take_report {
                ($ex:expr) => {{
                    let (ex, opcode, payload): (Exchange<'_>, u8, Vec<u8>) = $ex;
                    if opcode != OpCode::ReportData as u8 {
                        notes.borrow_mut().push(format!("unexpected-opcode:{}", opcode));
                        None
                    } else {
                        let chunk = parse_chunk(&payload)?;
                        let sid = chunk.sub_id.unwrap_or(0);
                        let mut h = match pending_begin.take() {
                            // the report was begun (seen in flight in the table) before its first chunk got through
                            Some((pos, t, l, e, w)) => Held { ex, sid, chunk, passed: 0, t_iter: Some(t), l_iter: Some(l), evn_at_begin: e, insert_at: Some(pos), seen_at_add: w },
                            None => {
                                // every report carries its own time and event watermark (read back when it
                                // succeeds). One that arrives while the reporter was parked opens a new iteration;
                                // one that follows another report may belong to the same iteration or to the next
                                // (the reporter found nothing more, purged, and woke up again at once): the monitor
                                // decides that with the model ('q').
                                let mut tr = trace.borrow_mut();
                                let t = tr.time();
                                let l = tr.lag();
                                if iter_open.is_none() {
                                    tr.op(format!("W:{{t{}}}", t));
                                    tr.op(format!("B:{{t{}}}:{{l{}}}", t, l));
                                } else {
                                    tr.toks.push((format!("B:{{t{}}}:{{l{}}}", t, l), "-".into(), 'q'));
                                }
                                drop(tr);
                                iter_open = Some((t, l));
                                Held { ex, sid, chunk, passed: 0, t_iter: Some(t), l_iter: Some(l), evn_at_begin: evn.get(), insert_at: None, seen_at_add: state.subscriptions().verif_snapshot().next_change_id - 1 }
                            }
                        };
                        note_chunk!(&mut h);
                        Some(h)
                    }
                }};
            }

            // after an injection (or an answered report) with the reporter free: either a report shows up
            // or the reporter found nothing and purged
            macro_rules! settle_reporter {
                ($wait:expr) => {{
                    if rep.is_none() {
                        let mut waited = 0u64;
                        while inbox.borrow().is_empty() && waited < $wait {
                            Timer::after(Duration::from_millis(1)).await;
                            waited += 1;
                        }
                        let next = inbox.borrow_mut().pop_front();
                        match next {
                            Some(m) => {
                                rep = take_report!(m);
                            }
                            None if !state.subscriptions().verif_report_slot_free() => {
                                // nothing arrived, but the table shows a report in flight: its first chunk is
                                // still on its way (lost, being retransmitted)
                                if pending_begin.is_none() {
                                    let (t, l) = match iter_open {
                                        Some(tl) => tl,
                                        None => {
                                            let mut tr = trace.borrow_mut();
                                            let t = tr.time();
                                            let l = tr.lag();
                                            tr.op(format!("W:{{t{}}}", t));
                                            (t, l)
                                        }
                                    };
                                    iter_open = Some((t, l));
                                    let mut tr = trace.borrow_mut();
                                    tr.op(format!("B:{{t{}}}:{{l{}}}", t, l));
                                    pending_begin = Some((tr.toks.len(), t, l, evn.get(), state.subscriptions().verif_snapshot().next_change_id - 1));
                                    drop(tr);
                                    trace.borrow_mut().snap(snapshot());
                                }
                            }
                            None => {
                                // a report that turned out empty is not sent at all, but its watermarks and time
                                // are committed: visible only in the table
                                {
                                    let snap = state.subscriptions().verif_snapshot();
                                    for v in snap.subscriptions.iter() {
                                        let cur = (ms(v.reported_at), v.max_seen_attr_change_id, v.max_seen_event_number);
                                        let old = last_state.borrow().get(&v.id).copied();
                                        if let (Some(old), Some(info)) = (old, subs_info.borrow().get(&v.id)) {
                                            if old != cur && v.fail_count == 0 {
                                                let mut tr = trace.borrow_mut();
                                                let t = tr.time();
                                                let l = tr.lag();
                                                // (an unsent report leaves reported_at alone: then the time is ours)
                                                tr.times[t] = Some(if cur.0 == old.0 { ms(Instant::now()) } else { cur.0 });
                                                tr.lags[l] = Some(evn.get().saturating_sub(cur.2));
                                                if iter_open.is_none() {
                                                    tr.op(format!("W:{{t{}}}", t));
                                                    tr.op(format!("B:{{t{}}}:{{l{}}}", t, l));
                                                } else {
                                                    tr.toks.push((format!("B:{{t{}}}:{{l{}}}", t, l), "-".into(), 'q'));
                                                }
                                                for k in 0..NEAR {
                                                    if info.mask & (1 << k) != 0 {
                                                        tr.op_ans(format!("R:{}:{}", v.id, k), false);
                                                    }
                                                }
                                                tr.op(format!("X:{}:s", v.id));
                                                iter_open = Some((t, l));
                                            }
                                        }
                                        last_state.borrow_mut().insert(v.id, cur);
                                    }
                                }
                                let mut tr = trace.borrow_mut();
                                match iter_open.take() {
                                    Some((t, _)) => {
                                        tr.op(format!("B:{{t{}}}:0", t));
                                    }
                                    None => {
                                        let t = tr.time();
                                        tr.times[t] = Some(ms(Instant::now()));
                                        tr.op(format!("W:{{t{}}}", t));
                                        tr.op(format!("B:{{t{}}}:0", t));
                                    }
                                }
                                tr.op("P".into());
                                drop(tr);
                                trace.borrow_mut().snap(snapshot());
                            }
                        }
                    }
                }};
            }

            // the held report chunk is answered
            macro_rules! answer_report {
                ($code:expr) => {{
                    if let Some(mut h) = rep.take() {
                        let more = h.chunk.more;
                        let ok = $code == IMStatusCode::Success;
                        if ok && !more && h.chunk.suppress {
                            h.ex.acknowledge().await?;
                        } else {
                            status(&mut h.ex, $code).await?;
                        }
                        if ok && more {
                            h.ex.recv_fetch().await?;
                            let payload = h.ex.rx()?.payload().to_vec();
                            h.ex.rx_done()?;
                            h.chunk = parse_chunk(&payload)?;
                            note_chunk!(&mut h);
                            rep = Some(h);
                        } else {
                            // the device completes the report
                            Timer::after(Duration::from_millis(6)).await;
                            let snap = state.subscriptions().verif_snapshot();
                            let me = snap.subscriptions.iter().chain(snap.reporting.iter()).find(|s| s.id == h.sid);
                            {
                                let mut tr = trace.borrow_mut();
                                if ok {
                                    if let (Some(t), Some(l), Some(me)) = (h.t_iter, h.l_iter, me) {
                                        if tr.times[t].is_none() {
                                            tr.times[t] = Some(ms(me.reported_at));
                                        }
                                        if tr.lags[l].is_none() {
                                            tr.lags[l] = Some(h.evn_at_begin.saturating_sub(me.max_seen_event_number.min(h.evn_at_begin)));
                                        }
                                    }
                                    tr.op(format!("X:{}:o", h.sid));
                                } else {
                                    tr.op(format!("X:{}:d", h.sid));
                                    if let Some(i) = subs_info.borrow_mut().get_mut(&h.sid) {
                                        i.ended_by_script = true;
                                    }
                                }
                            }
                            if let (Some(me), true) = (me, ok) {
                                // what THIS report committed (the table may already show a later, unsent report)
                                last_state.borrow_mut().insert(
                                    h.sid,
                                    (ms(me.reported_at), h.seen_at_add, me.max_seen_event_number.min(h.evn_at_begin)),
                                );
                            }
                            // (no snapshot here: the reporter has gone on by the time one could be taken)
                            // the reporter goes on within the same iteration
                            settle_reporter!(15);
                        }
                    }
                }};
            }

            for step in steps {
                let f: Vec<&str> = step.split(':').collect();
                let n = |i: usize| -> u64 { f.get(i).and_then(|s| s.parse().ok()).unwrap_or(0) };
                match f[0] {
                    "s" => {
                        let (min, max, mask, keep, events) = (n(1) as u16, n(2) as u16, n(3), n(4) != 0, n(5) != 0);
                        // DataVersionFilters: f<cluster index>+<delta to the current version>
                        let mut filters: Vec<(u64, u32)> = Vec::new();
                        let mut held_already = 0u64;
                        if let Some(spec) = f.get(6) {
                            for item in spec.split('/') {
                                if let Some((c, d)) = item.trim_start_matches('f').split_once('+') {
                                    let (c, d): (u64, u32) = (c.parse().unwrap_or(0) % 6, d.parse().unwrap_or(0));
                                    filters.push((c, synth.dvs[c as usize].get() + d));
                                    if d == 0 {
                                        held_already |= 0xf << (4 * c);
                                    }
                                }
                            }
                        }
                        let mut ex = Exchange::initiate(&matter_a, &crypto, NonZeroU8::new(1).unwrap(), B_NODE).await?;
                        ex.send(OpCode::SubscribeRequest, &subscribe_request(min, max, mask, keep, events, &filters)).await?;
                        ex.recv_fetch().await?;
                        let (opcode, payload) = {
                            let rx = ex.rx()?;
                            (rx.meta().proto_opcode, rx.payload().to_vec())
                        };
                        ex.rx_done()?;
                        if opcode != OpCode::ReportData as u8 {
                            notes.borrow_mut().push(format!("subscribe-refused:{}", opcode));
                            ex.acknowledge().await?;
                            continue;
                        }
                        let chunk = parse_chunk(&payload)?;
                        let sid = chunk.sub_id.unwrap_or(0);
                        {
                            let mut tr = trace.borrow_mut();
                            if !keep {
                                tr.op(format!("M:1:{}", A_NODE));
                                for i in subs_info.borrow_mut().values_mut() {
                                    i.ended_by_script = true;
                                }
                            }
                            let t = tr.time();
                            tr.op(format!("S:1:{}:{}:{}:{}:{{t{}}}:0", A_NODE, min, max.max(40), mask, t));
                            subs_info.borrow_mut().insert(
                                sid,
                                SubInfo { mask, min, max: max.max(40), events, t_acc: t, established: false, ended_by_script: false, since_evn: evn.get(), held_already },
                            );
                            // what the subscriber says it holds already
                            for k in 0..NEAR {
                                if mask & held_already & (1 << k) != 0 {
                                    known.borrow_mut().insert((sid, k), synth.vers[k as usize].get());
                                }
                            }
                        }
                        let mut h = Held { ex, sid, chunk, passed: 0, t_iter: None, l_iter: None, evn_at_begin: evn.get(), insert_at: None, seen_at_add: state.subscriptions().verif_snapshot().next_change_id - 1 };
                        note_chunk!(&mut h);
                        prim = Some(h);
                    }
                    "a" | "A" => {
                        while let Some(mut h) = prim.take() {
                            status(&mut h.ex, IMStatusCode::Success).await?;
                            h.ex.recv_fetch().await?;
                            let (opcode, payload) = {
                                let rx = h.ex.rx()?;
                                (rx.meta().proto_opcode, rx.payload().to_vec())
                            };
                            h.ex.rx_done()?;
                            if opcode == OpCode::ReportData as u8 {
                                h.chunk = parse_chunk(&payload)?;
                                note_chunk!(&mut h);
                                prim = Some(h);
                                if f[0] == "a" {
                                    break;
                                }
                            } else if opcode == OpCode::SubscribeResponse as u8 {
                                h.ex.acknowledge().await?;
                                Timer::after(Duration::from_millis(6)).await;
                                resolve_times();
                                {
                                    let snap = state.subscriptions().verif_snapshot();
                                    if let Some(me) = snap.subscriptions.iter().chain(snap.reporting.iter()).find(|s| s.id == h.sid) {
                                        // as committed by the priming: its own time, the watermarks at the subscribe request
                                        last_state.borrow_mut().insert(h.sid, (ms(me.accepted_at), h.seen_at_add, h.evn_at_begin));
                                    }
                                }
                                trace.borrow_mut().op(format!("X:{}:o", h.sid));
                                if let Some(i) = subs_info.borrow_mut().get_mut(&h.sid) {
                                    i.established = true;
                                }
                                // the subscribe path notifies the reporter
                                settle_reporter!(15);
                            } else {
                                notes.borrow_mut().push(format!("priming-ended-with-opcode:{}", opcode));
                                trace.borrow_mut().op(format!("X:{}:d", h.sid));
                                trace.borrow_mut().snap(snapshot());
                            }
                        }
                    }
                    "c" => {
                        let k = n(1) % NEAR;
                        let (ep, cl, at) = path_of_index(k);
                        synth.vers[k as usize].set(synth.vers[k as usize].get() + 1);
                        synth.dvs[(k / 4) as usize].set(synth.dvs[(k / 4) as usize].get() + 1);
                        dm.notify_attr_changed(ep, cl, at);
                        trace.borrow_mut().op(format!("C:{}:{}:{}", ep, cl, at));
                        trace.borrow_mut().snap(snapshot());
                        settle_reporter!(15);
                    }
                    "e" => {
                        let prio = match n(1) {
                            0 => EventPriority::Debug,
                            1 => EventPriority::Info,
                            _ => EventPriority::Critical,
                        };
                        let num = state.events().verif_push_at(0, 10, 1, prio, 1000, &kv, |mut tw| tw.str(&EVENT_DATA_TAG, &[0x33; 40]))?;
                        evn.set(num);
                        state.subscriptions().notify_event_emitted(0, 10, 1);
                        for (sid, i) in subs_info.borrow().iter() {
                            if i.events && !i.ended_by_script {
                                expect_events.borrow_mut().entry(*sid).or_default().push(num);
                            }
                        }
                        trace.borrow_mut().op("E".into());
                        trace.borrow_mut().snap(snapshot());
                        settle_reporter!(15);
                    }
                    "r" => {
                        settle_reporter!(n(1).max(1));
                    }
                    "k" => answer_report!(IMStatusCode::Success),
                    "K" => {
                        let mut guard = 0;
                        while rep.is_some() && guard < 40 {
                            answer_report!(IMStatusCode::Success);
                            guard += 1;
                        }
                    }
                    "n" => answer_report!(IMStatusCode::InvalidSubscription),
                    "w" => Timer::after(Duration::from_millis(n(1))).await,
                    "m" => drop_ba.set(n(1) as u32),
                    "x" => {
                        if let Some(h) = rep.take() {
                            // nothing of the subscriber reaches the device any more
                            mute_a.set(true);
                            let t0 = Instant::now();
                            // the device gives up when MRP does
                            for _ in 0..800 {
                                Timer::after(Duration::from_millis(10)).await;
                                if state.subscriptions().verif_report_slot_free() {
                                    break;
                                }
                            }
                            let snap = state.subscriptions().verif_snapshot();
                            {
                                let mut tr = trace.borrow_mut();
                                if let (Some(t), Some(me)) = (h.t_iter, snap.subscriptions.iter().find(|s| s.id == h.sid)) {
                                    if tr.times[t].is_none() && me.retry_at != Instant::MIN {
                                        let back = rs_matter::im::subscriptions::Subscription::verif_retry_backoff_secs(me.fail_count, me.max_int_secs) as u64;
                                        tr.times[t] = Some(ms(me.retry_at).saturating_sub(back * 1000));
                                    }
                                }
                                tr.op(format!("X:{}:f", h.sid));
                            }
                            trace.borrow_mut().snap(snapshot());
                            notes.borrow_mut().push(format!("gave-up-after-ms:{}", t0.elapsed().as_millis() / 100 * 100));
                            drop(h);
                            // the subscriber comes back on fresh sessions
                            let g = session_gen.get() + 1;
                            session_gen.set(g);
                            e2e::preset_case_session(&matter_a, &crypto, A_NODE, B_NODE, 1 + 2 * g, 2 + 2 * g, e2e::node_addr(B), 1, Default::default())?;
                            e2e::preset_case_session(&matter_b, &crypto, B_NODE, A_NODE, 2 + 2 * g, 1 + 2 * g, e2e::node_addr(A), 1, Default::default())?;
                            mute_a.set(false);
                            settle_reporter!(15);
                        }
                    }
                    "q" => {
                        // finish an open priming, then answer reports until the device stays quiet
                        let mut guard = 0;
                        loop {
                            guard += 1;
                            if guard > 60 {
                                notes.borrow_mut().push("never-quiet".into());
                                break;
                            }
                            if rep.is_some() {
                                answer_report!(IMStatusCode::Success);
                                continue;
                            }
                            let mut waited = 0u64;
                            while inbox.borrow().is_empty() && waited < n(1).max(40) {
                                Timer::after(Duration::from_millis(1)).await;
                                waited += 1;
                            }
                            let next = inbox.borrow_mut().pop_front();
                            match next {
                                Some(m) => {
                                    rep = take_report!(m);
                                }
                                // a report is in flight (lost, being retransmitted): it will come
                                None if !state.subscriptions().verif_report_slot_free() => {}
                                None => break,
                            }
                        }
                    }
                    _ => {}
                }
            }
            *fin_cell.borrow_mut() = final_tokens();
            drop(prim);
            drop(rep);
            Ok::<(), Error>(())
        };

        let device = core::pin::pin!(device);
        let acceptor = core::pin::pin!(acceptor);
        let client = core::pin::pin!(client);
        match select(select(device, acceptor), select(client, Timer::after(Duration::from_millis(30_000)))).await {
            Either::First(Either::First(r)) => format!("transport-exit:{:?}", r.map_err(|e| e.code())),
            Either::First(Either::Second(r)) => format!("acceptor-exit:{:?}", r.map_err(|e| e.code())),
            Either::Second(Either::First(Ok(()))) => "done".to_string(),
            Either::Second(Either::First(Err(e))) => format!("client-err:{:?}", e.code()),
            Either::Second(Either::Second(_)) => "hang".to_string(),
        }
    });

    inbox.borrow_mut().clear();

    let _ = evicted_lost;
    let mut line = format!("{}", outcome);
    for nte in notes.borrow().iter() {
        write!(line, ",{}", nte).unwrap();
    }
    if std::env::var("C13_DEBUG").is_ok() {
        for t in net.tap().iter() {
            eprintln!("{} ms: {} -> {} len {} {:?} key {:?}", t.t_ms, t.src, t.dst, t.bytes.len(), t.action, e2e::plain_key(t).map(|k| (k.1, k.2)));
        }
    }
    let fallback = ms(Instant::now());
    let fin = fin_cell.borrow().clone();
    format!("{} |{} |{}", line, trace.borrow().render(fallback), fin)
}
