//! C10: component-level (P) and stepped-system (S) parts + case generation. (stub, filled in below)
use rsm_harness::Rng;

pub fn run_p(_f: &[&str]) -> String {
    String::new()
}
pub fn run_s(_ops: &str) -> String {
    String::new()
}
pub fn generate(_tier: &str, _rng: &mut Rng) -> Vec<String> {
    Vec::new()
}
