//! C10: component-level (P: one `Session::post_recv`), stepped-system (S: the real transport
//! driven one model label at a time through the verification hooks) parts, and case generation.
use core::num::NonZeroU8;
use std::cell::RefCell;
use std::fmt::Write as _;
use std::rc::Rc;
use std::time::Instant;

use rs_matter::crypto::test_only_crypto;
use rs_matter::error::Error;
use rs_matter::transport::exchange::{Exchange, MessageMeta};
use rs_matter::transport::network::{Address, NetworkSend};
use rs_matter::transport::packet::PacketHdr;
use rs_matter::transport::session::{Session, SessionMode, VerifSessionSnapshot};
use rs_matter::transport::verif_hooks::RxCtrState;
use rs_matter::utils::sync::IfMutex;

use rsm_harness::e2e;
use rsm_harness::Rng;

use super::{classify, craft, craft_group, err_class, group_sid, install_group, op_wire, status_payload, B_NODE, G, G_NODE, PROTO};

pub const MAX_EXCHANGES: usize = 5;

// ------------------------------------------------------------------ P

/// `<exid>/<I|R>/<o|d|p>/<retr|->/<ack|ack+|->` or `-`
fn parse_slot(s: &str) -> Option<(u16, char, char, Option<u32>, Option<(u32, bool)>)> {
    if s == "-" {
        return None;
    }
    let p: Vec<&str> = s.split('/').collect();
    let retr = if p[3] == "-" { None } else { Some(p[3].parse().unwrap()) };
    let ack = if p[4] == "-" {
        None
    } else if let Some(a) = p[4].strip_suffix('+') {
        Some((a.parse().unwrap(), true))
    } else {
        Some((p[4].parse().unwrap(), false))
    };
    Some((p[0].parse().unwrap(), p[1].chars().next().unwrap(), p[2].chars().next().unwrap(), retr, ack))
}

pub struct Msg {
    pub ctr: u32,
    pub exid: u16,
    pub init: bool,
    pub op: char,
    pub rel: bool,
    pub ack: Option<u32>,
}

/// `<ctr>:<exid>:<i|r>:<op>:<rel>:<ack|->`
pub fn parse_msg(s: &str) -> Msg {
    let p: Vec<&str> = s.split(':').collect();
    Msg {
        ctr: p[0].parse().unwrap(),
        exid: p[1].parse().unwrap(),
        init: p[2] == "i",
        op: p[3].chars().next().unwrap(),
        rel: p[4] == "1",
        ack: if p[5] == "-" { None } else { Some(p[5].parse().unwrap()) },
    }
}

fn hdr_of(m: &Msg, sess_id: u16) -> PacketHdr {
    let mut hdr = PacketHdr::new();
    hdr.plain.sess_id = sess_id;
    hdr.plain.ctr = m.ctr;
    hdr.proto.exch_id = m.exid;
    if m.init {
        hdr.proto.set_initiator();
    }
    if m.rel {
        hdr.proto.set_reliable();
    }
    hdr.proto.set_ack(m.ack);
    let (pid, opc) = op_wire(m.op);
    hdr.proto.proto_id = pid;
    hdr.proto.proto_opcode = opc;
    hdr
}

pub fn run_p(f: &[&str]) -> String {
    let mut enc = true;
    let mut grp = false;
    let mut exp = false;
    let mut win = (false, 0u32, 0u16);
    let mut pre: Vec<Option<(u16, char, char, Option<u32>, Option<(u32, bool)>)>> = vec![];
    let mut msg = None;
    for kv in &f[2..] {
        let Some((k, v)) = kv.split_once('=') else { continue };
        match k {
            "enc" => enc = v == "1",
            "grp" => grp = v == "1",
            "exp" => exp = v == "1",
            "win" => {
                let p: Vec<&str> = v.split(':').collect();
                win = (p[0] == "1", p[1].parse().unwrap(), p[2].parse().unwrap());
            }
            "pre" => pre = v.split(',').filter(|x| !x.is_empty()).map(parse_slot).collect(),
            "msg" => msg = Some(parse_msg(v)),
            _ => {}
        }
    }
    let msg = msg.unwrap();
    let mut s = Session::new(7, 100, false, e2e::node_addr(G), Some(G_NODE), 300, 300, 4000);
    if enc {
        s.verif_set_session_mode(SessionMode::Case { fab_idx: NonZeroU8::new(1).unwrap(), cat_ids: Default::default() });
    }
    if grp {
        s.verif_set_session_mode(SessionMode::Group { fab_idx: NonZeroU8::new(1).unwrap(), group_id: 7 });
    }
    s.verif_set_expired(exp);
    *s.verif_rx_ctr_state() = RxCtrState::verif_from_raw(win.0, win.1, win.2);
    for (i, slot) in pre.iter().enumerate() {
        s.verif_set_exchange(i, *slot);
    }
    let hdr = hdr_of(&msg, 5);
    let res = match s.verif_post_recv(&hdr) {
        Ok(false) => "routed",
        Ok(true) => "new",
        Err(e) => err_class(&e),
    };
    let snap = s.verif_snapshot();
    let w = snap.rx_ctr_state;
    format!("{} [{}] w={}:{}:{}", res, super::slots_str(&snap, super::table_len(&snap)), w.0 as u8, w.1, w.2)
}

// ------------------------------------------------------------------ S

#[derive(Clone)]
struct Collect(Rc<RefCell<Vec<Vec<u8>>>>);

impl NetworkSend for Collect {
    async fn send_to(&mut self, data: &[u8], _addr: Address) -> Result<(), Error> {
        self.0.borrow_mut().push(data.to_vec());
        Ok(())
    }
}

fn poll_once<F: core::future::Future>(f: F) -> Option<F::Output> {
    e2e::block_on(futures_lite::future::poll_once(f))
}

/// canonical slot for the stepped runs: retransmission counter reduced to a flag, initiator
/// exchange ids replaced by their script aliases
fn s_slots(snap: &VerifSessionSnapshot, alias: &[(u32, u16, u16)]) -> String {
    let n = super::table_len(snap);
    let mut v = Vec::new();
    for i in 0..n {
        match snap.exchanges.iter().find(|e| e.index == i) {
            Some(e) => {
                let id = if e.role == 'I' {
                    alias.iter().find(|a| a.0 == snap.id && a.1 == e.exch_id).map(|a| a.2).unwrap_or(e.exch_id)
                } else {
                    e.exch_id
                };
                v.push(format!(
                    "{}/{}/{}/{}/{}",
                    id,
                    e.role,
                    e.state,
                    if e.retrans_ctr.is_some() { "1" } else { "0" },
                    match e.ack_ctr {
                        Some((c, false)) => c.to_string(),
                        Some((c, true)) => format!("{}+", c),
                        None => "-".into(),
                    }
                ));
            }
            None => v.push("-".to_string()),
        }
    }
    v.join(",")
}

/// key of a session as the scripts name it: encrypted = local session id (1..9), unencrypted = 10 + low byte of the peer node id
fn key_of(snap: &VerifSessionSnapshot, gsid: u16) -> u32 {
    if snap.local_sess_id == gsid {
        9
    } else if snap.local_sess_id != 0 {
        snap.local_sess_id as u32
    } else {
        10 + (snap.peer_nodeid.unwrap_or(0) & 0xff) as u32
    }
}

pub fn run_s(ops: &str) -> String {
    let crypto = test_only_crypto();
    let det = e2e::dev_det(Some(80), Some(80));
    let matter = e2e::new_matter(det, true);
    install_group(&matter);
    let gsid = group_sid(&crypto);
    let runner = matter.transport_runner(&crypto);
    let sent = Rc::new(RefCell::new(Vec::<Vec<u8>>::new()));
    let send = IfMutex::new(Collect(sent.clone()));
    // live Exchange objects by creation ordinal
    let mut handles: Vec<Option<Exchange<'_>>> = Vec::new();
    // (session id, real exchange id, alias) of initiator exchanges
    let mut alias: Vec<(u32, u16, u16)> = Vec::new();
    let mut kept_at: Option<Instant> = None;
    let mut out = String::new();

    let state_str = |handles: &Vec<Option<Exchange<'_>>>, alias: &Vec<(u32, u16, u16)>| -> String {
        let sess: Vec<String> = matter.with_state(|st| {
            st.verif_sessions()
                .iter()
                .map(|s| {
                    let snap = s.verif_snapshot();
                    format!(
                        "S{}k{}{}{}[{}]",
                        snap.id,
                        key_of(&snap, gsid),
                        if matches!(snap.mode, SessionMode::Group { .. }) { 'g' } else if snap.local_sess_id != 0 { 'e' } else { 'u' },
                        if snap.expired { 'x' } else { '-' },
                        s_slots(&snap, alias)
                    )
                })
                .collect()
        });
        let (locked, holding, hdr) = runner.verif_rx_state();
        let rx = if locked {
            "T".to_string()
        } else if holding {
            let key = if hdr.plain.sess_id == gsid {
                9
            } else if hdr.plain.sess_id != 0 {
                hdr.plain.sess_id as u32
            } else {
                10 + (hdr.plain.get_src_nodeid().unwrap_or(0) & 0xff) as u32
            };
            // answers address initiator exchanges, which the scripts know by alias
            let exid = if hdr.proto.is_initiator() {
                hdr.proto.exch_id
            } else {
                alias.iter().find(|a| a.1 == hdr.proto.exch_id).map(|a| a.2).unwrap_or(hdr.proto.exch_id)
            };
            format!("H{}:{}:{}", key, exid, if hdr.proto.is_initiator() { 'i' } else { 'r' })
        } else {
            "E".to_string()
        };
        let hs: Vec<String> = handles.iter().map(|h| h.as_ref().map(|e| format!("{}", e.id()).replace("::", ".")).unwrap_or_else(|| "x".into())).collect();
        let (tl, tq) = runner.verif_tx_state();
        format!("{}|rx={}|tx={}|h={}", sess.join(";"), rx, if tl { 'T' } else if tq { 'Q' } else { 'E' }, hs.join(","))
    };

    for op in ops.split(';').filter(|x| !x.is_empty()) {
        let sent_before = sent.borrow().len();
        let kind = op.as_bytes()[0] as char;
        let arg = &op[1..];
        let res: String = match kind {
            '+' => {
                // establish an encrypted session with key = local session id
                let k: u16 = arg.parse().unwrap();
                match e2e::preset_case_session(&matter, &crypto, B_NODE, G_NODE, k, 20 + k, e2e::node_addr(G), 1, Default::default()) {
                    Ok(()) => "ok".into(),
                    Err(_) => "err".into(),
                }
            }
            '-' => {
                let sid: u32 = arg.parse().unwrap();
                let r = matter.with_state(|st| st.verif_sessions().remove(sid).is_some());
                if r { "ok".into() } else { "na".into() }
            }
            'x' => {
                let sid: u32 = arg.parse().unwrap();
                matter.with_state(|st| match st.verif_sessions().get(sid) {
                    Some(s) => {
                        s.verif_set_expired(true);
                        "ok".to_string()
                    }
                    None => "na".to_string(),
                })
            }
            't' => {
                let ms: u64 = arg.parse().unwrap();
                std::thread::sleep(std::time::Duration::from_millis(ms));
                "ok".into()
            }
            'r' => {
                // r<key>:<ctr>:<exid>:<i|r>:<op>:<rel>:<ack>   ack = - | @ (pending retransmission of the addressed exchange) | ! (a wrong counter)
                let p: Vec<&str> = arg.split(':').collect();
                let key: u32 = p[0].parse().unwrap();
                let mut exid: u16 = p[2].parse().unwrap();
                let init = p[3] == "i";
                let op = p[4].chars().next().unwrap();
                let rel = p[5] == "1";
                let encrypted = key < 10;
                // responder-role messages address initiator exchanges by alias
                let mut target_retr: Option<u32> = None;
                matter.with_state(|st| {
                    for s in st.verif_sessions().iter() {
                        let snap = s.verif_snapshot();
                        if key_of(&snap, gsid) != key {
                            continue;
                        }
                        if !init {
                            if let Some(a) = alias.iter().find(|a| a.0 == snap.id && a.2 == exid) {
                                exid = a.1;
                            }
                        }
                        for e in snap.exchanges.iter() {
                            if e.exch_id == exid && (e.role == 'R') == init {
                                target_retr = e.retrans_ctr;
                            }
                        }
                        break;
                    }
                });
                let ack = match p[6] {
                    "-" => None,
                    "@" => Some(target_retr.unwrap_or(0)),
                    _ => Some(target_retr.unwrap_or(0).wrapping_add(1000)),
                };
                let (pid, opc) = op_wire(op);
                let body = match op {
                    's' => status_payload(false),
                    'c' => status_payload(true),
                    _ => vec![0u8; 4],
                };
                let (sess_id, src) = if encrypted { (key as u16, G_NODE) } else { (0u16, 0x9000 + (key as u64 - 10)) };
                let pkt = if key == 9 {
                    // a real groupcast data message (group key installed on the device)
                    craft_group(&crypto, p[1].parse().unwrap(), exid, init, rel, pid, opc, &body)
                } else {
                    craft(&crypto, sess_id, p[1].parse().unwrap(), src, exid, init, rel, ack, pid, opc, &body, encrypted)
                };
                match e2e::block_on(runner.verif_rx_step(&pkt, e2e::node_addr(G), &send)) {
                    None => "busy".into(),
                    Some(true) => {
                        kept_at = Some(Instant::now());
                        "kept".into()
                    }
                    Some(false) => "gone".into(),
                }
            }
            'A' => match poll_once(Exchange::accept(&matter)) {
                Some(Ok(ex)) => {
                    let id = format!("{}", ex.id()).replace("::", ".");
                    handles.push(Some(ex));
                    format!("acc:{}", id)
                }
                Some(Err(_)) => "no".into(),
                None => "no".into(),
            },
            'v' => {
                let n: usize = arg.parse().unwrap();
                match handles.get_mut(n).and_then(|h| h.as_mut()) {
                    None => "na".into(),
                    Some(ex) => {
                        if ex.rx().is_ok() {
                            "holds".into()
                        } else {
                            match poll_once(ex.recv_fetch()) {
                                Some(Ok(rx)) => {
                                    let m = rx.meta();
                                    let letter = match (m.proto_id, m.proto_opcode) {
                                        (0, 0x10) => 'a',
                                        (0, 0x40) => 's',
                                        (0, 0x30) => 'n',
                                        _ => 'o',
                                    };
                                    format!("got:{}", letter)
                                }
                                Some(Err(_)) => "no".into(),
                                None => "no".into(),
                            }
                        }
                    }
                }
            }
            'd' => {
                let n: usize = arg.parse().unwrap();
                match handles.get_mut(n).and_then(|h| h.as_mut()) {
                    None => "na".into(),
                    Some(ex) => {
                        if ex.rx().is_ok() {
                            ex.rx_done().unwrap();
                            "ok".into()
                        } else {
                            "no".into()
                        }
                    }
                }
            }
            'D' => {
                let n: usize = arg.parse().unwrap();
                match handles.get_mut(n) {
                    Some(h) if h.is_some() => {
                        *h = None;
                        "ok".into()
                    }
                    _ => "na".into(),
                }
            }
            's' | 'q' => {
                // s<handle>:<rel> = init_send + complete + process_tx;  q<handle>:<rel> = without process_tx
                let p: Vec<&str> = arg.split(':').collect();
                let n: usize = p[0].parse().unwrap();
                let rel = p[1] == "1";
                match handles.get_mut(n).and_then(|h| h.as_mut()) {
                    None => "na".into(),
                    Some(ex) => {
                        let r = match poll_once(ex.init_send()) {
                            Some(Ok(tx)) => match tx.complete(PacketHdr::HDR_RESERVE, PacketHdr::HDR_RESERVE + 4, MessageMeta::new(PROTO, 3, rel)) {
                                Ok(()) => "ok".to_string(),
                                Err(e) if err_class(&e) == "txtimeout" => "timeout".to_string(),
                                Err(_) => "no".to_string(),
                            },
                            Some(Err(_)) => "no".to_string(),
                            None => "no".to_string(),
                        };
                        if kind == 's' {
                            let _ = runner.verif_tx_flush();
                        }
                        r
                    }
                }
            }
            'i' => {
                // i<sid>:<alias exid>
                let p: Vec<&str> = arg.split(':').collect();
                let sid: u32 = p[0].parse().unwrap();
                let al: u16 = p[1].parse().unwrap();
                match Exchange::initiate_for_session(&matter, &crypto, sid) {
                    Ok(ex) => {
                        let id = format!("{}", ex.id());
                        let (s, i) = id.split_once("::").unwrap();
                        let (s, i): (u32, usize) = (s.parse().unwrap(), i.parse().unwrap());
                        let real = matter.with_state(|st| {
                            st.verif_sessions().iter().find(|x| x.id() == s).and_then(|x| x.verif_snapshot().exchanges.iter().find(|e| e.index == i).map(|e| e.exch_id))
                        });
                        alias.push((s, real.unwrap_or(0), al));
                        handles.push(Some(ex));
                        format!("ini:{}", id.replace("::", "."))
                    }
                    Err(_) => "no".into(),
                }
            }
            'F' => match runner.verif_tx_flush_report() {
                Some((_, _, true)) => "sent".into(),
                Some((_, _, false)) => "dropped".into(),
                None => "no".into(),
            },
            'W' => match runner.verif_sweep_accept_timeout() {
                Some(true) => format!("fired~{}", kept_at.map(|t| t.elapsed().as_millis()).unwrap_or(0)),
                Some(false) => format!("no~{}", kept_at.map(|t| t.elapsed().as_millis()).unwrap_or(0)),
                None => "no~0".into(),
            },
            'O' => match runner.verif_sweep_orphaned() {
                Some(true) => "fired".into(),
                Some(false) => "no".into(),
                None => "no".into(),
            },
            'C' => match runner.verif_close_dropped() {
                Some((found, q)) => {
                    let what = match q {
                        None => "none".to_string(),
                        Some((0, 0x10, true)) => "sack".to_string(),
                        Some((0, 0x40, true)) => "close".to_string(),
                        Some((0, 0x10, false)) => "sack-unsent".to_string(),
                        Some((0, 0x40, false)) => "close-unsent".to_string(),
                        Some((p, o, _)) => format!("other{}:{}", p, o),
                    };
                    format!("{}:{}", if found { "closed" } else { "idle" }, what)
                }
                None => "txbusy".into(),
            },
            _ => "?".into(),
        };
        // what the transport sent directly during this step (duplicate acks, SessionNotFound, CloseSession on NoSpaceExchanges)
        let direct: Vec<String> = sent.borrow()[sent_before..].iter().map(|b| {
            let c = classify(&crypto, b, B_NODE);
            c.split(':').next().unwrap_or("").to_string()
        }).collect();
        write!(out, "{}{}@{} ", res, if direct.is_empty() { String::new() } else { format!("+{}", direct.join("+")) }, state_str(&handles, &alias)).unwrap();
    }
    drop(handles);
    out.trim_end().to_string()
}

// ------------------------------------------------------------------ generation

fn slot_str(exid: u16, role: char, state: char, retr: Option<u32>, ack: Option<(u32, bool)>) -> String {
    format!(
        "{}/{}/{}/{}/{}",
        exid,
        role,
        state,
        retr.map(|c| c.to_string()).unwrap_or_else(|| "-".into()),
        match ack {
            Some((c, false)) => c.to_string(),
            Some((c, true)) => format!("{}+", c),
            None => "-".into(),
        }
    )
}

const ROLE_STATES: [(char, char); 5] = [('I', 'o'), ('I', 'd'), ('R', 'p'), ('R', 'o'), ('R', 'd')];

pub fn generate(tier: &str, rng: &mut Rng) -> Vec<String> {
    let thorough = tier == "thorough";
    let mut cases = Vec::new();
    let mut id = 0u64;
    let mut nid = || {
        id += 1;
        id
    };

    // ---- P: exhaustive product
    //   exchange id known/unknown x initiator flag x opcode class x expired x table shape x role/state of the existing exchange
    //   x reliable x ack (none / matching the pending retransmission / not matching) x counter fresh/duplicate
    let ops = ['o', 'n', 'a', 's', 'c'];
    for &(role, state) in ROLE_STATES.iter() {
        for known in [true, false] {
            for init in [true, false] {
                for &op in ops.iter() {
                    for exp in [false, true] {
                        for shape in 0..4 {
                            for mrp in 0..4 {
                                // existing exchange: id 100; its reliability state
                                let (retr, ack) = match mrp {
                                    0 => (None, None),
                                    1 => (Some(77u32), None),
                                    2 => (None, Some((55u32, false))),
                                    _ => (Some(77u32), Some((55u32, true))),
                                };
                                let existing = slot_str(100, role, state, retr, ack);
                                let filler = |i: u16| slot_str(200 + i, 'R', 'o', None, None);
                                // table shapes: only the exchange; exchange + freed slot; full table (5); full length with a freed slot in the middle
                                let pre: Vec<String> = match shape {
                                    0 => vec![existing.clone()],
                                    1 => vec!["-".into(), existing.clone()],
                                    2 => vec![filler(0), filler(1), existing.clone(), filler(3), filler(4)],
                                    _ => vec![filler(0), "-".into(), existing.clone(), filler(3), filler(4)],
                                };
                                let exid = if known { 100 } else { 101 };
                                for (rel, ackv) in [(true, "-"), (false, "77"), (true, "78")] {
                                    cases.push(format!(
                                        "P {} enc=1 exp={} win=1:10:65535 pre={} msg=11:{}:{}:{}:{}:{}",
                                        nid(),
                                        exp as u8,
                                        pre.join(","),
                                        exid,
                                        if init { 'i' } else { 'r' },
                                        op,
                                        rel as u8,
                                        ackv
                                    ));
                                }
                                let _ = mrp;
                            }
                        }
                    }
                }
            }
        }
    }
    // the same routing on a session in group mode (ephemeral RX group session)
    for &(role, state) in ROLE_STATES.iter() {
        for known in [true, false] {
            for init in [true, false] {
                for &op in ops.iter() {
                    for exp in [false, true] {
                        for (rel, ackv) in [(true, "-"), (false, "77")] {
                            cases.push(format!(
                                "P {} enc=1 grp=1 exp={} win=0:0:0 pre={} msg=11:{}:{}:{}:{}:{}",
                                nid(),
                                exp as u8,
                                slot_str(100, role, state, None, None),
                                if known { 100 } else { 101 },
                                if init { 'i' } else { 'r' },
                                op,
                                rel as u8,
                                ackv
                            ));
                        }
                    }
                }
            }
        }
    }
    // duplicates / window edge, unencrypted sessions, empty table, two exchanges with the same id and opposite roles
    for enc in [true, false] {
        for (win, ctr) in [("0:0:0", 5u32), ("1:10:65535", 10), ("1:10:65535", 9), ("1:40:0", 30), ("1:40:0", 20), ("1:40:0", 41)] {
            for init in [true, false] {
                for pre in ["", "100/R/o/-/-", "100/I/o/-/-,100/R/o/-/-", "100/R/d/-/7,100/I/o/9/-"] {
                    cases.push(format!(
                        "P {} enc={} exp=0 win={} pre={} msg={}:100:{}:o:1:-",
                        nid(),
                        enc as u8,
                        win,
                        pre,
                        ctr,
                        if init { 'i' } else { 'r' }
                    ));
                }
            }
        }
    }
    // random tables
    let n_rand = if thorough { 40000 } else { 4000 };
    for _ in 0..n_rand {
        let len = rng.below(MAX_EXCHANGES as u64 + 1) as usize;
        let mut pre = Vec::new();
        for _ in 0..len {
            if rng.chance(1, 5) {
                pre.push("-".to_string());
            } else {
                let (r, s) = *rng.pick(&ROLE_STATES);
                let retr = if rng.chance(1, 3) { Some(70 + rng.below(3) as u32) } else { None };
                let ack = if rng.chance(1, 3) { Some((50 + rng.below(3) as u32, rng.chance(1, 2))) } else { None };
                pre.push(slot_str(100 + rng.below(3) as u16, r, s, retr, ack));
            }
        }
        let win = match rng.below(3) {
            0 => "0:0:0".to_string(),
            1 => format!("1:{}:{}", 10 + rng.below(30), rng.below(65536)),
            _ => "1:20:65535".to_string(),
        };
        let ackv = match rng.below(3) {
            0 => "-".to_string(),
            _ => (70 + rng.below(3)).to_string(),
        };
        cases.push(format!(
            "P {} enc={} exp={} win={} pre={} msg={}:{}:{}:{}:{}:{}",
            nid(),
            rng.chance(4, 5) as u8,
            rng.chance(1, 5) as u8,
            win,
            pre.join(","),
            rng.below(60),
            100 + rng.below(4),
            if rng.chance(1, 2) { 'i' } else { 'r' },
            rng.pick(&ops),
            rng.chance(2, 3) as u8,
            ackv
        ));
    }

    // ---- S: the transport stepped label by label
    let s_fixed: Vec<&str> = vec![
        // accept, deliver, consume, drop with ack pending, closer acknowledges
        "+1;r1:1:100:i:o:1:-;A;v0;d0;D0;C;C",
        // nobody accepts: accept timeout, orphan sweeper idle, closer acknowledges
        "+1;r1:1:100:i:o:1:-;W;O;t1100;W;C;O",
        // accepted then dropped before recv: orphan sweeper takes the message
        "+1;r1:1:100:i:o:1:-;A;D0;O;C",
        // session removed with a message in flight; a dangling Exchange must not take the next message
        "+1;+2;r1:1:100:i:o:1:-;A;v0;d0;-0;r2:1:200:i:o:1:-;v0;A;v1;d1;D1;D0;C",
        // message for an exchange whose session vanished while it sat in the slot
        "+1;r1:1:100:i:o:1:-;-0;W;O",
        // answers / acks / status reports to unknown exchanges; initiator opener on an expired session
        "+1;r1:1:100:r:o:1:-;r1:2:100:i:a:0:-;r1:3:100:i:s:0:-;r1:4:100:i:c:0:-;x0;r1:5:100:i:o:1:-",
        // duplicate counter => standalone ack; duplicate standalone ack => nothing
        "+1;r1:1:100:i:o:1:-;A;v0;d0;r1:1:100:i:o:1:-;r1:2:100:i:a:0:-;r1:2:100:i:a:0:-",
        // six openers on one session: the sixth closes the session (NoSpaceExchanges)
        "+1;r1:1:100:i:o:1:-;A;v0;d0;r1:2:101:i:o:1:-;A;v1;d1;r1:3:102:i:o:1:-;A;v2;d2;r1:4:103:i:o:1:-;A;v3;d3;r1:5:104:i:o:1:-;A;v4;d4;r1:6:105:i:o:1:-;v0;D0;C",
        // reliable reply abandoned mid-retransmission: closer closes the session
        "+1;+2;r1:1:100:i:o:1:-;A;v0;s0:1;D0;C;C;r2:1:200:i:o:1:-;A;v1",
        // initiator exchange: send, answer with matching ack, recv, drop
        "+1;i0:900;s0:1;r1:1:900:r:o:1:@;v0;d0;D0;C",
        // initiator exchange: answer with a wrong ack while a retransmission is pending => duplicate
        "+1;i0:900;s0:1;r1:1:900:r:o:1:!;v0;r1:2:900:r:o:1:@;v0",
        // CloseSession on a known exchange removes the session; on an unknown one it is dropped
        "+1;r1:1:100:i:o:1:-;A;v0;d0;r1:2:100:i:c:0:-;O;D0",
        "+1;r1:1:100:i:c:0:-",
        // unencrypted: new-session opcode creates a session; other opcodes get SessionNotFound
        "r11:1:50:i:n:1:-;A;v0;d0;D0;C",
        "r11:1:50:i:o:1:-;r5:1:50:i:o:1:-",
        // retransmission budget: five transmissions then give-up clears the entry
        "+1;r1:1:100:i:o:1:-;A;v0;s0:1;s0:1;s0:1;s0:1;s0:1;s0:1;D0;C",
        // message held by its Exchange blocks RX; dropping the Exchange releases it
        "+1;r1:1:100:i:o:1:-;A;v0;r1:2:101:i:o:1:-;D0;r1:2:101:i:o:1:-;C",
        // two sessions, several dropped exchanges: closing order follows the session table
        "+1;+2;r1:1:100:i:o:1:-;A;v0;d0;r2:1:200:i:o:1:-;A;v1;d1;D1;D0;C;C;C",
        // swap_remove order: remove the first of three sessions
        "+1;+2;+3;-0;r3:1:300:i:o:1:-;A;v0;D0;O;C",
        // late accept just before the deadline
        "+1;r1:1:100:i:o:1:-;t400;W;t400;W;A;v0;d0;D0;C",
        // a peer's CloseSession on an exchange of its own removes the session (also an expired one); a status report that is not a close is dropped
        "+1;+2;r1:1:999:i:c:0:-;r2:1:999:i:s:0:-;x1;r2:2:998:r:c:0:-",
        // CloseSession while a message of that session waits in the RX slot: orphaned
        "+1;+2;r1:1:100:i:o:1:-;A;v0;d0;r2:1:200:i:o:1:-;r1:2:999:i:c:0:-;A;v1;D0;D1;C;O",
        // group data message: ephemeral session, no MRP even with the R flag set, gone with its last exchange
        "r9:1:300:i:o:1:-;A;v0;d0;D0;C",
        "r9:1:300:i:o:0:-;A;v0;d0;s0:0;D0;C",
        // group message nobody accepts: accept timeout, the closer frees the exchange and the session
        "r9:1:300:i:o:1:-;W;t1100;W;C;C;O",
        // second group message while the first one's session still exists joins it; duplicates are not acknowledged
        "+1;r9:1:300:i:o:0:-;A;v0;d0;r9:2:301:i:o:1:-;r9:2:301:i:o:1:-;A;v1;d1;D0;D1;C",
        // TX buffer: a queued packet blocks the next sender and the closer until process_tx takes it;
        // a packet whose session went meanwhile is dropped by process_tx
        "+1;+2;r1:1:100:i:o:1:-;A;v0;d0;r2:1:200:i:o:1:-;A;v1;d1;q0:1;q1:1;s1:1;D1;C;F;C;q1:0;F",
        "+1;r1:1:100:i:o:1:-;A;v0;d0;q0:0;-0;F;q0:0;F",
        // group messages that may not open an exchange
        "r9:1:300:r:o:0:-;r9:2:300:i:a:0:-;r9:3:300:i:s:0:-;C",
    ];
    for s in s_fixed {
        cases.push(format!("S {} {}", nid(), s));
    }
    // random label sequences
    let n_s = if thorough { 1600 } else { 220 };
    for k in 0..n_s {
        let len = rng.range(6, 26);
        let mut ops: Vec<String> = Vec::new();
        let n_sess = rng.range(1, 3);
        for s in 1..=n_sess {
            ops.push(format!("+{}", s));
        }
        let mut ctr = [0u32; 10];
        let mut n_handles = 0u64;
        let mut ticks = 0;
        // rough guess whether the RX slot is occupied (steers the choice only)
        let mut held = false;
        let mut next_alias = 900u64;
        for _ in 0..len {
            let c = rng.below(100);
            let h = if n_handles == 0 { 0 } else { rng.below(n_handles + 1) };
            if c < 30 {
                // one in eight datagrams is a groupcast message (key 9; its counters never repeat:
                // the group counter store is C04's)
                let group = rng.chance(1, 8);
                let key = if group { 9 } else { rng.range(1, n_sess) as usize };
                ctr[key] += 1;
                // mostly fresh counters, sometimes a repeat
                let cval = if !group && rng.chance(1, 8) && ctr[key] > 1 { ctr[key] - 1 } else { ctr[key] };
                // initiator exchanges are addressed by their alias (unique per case, like the real ids)
                let exid = if rng.chance(1, 6) { 900 + rng.below((next_alias - 900).max(1)) } else { 100 + rng.below(3) };
                let init = if exid >= 900 { rng.chance(1, 5) } else { rng.chance(4, 5) };
                let op = *rng.pick(&['o', 'o', 'o', 'o', 'n', 'a', 's', 'c']);
                let ack = *rng.pick(&["-", "-", "@", "!"]);
                ops.push(format!("r{}:{}:{}:{}:{}:{}:{}", key, cval, exid, if init { 'i' } else { 'r' }, op, rng.chance(2, 3) as u8, ack));
                // steer: an opener on a free slot is usually accepted and often received, consumed, answered
                if !held && init && matches!(op, 'o' | 'n') && cval == ctr[key] {
                    held = true;
                    if rng.chance(3, 5) {
                        ops.push("A".into());
                        let me = n_handles;
                        n_handles += 1;
                        if rng.chance(3, 4) {
                            ops.push(format!("v{}", me));
                            if rng.chance(3, 4) {
                                ops.push(format!("d{}", me));
                                held = false;
                            }
                            if rng.chance(1, 3) {
                                ops.push(format!("s{}:{}", me, rng.chance(2, 3) as u8));
                                held = false;
                            }
                            if rng.chance(1, 3) {
                                ops.push(format!("D{}", me));
                                held = false;
                            }
                        }
                    }
                }
            } else if c < 45 {
                ops.push("A".into());
                if held {
                    n_handles += 1; // may not fire; ordinals beyond the real count are "na"
                }
            } else if c < 57 {
                ops.push(format!("v{}", h));
            } else if c < 63 {
                ops.push(format!("d{}", h));
            } else if c < 71 {
                ops.push(format!("D{}", h));
            } else if c < 75 {
                ops.push(format!("s{}:{}", h, rng.chance(2, 3) as u8));
            } else if c < 76 {
                ops.push(format!("q{}:{}", h, rng.chance(2, 3) as u8));
            } else if c < 77 {
                ops.push("F".into());
            } else if c < 81 {
                ops.push(format!("i{}:{}", rng.below(n_sess), next_alias));
                next_alias += 1;
                n_handles += 1;
            } else if c < 86 {
                ops.push("W".into());
            } else if c < 91 {
                ops.push("O".into());
                held = false;
            } else if c < 95 {
                ops.push("C".into());
            } else if c < 97 {
                ops.push(format!("-{}", rng.below(n_sess)));
            } else if c < 98 {
                ops.push(format!("x{}", rng.below(n_sess)));
            } else if ticks < 2 && k % 4 == 0 {
                // real sleeps: only in every fourth case, at most two per case
                ticks += 1;
                ops.push(format!("t{}", rng.pick(&[400u32, 1100])));
            } else {
                ops.push("W".into());
            }
        }
        // always end by closing and sweeping so that wedged leftovers show
        ops.push("C".into());
        ops.push("O".into());
        cases.push(format!("S {} {}", nid(), ops.join(";")));
    }

    // ---- E: end to end
    let e_fixed: Vec<&str> = vec![
        "h=n0.n0.n0.n0 ga=1 s=g1:100:i:1:o:1:0;w60;p2500",
        // never accepted (no handlers): accept timeout, closer acks, then a handler-less device still answers nothing but stays clean
        "h= ga=1 s=g1:100:i:1:o:1:0;w1300",
        // accepted late (600 ms) by the only handler
        "h=n600 ga=1 s=g1:100:i:1:o:1:0;w900;q2:2500",
        // handler that accepts and drops at once; message orphaned; probe still answered
        "h=y0.n0 ga=1 s=g1:100:i:1:o:2:0;w150;p2500;q2:2500",
        // a busy responder that drops whatever nobody accepted within 500 ms
        "h=n0.x500 ga=1 s=g1:100:i:1:o:5:900;w50;g2:200:i:1:o:1:0;w1000;q2:2500;p2500",
        // handler drops without answering: closer acknowledges
        "h=n0.n0 ga=1 s=g1:100:i:1:o:2:0;w250;q1:2500;p2500",
        // reply abandoned mid-retransmission: session closed with CloseSession, other session keeps working
        "h=n0.n0.n0.n0 ga=0 s=g1:100:i:1:o:3:30;w400;q2:2500;p2500",
        // the repaired wedge: exchanges waiting in recv on a session that gets closed must not eat the probe
        "h=n0.n0.n0.n0 ga=0 s=g2:300:i:1:o:5:3000;w50;g1:301:i:1:o:5:3000;w50;g1:302:i:1:o:3:30;w300;p2500;q2:2500",
        // message held by its handler for 300 ms blocks RX; traffic resumes afterwards
        "h=n0.n0.n0 ga=1 s=g1:100:i:1:o:4:300;w20;g2:200:i:1:o:1:0;w600;p2500",
        // garbage: answers, acks and status reports to unknown exchanges on both ghost sessions, then probes
        "h=n0.n0 ga=1 s=g1:500:r:1:o:1:0;g1:501:i:0:a:1:0;g2:502:i:1:s:1:0;g2:503:r:0:a:1:0;g1:504:i:1:c:1:0;w100;q1:2500;q2:2500;p2500",
        // six concurrent exchanges on one session: the sixth closes it; the other session and the controller are unaffected
        "h=n0.n0.n0.n0.n0.n0.n0 ga=1 s=g1:100:i:1:o:5:2000;w20;g1:101:i:1:o:5:2000;w20;g1:102:i:1:o:5:2000;w20;g1:103:i:1:o:5:2000;w20;g1:104:i:1:o:5:2000;w20;g1:105:i:1:o:1:0;w200;q2:2500;p2500",
        // all handlers busy: a new exchange times out after 1 s, then handlers free up
        "h=n0 ga=1 s=g1:100:i:1:o:5:1500;w50;g2:200:i:1:o:1:0;w1400;w400;q2:2500;p2500",
        // second message for a waiting exchange is delivered to it, not to a new handler
        "h=n0.n0 ga=1 s=g1:100:i:1:o:5:1000;w100;g1:100:i:1:o:1:0;w300;p2500",
        // groupcast data message: delivered on its ephemeral session, which goes when the handler drops the exchange
        "h=n0 ga=1 s=x100:0:2:0;w300;p2500",
        // nobody accepts a group message: accept timeout, the closer frees exchange and session
        "h= ga=1 s=x100:0:2:0;w1400",
        // a group message with the R flag set leaves no acknowledgement behind (the sweeper used to spin on it)
        "h=n0 ga=1 s=x100:1:2:0;w500;p2500",
        // a peer's CloseSession on an exchange of its own closes the session: the next opener gets SessionNotFound
        "h=n0 ga=1 s=g1:999:i:0:c:1:0;w200;q1:1500;p2500",
    ];
    // not predicted (the model's network is instantaneous): a slow link keeps the TX buffer locked while two
    // exchanges wait for it and the session of one of them is closed; the other one's unreliable answer
    // (tag 0) must still reach the wire
    cases.push(format!(
        "E {} h=n0.n0.n0 ga=1 slow=200 er=0.4 s=g2:200:i:0:o:7:300;w2;g1:100:i:0:o:7:300;w248;g2:201:i:1:o:1:0;w100;g1:100:i:0:c:1:0;w900",
        nid()
    ));
    for s in e_fixed {
        // det=1: the model predicts deliveries, probe outcomes and the final tables (ocaml/c10/driver.ml)
        cases.push(format!("E {} det=1 {}", nid(), s));
    }
    let n_e = if thorough { 120 } else { 14 };
    for _ in 0..n_e {
        let nh = rng.range(1, 4);
        let hs: Vec<String> = (0..nh)
            .map(|_| match rng.below(8) {
                0 => "x500".to_string(),
                1 => format!("n{}", rng.pick(&[300u32, 600])),
                _ => "n0".to_string(),
            })
            .collect();
        let mut hs = hs;
        if !hs.iter().any(|h| h == "n0") {
            hs[0] = "n0".to_string();
        }
        let mut script: Vec<String> = Vec::new();
        let nops = rng.range(3, 8);
        let mut exid = 100u16;
        for _ in 0..nops {
            let sess = rng.range(1, 2);
            match rng.below(10) {
                0..=5 => {
                    exid += 1;
                    let beh = *rng.pick(&[1u8, 1, 2, 3, 4, 5, 6]);
                    // handlers stay busy well below the accept deadline
                    let arg = match beh {
                        3 => 30,
                        4 => *rng.pick(&[100u16, 300]),
                        5 => *rng.pick(&[200u16, 600]),
                        6 => 100,
                        _ => 0,
                    };
                    script.push(format!("g{}:{}:i:1:o:{}:{}", sess, exid, beh, arg));
                }
                6 => script.push(format!("g{}:{}:r:1:o:1:0", sess, 600 + rng.below(5))),
                7 => script.push(format!("g{}:{}:i:0:{}:1:0", sess, 700 + rng.below(5), rng.pick(&['a', 's']))),
                _ => script.push(format!("w{}", rng.pick(&[20u32, 150, 400]))),
            }
            if rng.chance(1, 2) {
                script.push(format!("w{}", rng.pick(&[10u32, 50, 120])));
            }
        }
        // let the backlog drain (every unaccepted exchange may hold the RX buffer for the accept deadline),
        // then probe from the ghost and from the real controller; probes retry once like a real peer
        script.push("w1500".into());
        script.push("Q2:6000".into());
        script.push("P6000".into());
        cases.push(format!("E {} h={} ga=1 s={}", nid(), hs.join("."), script.join(";")));
    }
    cases
}
