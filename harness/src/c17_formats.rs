//! C17, formats that are tested but NOT modelled in Coq ("tested-not-proved"):
//! BLE advertisement, mDNS answer parsing, Matter certificate -> X.509 DER conversion (plus the
//! DER attestation-certificate / CSR decoders), certification declaration, check-in message,
//! BDX messages, status report.
//!
//! Included by `bin/c17.rs` through `#[path]`.  For each format two kinds of case:
//!   mode "rt"   : arg = decimal seed; build a legal value from the seed with the repo's
//!                 encoder, decode it with the repo's decoder, compare field by field.
//!   mode "fuzz" : arg = hex bytes; hand them to the decoder(s); any outcome but a panic is fine
//!                 (where cheap: a successful decode must survive re-encode + re-decode).
//! Everything runs under `catch_unwind` in the caller.  Harness code itself never indexes or
//! unwraps decoder outputs, so a PANIC verdict always comes from the code under test.
#![allow(dead_code)]
#![allow(clippy::all)]
use rsm_harness::Rng;

/// Formats handled here.
pub const FORMATS: &[&str] = &["bleadv", "mdns", "cert", "cd", "checkin", "bdx", "statusreport"];

// ------------------------------------------------------------------------------------ helpers

fn unhex(s: &str) -> Result<Vec<u8>, String> {
    let b = s.as_bytes();
    if b.len() % 2 != 0 {
        return Err("odd hex length".into());
    }
    let mut out = Vec::with_capacity(b.len() / 2);
    for p in b.chunks(2) {
        let h = (p[0] as char).to_digit(16).ok_or("bad hex")?;
        let l = (p[1] as char).to_digit(16).ok_or("bad hex")?;
        out.push((h * 16 + l) as u8);
    }
    Ok(out)
}

fn hex(b: &[u8]) -> String {
    let mut s = String::with_capacity(b.len() * 2);
    for x in b {
        s.push_str(&format!("{:02x}", x));
    }
    s
}

fn hx(s: &str) -> Vec<u8> {
    unhex(s).unwrap_or_default()
}

fn rand_bytes(rng: &mut Rng, n: usize) -> Vec<u8> {
    (0..n).map(|_| rng.next() as u8).collect()
}

fn rand_str(rng: &mut Rng, alphabet: &[u8], lo: usize, hi: usize) -> String {
    let n = rng.range(lo as u64, hi as u64) as usize;
    (0..n).map(|_| *rng.pick(alphabet) as char).collect()
}

fn edgy_u16(rng: &mut Rng) -> u16 {
    match rng.below(6) {
        0 => 0,
        1 => 0xffff,
        2 => 0x8000,
        _ => rng.next() as u16,
    }
}

fn edgy_u32(rng: &mut Rng) -> u32 {
    match rng.below(6) {
        0 => 0,
        1 => u32::MAX,
        2 => 0x8000_0000,
        _ => rng.next() as u32,
    }
}

fn edgy_u64(rng: &mut Rng) -> u64 {
    match rng.below(7) {
        0 => 0,
        1 => u64::MAX,
        2 => 1 << 63,
        3 => u32::MAX as u64 + 1,
        _ => rng.next(),
    }
}

/// 1-3 byte-level mutations / truncations / extensions.
fn mutate(rng: &mut Rng, v: &mut Vec<u8>) {
    let n = rng.range(1, 3);
    for _ in 0..n {
        match rng.below(8) {
            0 | 1 | 2 if !v.is_empty() => {
                let i = rng.below(v.len() as u64) as usize;
                v[i] = match rng.below(5) {
                    0 => 0,
                    1 => 0xff,
                    2 => v[i] ^ (1 << rng.below(8)),
                    3 => v[i].wrapping_add(1),
                    _ => rng.next() as u8,
                };
            }
            3 if !v.is_empty() => {
                let l = rng.below(v.len() as u64) as usize;
                v.truncate(l);
            }
            4 => {
                let k = rng.range(1, 8) as usize;
                let ext = rand_bytes(rng, k);
                v.extend(ext);
            }
            5 if !v.is_empty() => {
                let i = rng.below(v.len() as u64) as usize;
                v.remove(i);
            }
            6 => {
                let i = rng.below(v.len() as u64 + 1) as usize;
                v.insert(i, rng.next() as u8);
            }
            _ => {
                if v.len() >= 2 {
                    let i = rng.below(v.len() as u64 - 1) as usize;
                    v.swap(i, i + 1);
                } else {
                    v.push(0xff);
                }
            }
        }
    }
}

/// Inputs every decoder gets.
fn generic_edges() -> Vec<Vec<u8>> {
    let mut e = vec![vec![], vec![0], vec![0xff], vec![0x80], vec![0x15], vec![0x30]];
    for n in [2usize, 8, 33, 64, 200] {
        e.push(vec![0xff; n]);
        e.push(vec![0x00; n]);
    }
    e.push(vec![0x30, 0x84, 0xff, 0xff, 0xff, 0xff]);
    e.push(vec![0x30, 0x82, 0xff, 0xff, 0x30, 0x82, 0xff, 0xff]);
    e.push(vec![0x15, 0x30, 0x01, 0xff]);
    e.push(vec![0x15, 0x33, 0x01, 0xff, 0xff, 0xff, 0xff, 0xff, 0xff, 0xff, 0xff]);
    e.push(vec![0x15, 0x15, 0x15, 0x15, 0x15, 0x15, 0x15, 0x15, 0x15, 0x15, 0x15, 0x15]);
    e.push(vec![0x15, 0x18]);
    e
}

// --------------------------------------------------------------- Matter-TLV aware mutation

#[derive(Clone, Copy)]
struct TlvEl {
    start: usize,
    tag_len: usize,
    /// 0 = integer, 1 = string (utf8 / octets)
    kind: u8,
    len_off: usize,
    len_size: usize,
    val: usize,
    len: usize,
}

/// Flat walk over all scalar elements of a TLV blob (containers are entered, not reported).
fn tlv_walk(b: &[u8]) -> Vec<TlvEl> {
    let mut out = Vec::new();
    let mut i = 0usize;
    while i < b.len() {
        let c = b[i];
        let tag_len = [0usize, 1, 2, 4, 2, 4, 6, 8][(c >> 5) as usize];
        let ty = c & 0x1f;
        let mut p = i + 1 + tag_len;
        match ty {
            0..=7 => {
                let n = 1usize << (ty & 3);
                if p + n > b.len() {
                    break;
                }
                out.push(TlvEl { start: i, tag_len, kind: 0, len_off: 0, len_size: 0, val: p, len: n });
                p += n;
            }
            8 | 9 | 0x14..=0x18 => {}
            0x0a => p += 4,
            0x0b => p += 8,
            0x0c..=0x13 => {
                let ls = 1usize << (ty & 3);
                if p + ls > b.len() {
                    break;
                }
                let mut l = 0u64;
                for k in 0..ls.min(8) {
                    l |= (b[p + k] as u64) << (8 * k);
                }
                let l = l as usize;
                if l > b.len() || p + ls + l > b.len() {
                    break;
                }
                out.push(TlvEl { start: i, tag_len, kind: 1, len_off: p, len_size: ls, val: p + ls, len: l });
                p += ls + l;
            }
            _ => break,
        }
        if p > b.len() {
            break;
        }
        i = p;
    }
    out
}

fn set_len_field(v: &mut [u8], e: &TlvEl, l: u64) {
    for k in 0..e.len_size {
        if let Some(x) = v.get_mut(e.len_off + k) {
            *x = if k < 8 { (l >> (8 * k)) as u8 } else { 0 };
        }
    }
}

/// One structure-aware mutation of a (valid) TLV blob: empty / shorten / lengthen strings, lie in
/// length fields, put boundary values into integers, delete / duplicate / retag elements.
fn tlv_mutate(rng: &mut Rng, v: &mut Vec<u8>) {
    let els = tlv_walk(v);
    if els.is_empty() {
        mutate(rng, v);
        return;
    }
    let e = *rng.pick(&els);
    let end = e.val + e.len;
    if end > v.len() {
        return;
    }
    match rng.below(10) {
        0 => {
            // delete the element
            v.drain(e.start..end);
        }
        1 => {
            // duplicate the element
            let copy = v[e.start..end].to_vec();
            let at = end;
            for (k, x) in copy.into_iter().enumerate() {
                v.insert(at + k, x);
            }
        }
        2 if e.tag_len == 1 => {
            let t = match rng.below(4) {
                0 => 0,
                1 => 0xff,
                2 => v[e.start + 1].wrapping_add(1),
                _ => rng.below(24) as u8,
            };
            v[e.start + 1] = t;
        }
        _ if e.kind == 0 => {
            let first = match rng.below(8) {
                0 => 0u8,
                1 => 0xff,
                2 => 0x80,
                3 => 0x7f,
                _ => rng.below(10) as u8,
            };
            let fill = if first == 0xff && rng.chance(1, 2) { 0xff } else { 0 };
            for k in 0..e.len {
                v[e.val + k] = if k == 0 { first } else { fill };
            }
        }
        _ => match rng.below(6) {
            0 | 1 => {
                // empty string
                v.drain(e.val..end);
                set_len_field(v, &e, 0);
            }
            2 if e.len > 0 => {
                let nl = rng.below(e.len as u64) as usize;
                v.drain(e.val + nl..end);
                set_len_field(v, &e, nl as u64);
            }
            3 => {
                // length field lies
                let l = match rng.below(3) {
                    0 => u64::MAX,
                    1 => e.len as u64 + 1,
                    _ => 0xff,
                };
                set_len_field(v, &e, l);
            }
            4 => {
                let k = rng.range(1, 4) as usize;
                let max = if e.len_size == 1 { 255 } else { 60000 };
                if e.len + k <= max {
                    for j in 0..k {
                        v.insert(end + j, rng.next() as u8);
                    }
                    set_len_field(v, &e, (e.len + k) as u64);
                }
            }
            _ => {
                for k in 0..e.len {
                    if rng.chance(1, 3) {
                        v[e.val + k] = rng.next() as u8;
                    }
                }
            }
        },
    }
}

/// Top-level context-tagged unsigned integer of a TLV structure (depth 1 only).
fn tlv_top_uint(b: &[u8], ctx: u8) -> Option<u64> {
    let mut depth = 0i32;
    let mut i = 0usize;
    while i < b.len() {
        let c = b[i];
        let tag_len = [0usize, 1, 2, 4, 2, 4, 6, 8][(c >> 5) as usize];
        let ty = c & 0x1f;
        let mut p = i + 1 + tag_len;
        match ty {
            0..=7 => {
                let n = 1usize << (ty & 3);
                if p + n > b.len() {
                    return None;
                }
                if depth == 1 && ty >= 4 && (c >> 5) == 1 && b[i + 1] == ctx {
                    let mut x = 0u64;
                    for k in 0..n {
                        x |= (b[p + k] as u64) << (8 * k);
                    }
                    return Some(x);
                }
                p += n;
            }
            8 | 9 | 0x14 => {}
            0x0a => p += 4,
            0x0b => p += 8,
            0x0c..=0x13 => {
                let ls = 1usize << (ty & 3);
                if p + ls > b.len() {
                    return None;
                }
                let mut l = 0u64;
                for k in 0..ls.min(8) {
                    l |= (b[p + k] as u64) << (8 * k);
                }
                p = p.checked_add(ls)?.checked_add(l as usize)?;
            }
            0x15..=0x17 => depth += 1,
            0x18 => depth -= 1,
            _ => return None,
        }
        i = p;
    }
    None
}

// ------------------------------------------------------------------------------- DER helpers

fn der(tag: u8, content: &[u8]) -> Vec<u8> {
    let n = content.len();
    let mut v = vec![tag];
    if n < 128 {
        v.push(n as u8);
    } else if n < 256 {
        v.extend([0x81, n as u8]);
    } else {
        v.extend([0x82, (n >> 8) as u8, n as u8]);
    }
    v.extend_from_slice(content);
    v
}

/// Minimal positive DER INTEGER content for a big-endian magnitude.
fn der_uint(mag: &[u8]) -> Vec<u8> {
    let mut i = 0;
    while i + 1 < mag.len() && mag[i] == 0 {
        i += 1;
    }
    let mut v = Vec::new();
    if mag.is_empty() {
        v.push(0);
    } else {
        if mag[i] & 0x80 != 0 {
            v.push(0);
        }
        v.extend_from_slice(&mag[i..]);
    }
    der(0x02, &v)
}

/// (tag, content, rest) of the first DER element.
fn der_next(b: &[u8]) -> Option<(u8, &[u8], &[u8])> {
    let tag = *b.first()?;
    let l0 = *b.get(1)? as usize;
    let (len, hdr) = if l0 < 0x80 {
        (l0, 2)
    } else if l0 == 0x81 {
        (*b.get(2)? as usize, 3)
    } else if l0 == 0x82 {
        (((*b.get(2)? as usize) << 8) | *b.get(3)? as usize, 4)
    } else {
        return None;
    };
    let content = b.get(hdr..hdr + len)?;
    let rest = b.get(hdr + len..)?;
    Some((tag, content, rest))
}

// ---------------------------------------------------------------------------------- dispatch

/// Run one case. `Ok(detail)` = property held (detail is a short canonical summary that
/// must be deterministic), `Err(reason)` = round trip failed.
pub fn run_t(fmt: &str, mode: &str, arg: &str) -> Result<String, String> {
    match mode {
        "rt" => {
            let seed: u64 = arg.parse().map_err(|_| format!("bad seed {}", arg))?;
            match fmt {
                "bleadv" => bleadv::rt(seed),
                "bdx" => bdx::rt(seed),
                "statusreport" => statusreport::rt(seed),
                "checkin" => checkin::rt(seed),
                "mdns" => mdns::rt(seed),
                "cd" => cd::rt(seed),
                "cert" => cert::rt(seed),
                _ => Err(format!("unknown format {}", fmt)),
            }
        }
        "fuzz" => {
            let b = unhex(arg)?;
            match fmt {
                "bleadv" => bleadv::fuzz(&b),
                "bdx" => bdx::fuzz(&b),
                "statusreport" => statusreport::fuzz(&b),
                "checkin" => checkin::fuzz(&b),
                "mdns" => mdns::fuzz(&b),
                "cd" => cd::fuzz(&b),
                "cert" => cert::fuzz(&b),
                _ => Err(format!("unknown format {}", fmt)),
            }
        }
        // diagnostic only (never generated): which public call panics on these bytes
        "probe" if fmt == "cert" => Ok(cert::probe(&unhex(arg)?)),
        _ => Err(format!("unknown mode {}", mode)),
    }
}

/// Per format: number of rt cases, random-bytes fuzz cases, mutated-valid fuzz cases (scale 1).
fn budget(fmt: &str) -> (usize, usize, usize) {
    match fmt {
        "cert" => (60, 110, 260),
        "mdns" => (100, 110, 220),
        "cd" => (100, 110, 220),
        "bdx" => (140, 110, 200),
        _ => (100, 110, 180),
    }
}

/// Generate `(fmt, mode, arg)` cases; `scale` = 1 for quick, 10 for thorough.
pub fn gen_t(rng: &mut Rng, scale: usize) -> Vec<(String, String, String)> {
    let mut out = Vec::new();
    let mut push = |f: &str, m: &str, a: String| out.push((f.to_string(), m.to_string(), a));
    for &fmt in FORMATS {
        let (n_rt, n_rand, n_mut) = budget(fmt);
        // seeds 0 and 1 select the known-vector variants of cert / cd
        push(fmt, "rt", "0".into());
        push(fmt, "rt", "1".into());
        for _ in 0..n_rt * scale {
            push(fmt, "rt", (rng.next() >> 20).to_string());
        }
        let mut edges = generic_edges();
        edges.extend(format_edges(fmt));
        for e in edges {
            push(fmt, "fuzz", hex(&e));
        }
        for _ in 0..n_rand * scale {
            let n = rng.below(201) as usize;
            let b = rand_bytes(rng, n);
            push(fmt, "fuzz", hex(&b));
        }
        let pool = valid_pool(fmt, rng, 6 * scale.min(4));
        if !pool.is_empty() {
            for _ in 0..n_mut * scale {
                let (is_tlv, base) = rng.pick(&pool);
                let mut v = base.clone();
                if *is_tlv && rng.chance(3, 5) {
                    tlv_mutate(rng, &mut v);
                    if rng.chance(1, 4) {
                        tlv_mutate(rng, &mut v);
                    }
                } else {
                    mutate(rng, &mut v);
                }
                push(fmt, "fuzz", hex(&v));
            }
            // the unmodified valid encodings themselves
            for (_, base) in pool.iter().take(12) {
                push(fmt, "fuzz", hex(base));
            }
        }
    }
    out
}

fn format_edges(fmt: &str) -> Vec<Vec<u8>> {
    match fmt {
        "bleadv" => bleadv::edges(),
        "bdx" => bdx::edges(),
        "statusreport" => statusreport::edges(),
        "checkin" => checkin::edges(),
        "mdns" => mdns::edges(),
        "cd" => cd::edges(),
        "cert" => cert::edges(),
        _ => Vec::new(),
    }
}

/// Valid encodings (from the repo encoders) to mutate; the flag says "this is Matter TLV".
fn valid_pool(fmt: &str, rng: &mut Rng, n: usize) -> Vec<(bool, Vec<u8>)> {
    match fmt {
        "bleadv" => (0..n * 4).map(|_| (false, bleadv::valid(rng))).collect(),
        "bdx" => (0..n * 4).map(|_| (false, bdx::valid(rng))).collect(),
        "statusreport" => (0..n * 2).map(|_| (false, statusreport::valid(rng))).collect(),
        "checkin" => (0..n * 2).map(|_| (false, checkin::valid(rng))).collect(),
        "cert" => cert::pool(rng, n),
        "cd" => (0..n * 4).map(|_| cd::valid(rng)).filter(|(_, v)| !v.is_empty()).collect(),
        "mdns" => (0..n * 3).map(|_| (false, mdns::valid(rng))).filter(|(_, v)| !v.is_empty()).collect(),
        _ => Vec::new(),
    }
}

// ------------------------------------------------------------------------------------ bleadv

mod bleadv {
    use super::*;
    use rs_matter::dm::clusters::basic_info::BasicInfoConfig;
    use rs_matter::transport::network::btp::{AdvData, RecoveryAdvData};

    fn adv(vid: u16, pid: u16, disc: u16) -> AdvData {
        let cfg = BasicInfoConfig { vid, pid, ..Default::default() };
        AdvData::new(&cfg, disc)
    }

    /// Well-formed AD structures that are not the Matter service-data record.
    fn filler(rng: &mut Rng) -> Vec<u8> {
        let mut v = Vec::new();
        for _ in 0..rng.below(3) {
            let n = rng.range(2, 6) as usize;
            let mut rec = rand_bytes(rng, n);
            if rec[0] == 0x16 {
                // service data of some other 16 bit uuid
                rec = vec![0x16, 0x34, 0x12, rng.next() as u8];
            }
            v.push(rec.len() as u8);
            v.extend(rec);
        }
        v
    }

    fn cmp(what: &str, p: Option<AdvData>, vid: u16, pid: u16, disc: u16) -> Result<(), String> {
        let p = p.ok_or(format!("{}: valid advertisement not parsed", what))?;
        if p.vid() != vid || p.pid() != pid || p.discriminator() != disc || p.additional_data() {
            return Err(format!(
                "{}: got vid={:#x} pid={:#x} disc={:#x} ad={} want {:#x} {:#x} {:#x} false",
                what,
                p.vid(),
                p.pid(),
                p.discriminator(),
                p.additional_data(),
                vid,
                pid,
                disc
            ));
        }
        Ok(())
    }

    pub fn rt(seed: u64) -> Result<String, String> {
        let mut rng = Rng::new(seed);
        let vid = edgy_u16(&mut rng);
        let pid = edgy_u16(&mut rng);
        let disc = match rng.below(5) {
            0 => 0,
            1 => 0xfff,
            2 => 0xf00,
            _ => rng.below(0x1000) as u16,
        };
        let a = adv(vid, pid, disc);
        let bytes: Vec<u8> = a.iter().collect();
        let payload: Vec<u8> = a.service_payload_iter().collect();
        cmp("parse_adv", AdvData::parse_adv(&bytes), vid, pid, disc)?;
        cmp("parse_service_data", AdvData::parse_service_data(&payload), vid, pid, disc)?;
        let mut blob = filler(&mut rng);
        blob.extend(a.service_iter());
        blob.extend(filler(&mut rng));
        cmp("parse_adv(embedded)", AdvData::parse_adv(&blob), vid, pid, disc)?;
        if RecoveryAdvData::parse_adv(&bytes).is_some() || RecoveryAdvData::parse_service_data(&payload).is_some() {
            return Err("commissionable advertisement parsed as recovery advertisement".into());
        }

        let mut id = [0u8; 8];
        for b in id.iter_mut() {
            *b = rng.next() as u8;
        }
        let r = RecoveryAdvData::new(id);
        let rbytes: Vec<u8> = r.iter().collect();
        let rpayload: Vec<u8> = r.service_payload_iter().collect();
        for (what, p) in [
            ("recovery.parse_adv", RecoveryAdvData::parse_adv(&rbytes)),
            ("recovery.parse_service_data", RecoveryAdvData::parse_service_data(&rpayload)),
        ] {
            let p = p.ok_or(format!("{}: valid advertisement not parsed", what))?;
            if p.recovery_id() != id || p.additional_data() {
                return Err(format!("{}: got {:02x?} want {:02x?}", what, p.recovery_id(), id));
            }
        }
        if AdvData::parse_adv(&rbytes).is_some() || AdvData::parse_service_data(&rpayload).is_some() {
            return Err("recovery advertisement parsed as commissionable advertisement".into());
        }
        Ok(format!("len={}+{}", bytes.len(), rbytes.len()))
    }

    pub fn fuzz(b: &[u8]) -> Result<String, String> {
        let mut s = String::new();
        for (i, p) in [AdvData::parse_adv(b), AdvData::parse_service_data(b)].into_iter().enumerate() {
            match p {
                Some(p) => {
                    if p.discriminator() > 0xfff {
                        return Err(format!("decoder {} returned discriminator {:#x}", i, p.discriminator()));
                    }
                    let again: Vec<u8> = adv(p.vid(), p.pid(), p.discriminator()).iter().collect();
                    cmp("re-encode", AdvData::parse_adv(&again), p.vid(), p.pid(), p.discriminator())?;
                    s.push('1');
                }
                None => s.push('0'),
            }
        }
        for p in [RecoveryAdvData::parse_adv(b), RecoveryAdvData::parse_service_data(b)] {
            match p {
                Some(p) => {
                    let again: Vec<u8> = RecoveryAdvData::new(p.recovery_id()).iter().collect();
                    match RecoveryAdvData::parse_adv(&again) {
                        Some(q) if q.recovery_id() == p.recovery_id() => {}
                        _ => return Err("recovery re-encode mismatch".into()),
                    }
                    s.push('1');
                }
                None => s.push('0'),
            }
        }
        Ok(format!("parsed={}", s))
    }

    pub fn valid(rng: &mut Rng) -> Vec<u8> {
        let a = adv(rng.next() as u16, rng.next() as u16, rng.below(0x1000) as u16);
        let mut id = [0u8; 8];
        for b in id.iter_mut() {
            *b = rng.next() as u8;
        }
        let r = RecoveryAdvData::new(id);
        match rng.below(5) {
            0 => a.iter().collect(),
            1 => a.service_payload_iter().collect(),
            2 => r.iter().collect(),
            3 => r.service_payload_iter().collect(),
            _ => {
                let mut v = filler(rng);
                if rng.chance(1, 2) {
                    v.extend(a.service_iter());
                } else {
                    v.extend(r.service_iter());
                }
                v.extend(filler(rng));
                v
            }
        }
    }

    pub fn edges() -> Vec<Vec<u8>> {
        vec![
            vec![0x03, 0x16, 0xf6, 0xff],
            vec![0x02, 0x16, 0xf6],
            vec![0x01, 0x16],
            vec![0xff, 0x16, 0xf6, 0xff, 0x00],
            vec![0x0b, 0x16, 0xf6, 0xff, 0, 0, 0, 0, 0, 0, 0],
            vec![0x0a, 0x16, 0xf6, 0xff, 0, 0xff, 0xff, 0xff, 0xff, 0xff, 0xff],
            vec![0x0b, 0x16, 0xf6, 0xff, 0, 0xff, 0xff, 0xff, 0xff, 0xff, 0xff, 0xff],
            vec![0x0d, 0x16, 0xf6, 0xff, 1, 0, 1, 2, 3, 4, 5, 6, 7, 8],
            vec![0x0e, 0x16, 0xf6, 0xff, 1, 0xff, 1, 2, 3, 4, 5, 6, 7, 8, 0xff],
            vec![0x00, 0x0b, 0x16, 0xf6, 0xff, 0, 0, 0, 0, 0, 0, 0, 0],
            vec![0, 0xff, 0xff, 0xff, 0xff, 0xff, 0xff, 0xff],
            vec![1, 0xff, 0xff, 0xff, 0xff, 0xff, 0xff, 0xff, 0xff, 0xff, 0xff],
        ]
    }
}

// --------------------------------------------------------------------------------------- bdx

mod bdx {
    use super::*;
    use rs_matter::bdx::{Block, BlockQuery, BlockQueryWithSkip, RangeControl, TransferAccept, TransferControl, TransferInit};
    use rs_matter::utils::storage::WriteBuf;

    fn tc(rng: &mut Rng) -> TransferControl {
        TransferControl {
            version: rng.below(16) as u8,
            sender_drive: rng.chance(1, 2),
            receiver_drive: rng.chance(1, 2),
            async_mode: rng.chance(1, 4),
        }
    }

    fn rc(rng: &mut Rng, with_offset: bool) -> RangeControl {
        RangeControl { def_len: rng.chance(1, 2), start_offset: with_offset && rng.chance(1, 2), wide_range: rng.chance(1, 2) }
    }

    fn ranged(rng: &mut Rng, present: bool, wide: bool) -> u64 {
        if !present {
            0
        } else if wide {
            edgy_u64(rng)
        } else {
            edgy_u32(rng) as u64
        }
    }

    fn blob(rng: &mut Rng) -> Vec<u8> {
        let n = if rng.chance(1, 12) { rng.range(200, 400) } else { rng.below(40) } as usize;
        rand_bytes(rng, n)
    }

    fn enc(n: usize, f: impl FnOnce(&mut WriteBuf) -> Result<(), rs_matter::error::Error>) -> Result<Vec<u8>, String> {
        let mut buf = vec![0u8; n];
        let mut wb = WriteBuf::new(&mut buf);
        f(&mut wb).map_err(|e| format!("write failed: {:?}", e.code()))?;
        Ok(wb.as_slice().to_vec())
    }

    fn eq_init(a: &TransferInit, b: &TransferInit) -> bool {
        a.transfer_control == b.transfer_control
            && a.range_control == b.range_control
            && a.max_block_size == b.max_block_size
            && a.start_offset == b.start_offset
            && a.length == b.length
            && a.file_designator == b.file_designator
            && a.metadata == b.metadata
    }

    fn eq_accept(a: &TransferAccept, b: &TransferAccept) -> bool {
        a.receive == b.receive
            && a.transfer_control == b.transfer_control
            && a.range_control == b.range_control
            && a.max_block_size == b.max_block_size
            && a.length == b.length
            && a.metadata == b.metadata
    }

    pub fn rt(seed: u64) -> Result<String, String> {
        let mut rng = Rng::new(seed);
        let mut total = 0;
        // TransferInit
        {
            let range_control = rc(&mut rng, true);
            let fd = blob(&mut rng);
            let md = blob(&mut rng);
            let m = TransferInit {
                transfer_control: tc(&mut rng),
                range_control,
                max_block_size: edgy_u16(&mut rng),
                start_offset: ranged(&mut rng, range_control.start_offset, range_control.wide_range),
                length: ranged(&mut rng, range_control.def_len, range_control.wide_range),
                file_designator: &fd,
                metadata: &md,
            };
            let bytes = enc(1024, |wb| m.write(wb))?;
            let p = TransferInit::parse(&bytes).map_err(|e| format!("TransferInit parse: {:?}", e.code()))?;
            if !eq_init(&m, &p) {
                return Err(format!("TransferInit mismatch: {:?} vs {:?}", m, p));
            }
            total += bytes.len();
        }
        // TransferAccept, both wire formats
        for receive in [false, true] {
            let range_control = if receive { rc(&mut rng, false) } else { RangeControl::default() };
            let md = blob(&mut rng);
            let m = TransferAccept {
                receive,
                transfer_control: tc(&mut rng),
                range_control,
                max_block_size: edgy_u16(&mut rng),
                length: ranged(&mut rng, receive && range_control.def_len, range_control.wide_range),
                metadata: &md,
            };
            let bytes = enc(1024, |wb| m.write(wb))?;
            let p = TransferAccept::parse(receive, &bytes).map_err(|e| format!("TransferAccept parse: {:?}", e.code()))?;
            if !eq_accept(&m, &p) {
                return Err(format!("TransferAccept mismatch: {:?} vs {:?}", m, p));
            }
            total += bytes.len();
        }
        // Block
        {
            let data = blob(&mut rng);
            let m = Block { block_counter: edgy_u32(&mut rng), data: &data };
            let bytes = enc(1024, |wb| m.write(wb))?;
            let p = Block::parse(&bytes).map_err(|e| format!("Block parse: {:?}", e.code()))?;
            if p.block_counter != m.block_counter || p.data != m.data {
                return Err(format!("Block mismatch: {:?} vs {:?}", m, p));
            }
            total += bytes.len();
        }
        // BlockQuery / BlockQueryWithSkip
        {
            let m = BlockQuery { block_counter: edgy_u32(&mut rng) };
            let bytes = enc(16, |wb| m.write(wb))?;
            let p = BlockQuery::parse(&bytes).map_err(|e| format!("BlockQuery parse: {:?}", e.code()))?;
            if p != m {
                return Err(format!("BlockQuery mismatch: {:?} vs {:?}", m, p));
            }
            let m = BlockQueryWithSkip { block_counter: edgy_u32(&mut rng), bytes_to_skip: edgy_u64(&mut rng) };
            let bytes2 = enc(16, |wb| m.write(wb))?;
            let p = BlockQueryWithSkip::parse(&bytes2).map_err(|e| format!("BlockQueryWithSkip parse: {:?}", e.code()))?;
            if p != m {
                return Err(format!("BlockQueryWithSkip mismatch: {:?} vs {:?}", m, p));
            }
            total += bytes.len() + bytes2.len();
        }
        Ok(format!("len={}", total))
    }

    pub fn fuzz(b: &[u8]) -> Result<String, String> {
        let cap = b.len() + 32;
        let mut s = String::new();
        match TransferInit::parse(b) {
            Ok(m) => {
                let bytes = enc(cap, |wb| m.write(wb))?;
                let p = TransferInit::parse(&bytes).map_err(|e| format!("TransferInit re-parse: {:?}", e.code()))?;
                if !eq_init(&m, &p) {
                    return Err(format!("TransferInit re-encode mismatch: {:?} vs {:?}", m, p));
                }
                s.push('1');
            }
            Err(_) => s.push('0'),
        }
        for receive in [false, true] {
            match TransferAccept::parse(receive, b) {
                Ok(m) => {
                    let bytes = enc(cap, |wb| m.write(wb))?;
                    let p = TransferAccept::parse(receive, &bytes).map_err(|e| format!("TransferAccept re-parse: {:?}", e.code()))?;
                    if !eq_accept(&m, &p) {
                        return Err(format!("TransferAccept re-encode mismatch: {:?} vs {:?}", m, p));
                    }
                    s.push('1');
                }
                Err(_) => s.push('0'),
            }
        }
        match Block::parse(b) {
            Ok(m) => {
                let bytes = enc(cap, |wb| m.write(wb))?;
                if bytes != b {
                    return Err("Block re-encode differs from input".into());
                }
                s.push('1');
            }
            Err(_) => s.push('0'),
        }
        match BlockQuery::parse(b) {
            Ok(m) => {
                let bytes = enc(cap, |wb| m.write(wb))?;
                match BlockQuery::parse(&bytes) {
                    Ok(p) if p == m => {}
                    _ => return Err("BlockQuery re-encode mismatch".into()),
                }
                s.push('1');
            }
            Err(_) => s.push('0'),
        }
        match BlockQueryWithSkip::parse(b) {
            Ok(m) => {
                let bytes = enc(cap, |wb| m.write(wb))?;
                match BlockQueryWithSkip::parse(&bytes) {
                    Ok(p) if p == m => {}
                    _ => return Err("BlockQueryWithSkip re-encode mismatch".into()),
                }
                s.push('1');
            }
            Err(_) => s.push('0'),
        }
        Ok(format!("parsed={}", s))
    }

    pub fn valid(rng: &mut Rng) -> Vec<u8> {
        let r = match rng.below(5) {
            0 | 1 => {
                let range_control = rc(rng, true);
                let fd = blob(rng);
                let md = blob(rng);
                let m = TransferInit {
                    transfer_control: tc(rng),
                    range_control,
                    max_block_size: rng.next() as u16,
                    start_offset: ranged(rng, range_control.start_offset, range_control.wide_range),
                    length: ranged(rng, range_control.def_len, range_control.wide_range),
                    file_designator: &fd,
                    metadata: &md,
                };
                enc(1024, |wb| m.write(wb))
            }
            2 => {
                let range_control = rc(rng, false);
                let md = blob(rng);
                let m = TransferAccept {
                    receive: true,
                    transfer_control: tc(rng),
                    range_control,
                    max_block_size: rng.next() as u16,
                    length: ranged(rng, range_control.def_len, range_control.wide_range),
                    metadata: &md,
                };
                enc(1024, |wb| m.write(wb))
            }
            3 => {
                let data = blob(rng);
                let m = Block { block_counter: rng.next() as u32, data: &data };
                enc(1024, |wb| m.write(wb))
            }
            _ => {
                let m = BlockQueryWithSkip { block_counter: rng.next() as u32, bytes_to_skip: rng.next() };
                enc(16, |wb| m.write(wb))
            }
        };
        r.unwrap_or_default()
    }

    pub fn edges() -> Vec<Vec<u8>> {
        vec![
            // file designator length far beyond the payload
            vec![0x10, 0x00, 0x00, 0x04, 0xff, 0xff],
            vec![0x10, 0x00, 0x00, 0x04, 0xff, 0xff, 0x41],
            // wide offset + length present but truncated
            vec![0x30, 0x13, 0x00, 0x04, 1, 2, 3, 4, 5, 6, 7, 8, 1, 2, 3],
            vec![0x30, 0x13, 0x00, 0x04, 0xff, 0xff, 0xff, 0xff, 0xff, 0xff, 0xff, 0xff, 0xff, 0xff, 0xff, 0xff, 0xff, 0xff, 0xff, 0xff, 0x00, 0x00],
            vec![0x30, 0x03, 0x00, 0x04, 0xff, 0xff, 0xff, 0xff, 0xff, 0xff, 0xff, 0xff, 0x01, 0x00, 0x41],
            // reserved bits everywhere
            vec![0xff, 0xff, 0xff, 0xff, 0, 0, 0, 0, 0, 0, 0, 0, 0, 0, 0, 0, 0, 0, 0, 0, 0, 0],
            vec![0x20],
            vec![0x20, 0x01],
            vec![0x20, 0x01, 0x00],
            vec![0x20, 0x11, 0x00, 0x04, 1, 2, 3, 4, 5, 6, 7],
            vec![1, 2, 3],
            vec![1, 2, 3, 4],
            vec![1, 2, 3, 4, 5, 6, 7, 8, 9, 10, 11],
            vec![1, 2, 3, 4, 5, 6, 7, 8, 9, 10, 11, 12],
        ]
    }
}

// ------------------------------------------------------------------------------ statusreport

mod statusreport {
    use super::*;
    use rs_matter::sc::{GeneralCode, StatusReport};
    use rs_matter::utils::storage::{ReadBuf, WriteBuf};

    const CODES: [GeneralCode; 17] = [
        GeneralCode::Success,
        GeneralCode::Failure,
        GeneralCode::BadPrecondition,
        GeneralCode::OutOfRange,
        GeneralCode::BadRequest,
        GeneralCode::Unsupported,
        GeneralCode::Unexpected,
        GeneralCode::ResourceExhausted,
        GeneralCode::Busy,
        GeneralCode::Timeout,
        GeneralCode::Continue,
        GeneralCode::Aborted,
        GeneralCode::InvalidArgument,
        GeneralCode::NotFound,
        GeneralCode::AlreadyExists,
        GeneralCode::PermissionDenied,
        GeneralCode::DataLoss,
    ];

    fn enc(sr: &StatusReport) -> Result<Vec<u8>, String> {
        let mut buf = vec![0u8; sr.proto_data.len() + 16];
        let mut wb = WriteBuf::new(&mut buf);
        sr.write(&mut wb).map_err(|e| format!("write failed: {:?}", e.code()))?;
        Ok(wb.as_slice().to_vec())
    }

    pub fn rt(seed: u64) -> Result<String, String> {
        let mut rng = Rng::new(seed);
        let mut total = 0;
        for (i, code) in CODES.iter().enumerate() {
            let n = if rng.chance(1, 3) { 0 } else { rng.below(64) as usize };
            let data = rand_bytes(&mut rng, n);
            let sr = StatusReport { general_code: *code, proto_id: edgy_u32(&mut rng), proto_code: edgy_u16(&mut rng), proto_data: &data };
            let bytes = enc(&sr)?;
            if bytes.len() != 8 + data.len() || bytes.get(..2) != Some(&(i as u16).to_le_bytes()[..]) {
                return Err(format!("unexpected encoding of {:?}: {}", code, hex(&bytes)));
            }
            let mut rb = ReadBuf::new(&bytes[..]);
            let p = StatusReport::read(&mut rb).map_err(|e| format!("read failed for {:?}: {:?}", code, e.code()))?;
            if p.general_code != sr.general_code || p.proto_id != sr.proto_id || p.proto_code != sr.proto_code || p.proto_data != sr.proto_data {
                return Err(format!("mismatch: {:?} vs {:?}", sr, p));
            }
            total += bytes.len();
        }
        Ok(format!("len={}", total))
    }

    pub fn fuzz(b: &[u8]) -> Result<String, String> {
        let mut rb = ReadBuf::new(b);
        match StatusReport::read(&mut rb) {
            Ok(sr) => {
                let bytes = enc(&sr)?;
                if bytes != b {
                    return Err(format!("re-encode differs: {} vs input", hex(&bytes)));
                }
                Ok(format!("ok:{:?}", sr.general_code))
            }
            Err(e) => Ok(format!("err:{:?}", e.code())),
        }
    }

    pub fn valid(rng: &mut Rng) -> Vec<u8> {
        let n = rng.below(32) as usize;
        let data = rand_bytes(rng, n);
        let sr = StatusReport { general_code: *rng.pick(&CODES), proto_id: rng.next() as u32, proto_code: rng.next() as u16, proto_data: &data };
        enc(&sr).unwrap_or_default()
    }

    pub fn edges() -> Vec<Vec<u8>> {
        vec![
            vec![0x10, 0x00, 0, 0, 0, 0, 0, 0],
            vec![0x11, 0x00, 0, 0, 0, 0, 0, 0],
            vec![0x00, 0x01, 0, 0, 0, 0, 0, 0],
            vec![0x00, 0x00, 0, 0, 0, 0, 0],
            vec![0x00],
            vec![0x00, 0x00],
            vec![0x00, 0x00, 0xff, 0xff, 0xff, 0xff, 0xff, 0xff],
        ]
    }
}

// ----------------------------------------------------------------------------------- checkin

mod checkin {
    use super::*;
    use rs_matter::crypto::{test_only_crypto, CanonAeadKeyRef};
    use rs_matter::sc::checkin::CheckIn;

    const FUZZ_KEY: [u8; 16] = [0x5a, 0x11, 0xc3, 0x07, 0x99, 0x42, 0xee, 0x10, 0x01, 0x02, 0x03, 0x04, 0xf0, 0xe0, 0xd0, 0xc0];

    fn gen(key: &[u8; 16], counter: u32, app: &[u8], extra: usize) -> Result<Vec<u8>, String> {
        let crypto = test_only_crypto();
        let ci = CheckIn::new(CanonAeadKeyRef::new(key));
        let mut buf = vec![0u8; CheckIn::payload_len(app.len()) + extra];
        let out = ci.generate(&crypto, counter, app, &mut buf).map_err(|e| format!("generate failed: {:?}", e.code()))?;
        Ok(out.to_vec())
    }

    /// Ok(Some((counter, app_data))) / Ok(None) = rejected
    fn parse(key: &[u8; 16], payload: &[u8]) -> Option<(u32, Vec<u8>)> {
        let crypto = test_only_crypto();
        let ci = CheckIn::new(CanonAeadKeyRef::new(key));
        let mut buf = payload.to_vec();
        match ci.parse(&crypto, &mut buf) {
            Ok(p) => Some((p.counter, p.app_data.to_vec())),
            Err(_) => None,
        }
    }

    pub fn rt(seed: u64) -> Result<String, String> {
        let mut rng = Rng::new(seed);
        let mut key = [0u8; 16];
        for b in key.iter_mut() {
            *b = rng.next() as u8;
        }
        let counter = edgy_u32(&mut rng);
        let n = match rng.below(6) {
            0 => 0,
            1 => 64,
            _ => rng.below(65) as usize,
        };
        let app = rand_bytes(&mut rng, n);
        let extra = rng.below(9) as usize;
        let msg = gen(&key, counter, &app, extra)?;
        if msg.len() != 33 + n {
            return Err(format!("payload length {} want {}", msg.len(), 33 + n));
        }
        if gen(&key, counter, &app, 0)? != msg {
            return Err("generate is not deterministic".into());
        }
        match parse(&key, &msg) {
            Some((c, a)) if c == counter && a == app => {}
            Some((c, a)) => return Err(format!("parsed counter={} app={} want counter={} app={}", c, hex(&a), counter, hex(&app))),
            None => return Err("valid payload rejected".into()),
        }
        // a too small output buffer is an error, not a panic
        {
            let crypto = test_only_crypto();
            let ci = CheckIn::new(CanonAeadKeyRef::new(&key));
            let mut small = vec![0u8; rng.below(33 + n as u64) as usize];
            if ci.generate(&crypto, counter, &app, &mut small).is_ok() {
                return Err("generate succeeded into a too small buffer".into());
            }
        }
        let mut other = key;
        other[rng.below(16) as usize] ^= 1 << rng.below(8);
        if parse(&other, &msg).is_some() {
            return Err("forgery: payload accepted under a different key".into());
        }
        for _ in 0..4 {
            let mut m = msg.clone();
            mutate(&mut rng, &mut m);
            if m == msg {
                continue;
            }
            if let Some((c, a)) = parse(&key, &m) {
                return Err(format!("forgery: mutated payload {} accepted as counter={} app={}", hex(&m), c, hex(&a)));
            }
        }
        Ok(format!("len={}", msg.len()))
    }

    pub fn fuzz(b: &[u8]) -> Result<String, String> {
        match parse(&FUZZ_KEY, b) {
            Some((c, a)) => {
                // generate is deterministic, so an accepted payload must be THE encoding of its fields
                let again = gen(&FUZZ_KEY, c, &a, 0)?;
                if again != b {
                    return Err(format!("forgery: accepted payload is not the encoding of counter={} app={}", c, hex(&a)));
                }
                Ok(format!("ok:len={}", a.len()))
            }
            None => Ok("rejected".into()),
        }
    }

    pub fn valid(rng: &mut Rng) -> Vec<u8> {
        let n = rng.below(40) as usize;
        let app = rand_bytes(rng, n);
        gen(&FUZZ_KEY, rng.next() as u32, &app, 0).unwrap_or_default()
    }

    pub fn edges() -> Vec<Vec<u8>> {
        vec![vec![0; 32], vec![0; 33], vec![0xff; 32], vec![0xff; 34], vec![0x11; 13], vec![0x11; 17], vec![0x11; 29]]
    }
}

// -------------------------------------------------------------------------------------- mdns

mod mdns {
    use super::*;
    use core::fmt::Write as _;
    use rs_matter::transport::network::mdns::builtin::{build_resolve_query, parse_into_answer, Host};
    use rs_matter::transport::network::mdns::{CommissionableFilter, MdnsLocalService};
    use rs_matter::transport::network::{IpAddr, Ipv4Addr, Ipv6Addr};

    const ALNUM: &[u8] = b"ABCDEFGHIJKLMNOPQRSTUVWXYZabcdefghijklmnopqrstuvwxyz0123456789";
    const LOWER: &[u8] = b"abcdefghijklmnopqrstuvwxyz0123456789";
    const UPPER: &[u8] = b"ABCDEFGHIJKLMNOPQRSTUVWXYZ";
    const VALUE: &[u8] = b"ABCDEFabcdef0123456789+-._= ";

    pub struct Spec {
        name: String,
        hostname: String,
        tcp: bool,
        port: u16,
        subtypes: Vec<String>,
        txt: Vec<(String, String)>,
        ip: Ipv4Addr,
        ipv6: Vec<Ipv6Addr>,
    }

    impl Spec {
        fn service(&self) -> &'static str {
            if self.tcp {
                "_matter"
            } else {
                "_matterc"
            }
        }
        fn protocol(&self) -> &'static str {
            if self.tcp {
                "_tcp"
            } else {
                "_udp"
            }
        }
        fn service_protocol(&self) -> &'static str {
            if self.tcp {
                "_matter._tcp"
            } else {
                "_matterc._udp"
            }
        }
        fn addrs(&self) -> Vec<IpAddr> {
            let mut v = Vec::new();
            if !self.ip.is_unspecified() {
                v.push(IpAddr::V4(self.ip));
            }
            for a in &self.ipv6 {
                if !a.is_unspecified() {
                    v.push(IpAddr::V6(*a));
                }
            }
            v
        }
    }

    pub fn fixed_spec() -> Spec {
        Spec {
            name: "FUZZ0001".into(),
            hostname: "fuzzhost".into(),
            tcp: false,
            port: 5540,
            subtypes: vec!["_L1234".into(), "_S4".into(), "_CM".into()],
            txt: vec![("D".into(), "1234".into()), ("VP".into(), "65521+32769".into()), ("CM".into(), "1".into()), ("SII".into(), "5000".into())],
            ip: Ipv4Addr::new(192, 168, 1, 5),
            ipv6: vec![Ipv6Addr::new(0xfe80, 0, 0, 0, 1, 2, 3, 4)],
        }
    }

    pub fn spec(rng: &mut Rng) -> Spec {
        let mut subtypes = Vec::new();
        for _ in 0..rng.below(4) {
            subtypes.push(match rng.below(5) {
                0 => format!("_L{}", rng.below(4096)),
                1 => format!("_S{}", rng.below(16)),
                2 => "_CM".to_string(),
                3 => format!("_V{}", rng.next() as u16),
                _ => format!("_T{}", rng.below(70000)),
            });
        }
        let mut txt = Vec::new();
        for _ in 0..rng.below(7) {
            let k = match rng.below(6) {
                0 => "D".to_string(),
                1 => "VP".to_string(),
                2 => "SII".to_string(),
                3 => "T".to_string(),
                _ => rand_str(rng, UPPER, 1, 4),
            };
            let v = match rng.below(4) {
                0 => format!("{}", rng.below(70000)),
                1 => format!("{}+{}", rng.next() as u16, rng.next() as u16),
                _ => rand_str(rng, VALUE, 0, 12),
            };
            txt.push((k, v));
        }
        let ip = match rng.below(5) {
            0 => Ipv4Addr::UNSPECIFIED,
            1 => Ipv4Addr::new(255, 255, 255, 255),
            _ => Ipv4Addr::from((rng.next() as u32).max(1)),
        };
        let mut ipv6 = Vec::new();
        for _ in 0..rng.below(4) {
            ipv6.push(match rng.below(4) {
                0 => Ipv6Addr::UNSPECIFIED,
                1 => Ipv6Addr::new(0xfe80, 0, 0, 0, rng.next() as u16, rng.next() as u16, rng.next() as u16, rng.next() as u16),
                _ => Ipv6Addr::from(((rng.next() as u128) << 64 | rng.next() as u128).max(1)),
            });
        }
        Spec {
            name: rand_str(rng, ALNUM, 1, 16),
            hostname: rand_str(rng, LOWER, 1, 12),
            tcp: rng.chance(1, 3),
            port: match rng.below(5) {
                0 => 0,
                1 => 65535,
                _ => rng.next() as u16,
            },
            subtypes,
            txt,
            ip,
            ipv6,
        }
    }

    pub struct Packets {
        pub broadcast: Vec<u8>,
        pub query: Vec<u8>,
        pub resp_multicast: Vec<u8>,
        pub resp_legacy: Vec<u8>,
    }

    /// All packets the repo's responder / query builder produce for `spec`.
    pub fn packets(spec: &Spec) -> Result<Packets, String> {
        let host = Host { hostname: &spec.hostname, ip: spec.ip, ipv6: &spec.ipv6 };
        let service = MdnsLocalService {
            name: &spec.name,
            service: spec.service(),
            protocol: spec.protocol(),
            service_protocol: spec.service_protocol(),
            port: spec.port,
            service_subtypes: spec.subtypes.iter().map(|s| s.as_str()),
            txt_kvs: spec.txt.iter().map(|(k, v)| (k.as_str(), v.as_str())),
        };
        let mut buf = vec![0u8; 1500];
        let len = host.broadcast(&service, &mut buf, 60, 120).map_err(|e| format!("broadcast failed: {:?}", e.code()))?;
        let broadcast = buf.get(..len).ok_or("broadcast length out of range")?.to_vec();

        // a resolve query for the instance: the name comes out of the parser (the only nameable
        // `ToName` value available outside the crate)
        let answer = parse_into_answer(&broadcast, None)
            .map_err(|e| format!("broadcast packet rejected: {:?}", e.code()))?
            .ok_or("broadcast packet yields no answer")?;
        let mut qbuf = vec![0u8; 512];
        let qlen = build_resolve_query(answer.instance_name, &mut qbuf).map_err(|e| format!("build_resolve_query failed: {:?}", e.code()))?;
        let query = qbuf.get(..qlen).ok_or("query length out of range")?.to_vec();

        let mut out = Vec::new();
        for legacy in [false, true] {
            let mut rbuf = vec![0u8; 1500];
            let (rlen, _mode) = host.respond(&service, &query, &mut rbuf, 60, legacy).map_err(|e| format!("respond failed: {:?}", e.code()))?;
            out.push(rbuf.get(..rlen).ok_or("response length out of range")?.to_vec());
        }
        let resp_legacy = out.pop().unwrap_or_default();
        let resp_multicast = out.pop().unwrap_or_default();
        Ok(Packets { broadcast, query, resp_multicast, resp_legacy })
    }

    fn check(what: &str, spec: &Spec, bytes: &[u8], scope: Option<u32>) -> Result<(), String> {
        let a = parse_into_answer(bytes, scope)
            .map_err(|e| format!("{}: rejected: {:?}", what, e.code()))?
            .ok_or(format!("{}: no answer", what))?;
        let mut name = String::new();
        write!(name, "{}", a.instance_name).map_err(|_| format!("{}: name formatting failed", what))?;
        while name.ends_with('.') {
            name.pop();
        }
        let want = format!("{}.{}.{}.local", spec.name, spec.service(), spec.protocol());
        if name != want {
            return Err(format!("{}: instance name {} want {}", what, name, want));
        }
        if a.port != Some(spec.port) {
            return Err(format!("{}: port {:?} want {}", what, a.port, spec.port));
        }
        let txt: Vec<(String, String)> = a.txt.clone().map(|(k, v)| (k.to_string(), v.to_string())).collect();
        if txt != spec.txt {
            return Err(format!("{}: txt {:?} want {:?}", what, txt, spec.txt));
        }
        let addrs: Vec<IpAddr> = a.addrs.clone().collect();
        if addrs != spec.addrs() {
            return Err(format!("{}: addrs {:?} want {:?}", what, addrs, spec.addrs()));
        }
        if a.scope_id != scope.unwrap_or(0) {
            return Err(format!("{}: scope {} want {:?}", what, a.scope_id, scope));
        }
        Ok(())
    }

    pub fn rt(seed: u64) -> Result<String, String> {
        let mut rng = Rng::new(seed);
        let spec = spec(&mut rng);
        let p = packets(&spec)?;
        let scope = if rng.chance(1, 2) { Some(rng.next() as u32) } else { None };
        check("broadcast", &spec, &p.broadcast, scope)?;
        match parse_into_answer(&p.query, None) {
            Ok(None) => {}
            Ok(Some(_)) => return Err("a query was parsed as an answer".into()),
            Err(e) => return Err(format!("own query rejected: {:?}", e.code())),
        }
        if p.resp_multicast.is_empty() || p.resp_legacy.is_empty() {
            return Err("responder skipped a resolve query for its own instance".into());
        }
        check("response", &spec, &p.resp_multicast, scope)?;
        check("legacy-response", &spec, &p.resp_legacy, scope)?;
        Ok(format!("len={}+{}+{}+{}", p.broadcast.len(), p.query.len(), p.resp_multicast.len(), p.resp_legacy.len()))
    }

    fn walk(b: &[u8], scope: Option<u32>) -> Result<String, String> {
        match parse_into_answer(b, scope) {
            Ok(Some(a)) => {
                let mut name = String::new();
                let _ = write!(name, "{}", a.instance_name);
                let _ = write!(name, "{:?}", a.instance_name);
                let na = a.addrs.clone().take(4096).count();
                let mut nt = 0;
                for (k, v) in a.txt.clone().take(4096) {
                    nt += 1;
                    let _ = (k.len(), v.len());
                }
                let _ = a.session_params();
                let _ = a.supports_tcp_server();
                let filter = CommissionableFilter {
                    discriminator: Some(1234),
                    short_discriminator: Some(4),
                    vendor_id: Some(65521),
                    product_id: Some(32769),
                    device_type: Some(10),
                    commissioning_mode_only: true,
                };
                let _ = filter.matches(&a);
                let _ = CommissionableFilter::default().matches(&a);
                Ok(format!("a{}t{}p{}", na, nt, a.port.is_some() as u8))
            }
            Ok(None) => Ok("none".into()),
            Err(_) => Ok("err".into()),
        }
    }

    pub fn fuzz(b: &[u8]) -> Result<String, String> {
        let s = walk(b, None)?;
        let s2 = walk(b, Some(7))?;
        if s != s2 {
            return Err(format!("scope changes the parse: {} vs {}", s, s2));
        }
        // the responder's query decoder on the same bytes
        let spec = fixed_spec();
        let host = Host { hostname: &spec.hostname, ip: spec.ip, ipv6: &spec.ipv6 };
        let service = MdnsLocalService {
            name: &spec.name,
            service: spec.service(),
            protocol: spec.protocol(),
            service_protocol: spec.service_protocol(),
            port: spec.port,
            service_subtypes: spec.subtypes.iter().map(|s| s.as_str()),
            txt_kvs: spec.txt.iter().map(|(k, v)| (k.as_str(), v.as_str())),
        };
        let mut r = String::new();
        for legacy in [false, true] {
            let mut rbuf = vec![0u8; 1500];
            match host.respond(&service, b, &mut rbuf, 60, legacy) {
                Ok((len, _)) if len > 0 => {
                    let resp = rbuf.get(..len).ok_or("response length out of range")?;
                    if parse_into_answer(resp, None).is_err() {
                        return Err(format!("responder produced a packet its own parser rejects: {}", hex(resp)));
                    }
                    r.push('r');
                }
                Ok(_) => r.push('s'),
                Err(_) => r.push('e'),
            }
        }
        Ok(format!("{}:{}", s, r))
    }

    /// Hand-assembled query packet (the crate's query builders need a `domain` name type that
    /// cannot be named from outside).
    fn raw_query(id: u16, qs: &[(&[&str], u16)]) -> Vec<u8> {
        let mut v = vec![(id >> 8) as u8, id as u8, 0, 0, 0, qs.len() as u8, 0, 0, 0, 0, 0, 0];
        for (labels, qtype) in qs {
            for l in labels.iter() {
                v.push(l.len() as u8);
                v.extend_from_slice(l.as_bytes());
            }
            v.push(0);
            v.extend([(qtype >> 8) as u8, *qtype as u8, 0, 1]);
        }
        v
    }

    /// Queries the fixed fuzz service answers.
    fn fixed_queries() -> Vec<Vec<u8>> {
        let inst: &[&str] = &["FUZZ0001", "_matterc", "_udp", "local"];
        let ty: &[&str] = &["_matterc", "_udp", "local"];
        let sd: &[&str] = &["_services", "_dns-sd", "_udp", "local"];
        let sub: &[&str] = &["_L1234", "_sub", "_matterc", "_udp", "local"];
        let host: &[&str] = &["fuzzhost", "local"];
        let upper: &[&str] = &["fuzz0001", "_MATTERC", "_UDP", "LOCAL"];
        vec![
            raw_query(0, &[(inst, 33)]),
            raw_query(0, &[(inst, 16)]),
            raw_query(0x1234, &[(inst, 255)]),
            raw_query(0, &[(ty, 12)]),
            raw_query(0, &[(sd, 12)]),
            raw_query(0, &[(sub, 12)]),
            raw_query(0, &[(host, 1)]),
            raw_query(0, &[(host, 28)]),
            raw_query(7, &[(host, 255), (inst, 255), (ty, 12), (sd, 12), (sub, 12)]),
            raw_query(0, &[(upper, 255)]),
        ]
    }

    pub fn valid(rng: &mut Rng) -> Vec<u8> {
        if rng.chance(1, 4) {
            return rng.pick(&fixed_queries()).clone();
        }
        let s = if rng.chance(1, 2) { fixed_spec() } else { spec(rng) };
        match packets(&s) {
            Ok(p) => match rng.below(5) {
                0 | 1 => p.broadcast,
                2 => p.query,
                3 => p.resp_multicast,
                _ => p.resp_legacy,
            },
            Err(_) => Vec::new(),
        }
    }

    pub fn edges() -> Vec<Vec<u8>> {
        let mut e = fixed_queries();
        // header only, response bit set, huge counts
        e.push(vec![0, 0, 0x84, 0, 0xff, 0xff, 0xff, 0xff, 0xff, 0xff, 0xff, 0xff]);
        e.push(vec![0, 0, 0x84, 0, 0, 0, 0, 1, 0, 0, 0, 0]);
        // one answer whose name is a compression pointer to itself
        e.push(vec![0, 0, 0x84, 0, 0, 0, 0, 1, 0, 0, 0, 0, 0xc0, 0x0c, 0, 33, 0, 1, 0, 0, 0, 60, 0, 8, 0, 0, 0, 0, 0x15, 0xa4, 0xc0, 0x0c]);
        // pointer past the end
        e.push(vec![0, 0, 0x84, 0, 0, 0, 0, 1, 0, 0, 0, 0, 0xc0, 0xff, 0, 12, 0, 1, 0, 0, 0, 60, 0, 2, 0xc0, 0xff]);
        // TXT with a character-string length beyond rdata, and rdlength beyond the packet
        e.push(vec![0, 0, 0x84, 0, 0, 0, 0, 2, 0, 0, 0, 0, 1, b'a', 0, 0, 12, 0, 1, 0, 0, 0, 60, 0, 3, 1, b'a', 0, 1, b'a', 0, 0, 16, 0, 1, 0, 0, 0, 60, 0, 4, 0xff, b'k', b'=', b'v']);
        e.push(vec![0, 0, 0x84, 0, 0, 0, 0, 1, 0, 0, 0, 0, 1, b'a', 0, 0, 16, 0, 1, 0, 0, 0, 60, 0xff, 0xff, 3, b'k', b'=', b'v']);
        // label of length 63 cut short
        e.push(vec![0, 0, 0x84, 0, 0, 0, 0, 1, 0, 0, 0, 0, 63, b'a', b'b']);
        // a query with ffff questions
        e.push(vec![0, 0, 0, 0, 0xff, 0xff, 0, 0, 0, 0, 0, 0, 0, 0, 0xff, 0, 1]);
        e
    }
}

// ---------------------------------------------------------------------------------------- cd

mod cd {
    use super::*;
    use rs_matter::attest::cd::{CertificationElements, CertificationType, CmsSignedData, DeviceInfoForAttestation};
    use rs_matter::attest::cd_keys::TEST_CD_KID;
    use rs_matter::crypto::test_only_crypto;
    use rs_matter::dm::clusters::dev_att::DeviceAttestation;
    use rs_matter::dm::devices::test::TEST_DEV_ATT;
    use rs_matter::tlv::{TLVTag, TLVWrite};
    use rs_matter::utils::storage::WriteBuf;

    const OID_SIGNED_DATA: &[u8] = &[0x2a, 0x86, 0x48, 0x86, 0xf7, 0x0d, 0x01, 0x07, 0x02];
    const OID_DATA: &[u8] = &[0x2a, 0x86, 0x48, 0x86, 0xf7, 0x0d, 0x01, 0x07, 0x01];
    const OID_SHA256: &[u8] = &[0x60, 0x86, 0x48, 0x01, 0x65, 0x03, 0x04, 0x02, 0x01];
    const OID_ECDSA_SHA256: &[u8] = &[0x2a, 0x86, 0x48, 0xce, 0x3d, 0x04, 0x03, 0x02];

    /// Harness-side encoder of the CD payload, on top of the repo's TLV writer.
    fn encode(ce: &CertificationElements) -> Result<Vec<u8>, String> {
        let mut buf = vec![0u8; 1024];
        let mut tw = WriteBuf::new(&mut buf);
        let r: Result<(), rs_matter::error::Error> = (|| {
            tw.start_struct(&TLVTag::Anonymous)?;
            tw.u16(&TLVTag::Context(0), ce.format_version)?;
            tw.u16(&TLVTag::Context(1), ce.vendor_id)?;
            tw.start_array(&TLVTag::Context(2))?;
            for pid in ce.product_ids.iter().take(ce.product_ids_count) {
                tw.u16(&TLVTag::Anonymous, *pid)?;
            }
            tw.end_container()?;
            tw.u32(&TLVTag::Context(3), ce.device_type_id)?;
            tw.utf8(&TLVTag::Context(4), core::str::from_utf8(&ce.certificate_id).unwrap_or("?"))?;
            tw.u8(&TLVTag::Context(5), ce.security_level)?;
            tw.u16(&TLVTag::Context(6), ce.security_information)?;
            tw.u16(&TLVTag::Context(7), ce.version_number)?;
            tw.u8(&TLVTag::Context(8), ce.certification_type as u8)?;
            if ce.dac_origin_vid_pid_present {
                tw.u16(&TLVTag::Context(9), ce.dac_origin_vendor_id)?;
                tw.u16(&TLVTag::Context(10), ce.dac_origin_product_id)?;
            }
            if ce.authorized_paa_list_count > 0 {
                tw.start_array(&TLVTag::Context(11))?;
                for kid in ce.authorized_paa_list.iter().take(ce.authorized_paa_list_count) {
                    tw.str(&TLVTag::Anonymous, kid)?;
                }
                tw.end_container()?;
            }
            tw.end_container()
        })();
        r.map_err(|e| format!("harness CD encoder failed: {:?}", e.code()))?;
        Ok(tw.as_slice().to_vec())
    }

    fn random_ce(rng: &mut Rng) -> CertificationElements {
        let mut ce = CertificationElements { format_version: 1, ..Default::default() };
        ce.vendor_id = edgy_u16(rng);
        ce.product_ids_count = match rng.below(6) {
            0 => 1,
            1 => 100,
            _ => rng.range(1, 100) as usize,
        };
        for i in 0..ce.product_ids_count {
            ce.product_ids[i] = edgy_u16(rng);
        }
        ce.device_type_id = edgy_u32(rng);
        for b in ce.certificate_id.iter_mut() {
            *b = *rng.pick(b"ABCDEFGHIJKLMNOPQRSTUVWXYZ0123456789-");
        }
        ce.security_level = rng.next() as u8;
        ce.security_information = edgy_u16(rng);
        ce.version_number = edgy_u16(rng);
        ce.certification_type = *rng.pick(&[CertificationType::DevelopmentAndTest, CertificationType::Provisional, CertificationType::Official]);
        if rng.chance(1, 2) {
            ce.dac_origin_vid_pid_present = true;
            ce.dac_origin_vendor_id = edgy_u16(rng);
            ce.dac_origin_product_id = edgy_u16(rng);
        }
        if rng.chance(1, 2) {
            ce.authorized_paa_list_count = rng.range(1, 10) as usize;
            for i in 0..ce.authorized_paa_list_count {
                for b in ce.authorized_paa_list[i].iter_mut() {
                    *b = rng.next() as u8;
                }
            }
        }
        ce
    }

    /// Harness-side CMS SignedData envelope (the profile documented at `CmsSignedData::parse`).
    fn cms(kid: &[u8], content: &[u8], r: &[u8], s: &[u8]) -> Vec<u8> {
        let cat = |parts: &[Vec<u8>]| parts.concat();
        let sig = der(0x30, &cat(&[der_uint(r), der_uint(s)]));
        let signer_info = der(
            0x30,
            &cat(&[der(0x02, &[3]), der(0x80, kid), der(0x30, &der(0x06, OID_SHA256)), der(0x30, &der(0x06, OID_ECDSA_SHA256)), der(0x04, &sig)]),
        );
        let encap = der(0x30, &cat(&[der(0x06, OID_DATA), der(0xa0, &der(0x04, content))]));
        let digest_algs = der(0x31, &der(0x30, &der(0x06, OID_SHA256)));
        let signed_data = der(0x30, &cat(&[der(0x02, &[3]), digest_algs, encap, der(0x31, &signer_info)]));
        der(0x30, &cat(&[der(0x06, OID_SIGNED_DATA), der(0xa0, &signed_data)]))
    }

    fn scalar(rng: &mut Rng) -> Vec<u8> {
        let mut v = rand_bytes(rng, 32);
        match rng.below(6) {
            0 => v[0] = 0,
            1 => {
                v[0] = 0;
                v[1] = 0x80;
            }
            2 => v[0] |= 0x80,
            3 => {
                for b in v.iter_mut().take(31) {
                    *b = 0;
                }
                v[31] |= 1;
            }
            _ => {}
        }
        v
    }

    fn known() -> Result<String, String> {
        let crypto = test_only_crypto();
        let mut ce1 = CertificationElements { format_version: 1, vendor_id: 0xfff1, product_ids_count: 1, device_type_id: 0x1234, version_number: 0x2694, ..Default::default() };
        ce1.product_ids[0] = 0x8000;
        ce1.certificate_id.copy_from_slice(b"ZIG20141ZB330001-24");
        let mut ce2 = CertificationElements {
            format_version: 1,
            vendor_id: 0xfff2,
            product_ids_count: 2,
            device_type_id: 0x1234,
            version_number: 0x2694,
            dac_origin_vendor_id: 0xfff1,
            dac_origin_product_id: 0x8000,
            dac_origin_vid_pid_present: true,
            ..Default::default()
        };
        ce2.product_ids[0] = 0x8001;
        ce2.product_ids[1] = 0x8002;
        ce2.certificate_id.copy_from_slice(b"ZIG20142ZB330002-24");
        for (i, (msg, content, want)) in [
            (hx(TEST_CMS_SIGNED_MESSAGE_01), hx(TEST_CMS_CD_CONTENT_01), &ce1),
            (hx(TEST_CMS_SIGNED_MESSAGE_02), hx(TEST_CMS_CD_CONTENT_02), &ce2),
        ]
        .into_iter()
        .enumerate()
        {
            let c = CmsSignedData::parse(&msg).map_err(|e| format!("vector {}: CMS rejected: {:?}", i, e.code()))?;
            if c.cd_content != &content[..] {
                return Err(format!("vector {}: cd_content differs", i));
            }
            if c.signer_key_id != &TEST_CD_KID[..] {
                return Err(format!("vector {}: signer key id {}", i, hex(c.signer_key_id)));
            }
            // the harness envelope builder reproduces the vector byte for byte (self check)
            let rebuilt = cms(c.signer_key_id, c.cd_content, &c.signature_raw[..32], &c.signature_raw[32..]);
            if rebuilt != msg {
                return Err(format!("vector {}: harness CMS builder does not reproduce the vector: {}", i, hex(&rebuilt)));
            }
            let d = CertificationElements::decode(&content).map_err(|e| format!("vector {}: decode: {:?}", i, e.code()))?;
            if &d != want {
                return Err(format!("vector {}: decoded {:?}", i, d));
            }
            if encode(&d)? != content {
                return Err(format!("vector {}: harness CD encoder does not reproduce the vector", i));
            }
            let v = CertificationElements::verify(&crypto, &msg, true).map_err(|e| format!("vector {}: verify: {:?}", i, e.code()))?;
            if &v != want {
                return Err(format!("vector {}: verify gave {:?}", i, v));
            }
            if CertificationElements::verify(&crypto, &msg, false).is_ok() {
                return Err(format!("vector {}: test key accepted although not allowed", i));
            }
        }
        // the CD of the test device
        let dev = TEST_DEV_ATT.cert_declaration();
        let c = CmsSignedData::parse(dev).map_err(|e| format!("device CD: CMS rejected: {:?}", e.code()))?;
        let d = CertificationElements::decode(c.cd_content).map_err(|e| format!("device CD: decode: {:?}", e.code()))?;
        let v = CertificationElements::verify(&crypto, dev, true).map_err(|e| format!("device CD: verify: {:?}", e.code()))?;
        if d != v {
            return Err("device CD: decode and verify disagree".into());
        }
        Ok(format!("vectors=3,vid={:#x}", d.vendor_id))
    }

    pub fn rt(seed: u64) -> Result<String, String> {
        if seed < 2 {
            return known();
        }
        let mut rng = Rng::new(seed);
        let ce = random_ce(&mut rng);
        let content = encode(&ce)?;
        let d = CertificationElements::decode(&content).map_err(|e| format!("decode failed: {:?} for {}", e.code(), hex(&content)))?;
        if d != ce {
            return Err(format!("decoded {:?} want {:?}", d, ce));
        }
        let kid = rand_bytes(&mut rng, 20);
        let (r, s) = (scalar(&mut rng), scalar(&mut rng));
        let msg = cms(&kid, &content, &r, &s);
        let c = CmsSignedData::parse(&msg).map_err(|e| format!("CMS rejected: {:?} for {}", e.code(), hex(&msg)))?;
        if c.signer_key_id != &kid[..] {
            return Err(format!("signer key id {} want {}", hex(c.signer_key_id), hex(&kid)));
        }
        if c.cd_content != &content[..] {
            return Err("cd_content differs".into());
        }
        if c.signature_raw[..32] != r[..] || c.signature_raw[32..] != s[..] {
            return Err(format!("signature {} want {}{}", hex(&c.signature_raw), hex(&r), hex(&s)));
        }
        Ok(format!("len={}+{}", content.len(), msg.len()))
    }

    fn touch(ce: &CertificationElements) -> Result<(), String> {
        if ce.product_ids_count == 0 || ce.product_ids_count > 100 || ce.authorized_paa_list_count > 10 || ce.format_version != 1 {
            return Err(format!("decoder returned out-of-range counts: {:?}", ce));
        }
        let info = DeviceInfoForAttestation {
            vendor_id: 0xfff1,
            product_id: 0x8000,
            dac_vendor_id: 0xfff1,
            dac_product_id: 0x8000,
            pai_vendor_id: 0xfff1,
            pai_product_id: 0,
            paa_skid: [0x6a; 20],
        };
        let _ = ce.validate(&info);
        let again = encode(ce)?;
        match CertificationElements::decode(&again) {
            Ok(d) if &d == ce => Ok(()),
            Ok(d) => Err(format!("re-encode mismatch: {:?} vs {:?}", ce, d)),
            Err(e) => Err(format!("re-encoded CD rejected: {:?}", e.code())),
        }
    }

    pub fn fuzz(b: &[u8]) -> Result<String, String> {
        let crypto = test_only_crypto();
        let mut s = String::new();
        match CmsSignedData::parse(b) {
            Ok(c) => {
                let _ = (c.signer_key_id.len(), c.signature_raw.len());
                if let Ok(ce) = CertificationElements::decode(c.cd_content) {
                    touch(&ce)?;
                }
                s.push('1');
            }
            Err(_) => s.push('0'),
        }
        match CertificationElements::decode(b) {
            Ok(ce) => {
                touch(&ce)?;
                s.push('1');
            }
            Err(_) => s.push('0'),
        }
        for allow in [true, false] {
            match CertificationElements::verify(&crypto, b, allow) {
                Ok(_) => s.push('1'),
                Err(_) => s.push('0'),
            }
        }
        Ok(format!("parsed={}", s))
    }

    pub fn valid(rng: &mut Rng) -> (bool, Vec<u8>) {
        match rng.below(8) {
            0 => (false, hx(TEST_CMS_SIGNED_MESSAGE_01)),
            1 => (false, hx(TEST_CMS_SIGNED_MESSAGE_02)),
            2 => (false, TEST_DEV_ATT.cert_declaration().to_vec()),
            3 => (true, hx(TEST_CMS_CD_CONTENT_02)),
            4 | 5 => (true, encode(&random_ce(rng)).unwrap_or_default()),
            _ => {
                let content = encode(&random_ce(rng)).unwrap_or_default();
                let kid = if rng.chance(1, 2) { TEST_CD_KID.to_vec() } else { rand_bytes(rng, 20) };
                (false, cms(&kid, &content, &scalar(rng), &scalar(rng)))
            }
        }
    }

    pub fn edges() -> Vec<Vec<u8>> {
        let c1 = hx(TEST_CMS_CD_CONTENT_01);
        let mut e = Vec::new();
        // 101 product ids, 0 product ids, 11 authorized PAAs, wrong version
        let mut ce = CertificationElements { format_version: 1, product_ids_count: 1, ..Default::default() };
        ce.certificate_id.copy_from_slice(b"ZIG20141ZB330001-24");
        let base = encode(&ce).unwrap_or_default();
        // splice extra u16 elements into the product id array (`36 02 05 00 00 18`)
        if let Some(pos) = base.windows(2).position(|w| w == [0x36, 0x02]) {
            let mut many = base.clone();
            for _ in 0..100 {
                many.insert(pos + 2, 0x01);
                many.insert(pos + 2, 0x04);
            }
            e.push(many);
            let mut none = base.clone();
            if none.len() > pos + 4 {
                none.drain(pos + 2..pos + 4);
            }
            e.push(none);
        }
        let mut paas = base.clone();
        if paas.pop().is_some() {
            paas.extend([0x36, 0x0b]);
            for _ in 0..11 {
                paas.extend([0x10, 20]);
                paas.extend([0x77; 20]);
            }
            paas.extend([0x18, 0x18]);
            e.push(paas);
        }
        let mut v2 = c1.clone();
        if v2.len() > 3 {
            v2[3] = 2;
        }
        e.push(v2);
        // signature INTEGERs of 33 significant bytes / empty / negative
        let big = vec![0x81u8; 33];
        e.push(cms(&TEST_CD_KID, &c1, &big, &[1]));
        e.push(cms(&TEST_CD_KID, &c1, &[], &[]));
        let mut neg = cms(&[], &c1, &[0x7f; 32], &[0x7f; 32]);
        if let Some(p) = neg.windows(3).position(|w| w == [0x02, 0x20, 0x7f]) {
            neg[p + 2] = 0xff;
        }
        e.push(neg);
        e.push(cms(&[0x11; 300], &[], &[1], &[1]));
        e
    }
}
const TEST_CMS_SIGNED_MESSAGE_01: &str = "3081e806092a864886f70d010702a081da3081d7020103310d300b0609608648016503040201304506092a864886f70d010701a0380436152400012501f1ff360205008018250334122c04135a494732303134315a423333303030312d32342405002406002507942624080018317c307a020103801462fa823359acfaa9963e1cfa140addf504f37160300b0609608648016503040201300a06082a8648ce3d04030204463044022043a63f2b943df33c38b3e02fcaa75fe3532aebbf5e63f5bbdbc0b1f01d3c4f6002204c1abf5f1807b81894b1576c47e4724e4d966c612ed3fa25c118c3f2b3f90369";
const TEST_CMS_CD_CONTENT_02: &str = "152400012501f2ff360205018005028018250334122c04135a494732303134325a423333303030322d3234240500240600250794262408002509f1ff250a008018";
const TEST_CMS_SIGNED_MESSAGE_02: &str = "3081f506092a864886f70d010702a081e73081e4020103310d300b0609608648016503040201305006092a864886f70d010701a0430441152400012501f2ff360205018005028018250334122c04135a494732303134325a423333303030322d3234240500240600250794262408002509f1ff250a008018317e307c020103801462fa823359acfaa9963e1cfa140addf504f37160300b0609608648016503040201300a06082a8648ce3d04030204483046022100926296f7578158be7c459388336ca7383766c9eedd9855cbda6f4cf6bdf43211022100e0dbf4a2bcec4ea274baf0dea208b3365c6ed544086d101afdaf079a2c23e0de";
const PAA_FFF1_DER: &str = "308201bd30820164a00302010202084ea8e83182d41c1c300a06082a8648ce3d04030230303118301606035504030c0f4d617474657220546573742050414131143012060a2b0601040182a27c02010c04464646313020170d3231303632383134323334335a180f39393939313233313233353935395a30303118301606035504030c0f4d617474657220546573742050414131143012060a2b0601040182a27c02010c04464646313059301306072a8648ce3d020106082a8648ce3d03010703420004b6cb6372887f2928f5bac81aa9d93ae2431cada9d79e242f65177ef9ced932a28ecd03baaf6a8fca184a1a503542960d453f303f1f19421d751e8f8f1a9a9b75a366306430120603551d130101ff040830060101ff020101300e0603551d0f0101ff040403020106301d0603551d0e041604146afd22771f511fecbf1641976710dcdc31a1717e301f0603551d230418301680146afd22771f511fecbf1641976710dcdc31a1717e300a06082a8648ce3d0403020347003044022050aa8002f4d932a9a00538f65368ad0fffc8efbbc9beb7da569835cf9aa7510e022023bac8fe0f23e75445b65339081a47994929c72aaf0a1548d40d034d514b25de";
const TEST_CMS_CD_CONTENT_01: &str = "152400012501f1ff360205008018250334122c04135a494732303134315a423333303030312d32342405002406002507942624080018";

// -------------------------------------------------------------------------------------- cert

mod cert {
    use super::*;
    use core::fmt::Write as _;
    use rs_matter::cert::der_utils::ecdsa_der_to_raw;
    use rs_matter::cert::gen::{Validity, VALID_FOREVER};
    use rs_matter::cert::x509::cert::{DacCert, PaaCert, PaiCert};
    use rs_matter::cert::x509::csr::CsrRef;
    use rs_matter::cert::CertRef;
    use rs_matter::crypto::{default_crypto, test_only_crypto, CanonPkcPublicKey, Crypto, PublicKey, SigningSecretKey, WeakTestOnlyRand};
    use rs_matter::dm::clusters::dev_att::DeviceAttestation;
    use rs_matter::dm::clusters::time_sync::UtcTime;
    use rs_matter::dm::devices::test::{DAC_PRIVKEY, TEST_DEV_ATT};
    use rs_matter::onboard::cac::{IcacGenerator, RcacGenerator};
    use rs_matter::onboard::noc::NocGenerator;
    use rs_matter::tlv::{FromTLV, TLVElement, TLVTag, ToTLV};
    use rs_matter::utils::storage::WriteBuf;

    const MATTER_OID_PREFIX: &[u8] = &[0x2b, 0x06, 0x01, 0x04, 0x01, 0x82, 0xa2, 0x7c, 0x01];

    // ---- independent (harness-side) reader of the DER TBSCertificate produced by `as_asn1`

    #[derive(Debug, Default)]
    struct Tbs {
        serial: Vec<u8>,
        issuer: Vec<(Vec<u8>, Vec<u8>)>,
        not_before: (u8, Vec<u8>),
        not_after: (u8, Vec<u8>),
        subject: Vec<(Vec<u8>, Vec<u8>)>,
        pubkey: Vec<u8>,
        ext_oids: Vec<Vec<u8>>,
    }

    fn parse_name(mut b: &[u8]) -> Option<Vec<(Vec<u8>, Vec<u8>)>> {
        let mut out = Vec::new();
        while !b.is_empty() {
            let (t, set, rest) = der_next(b)?;
            if t != 0x31 {
                return None;
            }
            let (t, seq, _) = der_next(set)?;
            if t != 0x30 {
                return None;
            }
            let (t, oid, r2) = der_next(seq)?;
            if t != 0x06 {
                return None;
            }
            let (_, val, _) = der_next(r2)?;
            out.push((oid.to_vec(), val.to_vec()));
            b = rest;
        }
        Some(out)
    }

    fn parse_tbs(d: &[u8]) -> Option<Tbs> {
        let (t, body, rest) = der_next(d)?;
        if t != 0x30 || !rest.is_empty() {
            return None;
        }
        let (t, _ver, b) = der_next(body)?;
        if t != 0xa0 {
            return None;
        }
        let (t, serial, b) = der_next(b)?;
        if t != 0x02 {
            return None;
        }
        let (t, _alg, b) = der_next(b)?;
        if t != 0x30 {
            return None;
        }
        let (t, issuer, b) = der_next(b)?;
        if t != 0x30 {
            return None;
        }
        let (t, validity, b) = der_next(b)?;
        if t != 0x30 {
            return None;
        }
        let (t1, nb, v2) = der_next(validity)?;
        let (t2, na, _) = der_next(v2)?;
        let (t, subject, b) = der_next(b)?;
        if t != 0x30 {
            return None;
        }
        let (t, spki, b) = der_next(b)?;
        if t != 0x30 {
            return None;
        }
        let (_, _algs, s2) = der_next(spki)?;
        let (t, bits, _) = der_next(s2)?;
        if t != 0x03 {
            return None;
        }
        let (t, exts, b) = der_next(b)?;
        if t != 0xa3 || !b.is_empty() {
            return None;
        }
        let (t, mut list, _) = der_next(exts)?;
        if t != 0x30 {
            return None;
        }
        let mut ext_oids = Vec::new();
        while !list.is_empty() {
            let (t, e, rest) = der_next(list)?;
            if t != 0x30 {
                return None;
            }
            let (t, oid, _) = der_next(e)?;
            if t != 0x06 {
                return None;
            }
            ext_oids.push(oid.to_vec());
            list = rest;
        }
        Some(Tbs {
            serial: serial.to_vec(),
            issuer: parse_name(issuer)?,
            not_before: (t1, nb.to_vec()),
            not_after: (t2, na.to_vec()),
            subject: parse_name(subject)?,
            pubkey: bits.get(1..)?.to_vec(),
            ext_oids,
        })
    }

    /// values of the Matter DN attribute `1.3.6.1.4.1.37244.1.<last>` as integers
    fn matter_attr(name: &[(Vec<u8>, Vec<u8>)], last: u8) -> Vec<Option<u64>> {
        name.iter()
            .filter(|(oid, _)| oid.len() == 10 && oid.starts_with(MATTER_OID_PREFIX) && oid[9] == last)
            .map(|(_, v)| core::str::from_utf8(v).ok().and_then(|s| u64::from_str_radix(s, 16).ok().filter(|_| s.len() == if last == 6 { 8 } else { 16 })))
            .collect()
    }

    /// (DER tag, text) X.509 wants for a Matter-epoch time
    fn x509_time(matter_secs: u32, is_not_after: bool) -> (u8, Vec<u8>) {
        if is_not_after && matter_secs == 0 {
            return (0x18, b"99991231235959Z".to_vec());
        }
        let unix = matter_secs as u64 + 946_684_800;
        let (days, rem) = ((unix / 86400) as i64, unix % 86400);
        // civil-from-days
        let z = days + 719_468;
        let era = z.div_euclid(146_097);
        let doe = z.rem_euclid(146_097);
        let yoe = (doe - doe / 1460 + doe / 36524 - doe / 146_096) / 365;
        let doy = doe - (365 * yoe + yoe / 4 - yoe / 100);
        let mp = (5 * doy + 2) / 153;
        let d = doy - (153 * mp + 2) / 5 + 1;
        let m = if mp < 10 { mp + 3 } else { mp - 9 };
        let y = yoe + era * 400 + if m <= 2 { 1 } else { 0 };
        let (hh, mm, ss) = (rem / 3600, rem % 3600 / 60, rem % 60);
        if y >= 2050 {
            (0x18, format!("{:04}{:02}{:02}{:02}{:02}{:02}Z", y, m, d, hh, mm, ss).into_bytes())
        } else {
            (0x17, format!("{:02}{:02}{:02}{:02}{:02}{:02}Z", y % 100, m, d, hh, mm, ss).into_bytes())
        }
    }

    fn ec(e: rs_matter::error::Error) -> String {
        format!("{:?}", e.code())
    }

    fn asn1(cert: &[u8]) -> Result<Vec<u8>, String> {
        let c = CertRef::new(TLVElement::new(cert));
        let mut buf = vec![0u8; 1024];
        let len = c.as_asn1(&mut buf).map_err(|e| format!("as_asn1 failed: {}", ec(e)))?;
        Ok(buf.get(..len).ok_or("as_asn1 length out of range")?.to_vec())
    }

    // ---- generated chains

    pub struct Chain {
        pub rcac: Vec<u8>,
        pub icac: Option<Vec<u8>>,
        pub noc: Vec<u8>,
        pub csr: Vec<u8>,
        fabric_id: u64,
        node_id: u64,
        cat_ids: Vec<u32>,
        validity: Validity,
        node_pubkey: Vec<u8>,
    }

    fn crypto_for(seed: u64) -> impl Crypto {
        default_crypto(WeakTestOnlyRand::new(((seed ^ (seed >> 32)) as u32) | 1), DAC_PRIVKEY)
    }

    pub fn make_chain(seed: u64) -> Result<Chain, String> {
        let mut rng = Rng::new(seed);
        let crypto = crypto_for(seed);
        let fabric_id = match rng.below(5) {
            0 => 1,
            1 => u64::MAX,
            _ => rng.next().max(1),
        };
        let validity = match rng.below(4) {
            0 => VALID_FOREVER,
            1 => Validity { not_before: rng.range(1, 1_200_000_000) as u32, not_after: 0 },
            _ => {
                let nb = rng.range(1, 1_700_000_000) as u32;
                let na = rng.range(nb as u64 + 1, u32::MAX as u64) as u32;
                Validity { not_before: nb, not_after: na }
            }
        };

        let mut buf = vec![0u8; 1000];
        let mut g = RcacGenerator::new(&mut buf);
        // The generator draws a random serial number and refuses about 1 in 512 of its own draws
        // (validate_serial_number). That is a defect of certificate MINTING, not of the
        // encode/decode property; such a seed is skipped (reported in design.d/C17.md).
        let (rcac_priv, rcac) = match g.generate(&crypto, fabric_id, validity) {
            Ok(v) => v,
            Err(_) => return Err("SKIP:generator-refused-own-serial".into()),
        };
        let rcac = rcac.to_vec();

        let mut icac_priv = None;
        let mut icac = None;
        if rng.chance(1, 2) {
            let mut buf = vec![0u8; 1000];
            let mut g = IcacGenerator::new(&mut buf);
            let (k, bytes) = match g.generate(&crypto, rcac_priv.reference(), &rcac, validity) {
                Ok(v) => v,
                Err(_) => return Err("SKIP:generator-refused-own-serial".into()),
            };
            icac = Some(bytes.to_vec());
            icac_priv = Some(k);
        }

        let node_key = crypto.generate_secret_key().map_err(|e| format!("generate_secret_key: {}", ec(e)))?;
        let mut csr_buf = [0u8; 512];
        let csr = node_key.csr(&mut csr_buf).map_err(|e| format!("csr: {}", ec(e)))?.to_vec();
        let mut pk = CanonPkcPublicKey::new();
        node_key.pub_key().map_err(ec)?.write_canon(&mut pk).map_err(ec)?;

        let node_id = match rng.below(5) {
            0 => 1,
            1 => 0xffff_ffef_ffff_ffff,
            2 => 0x8000_0000_0000_0000 | (rng.next() >> 8),
            3 => rng.below(0x1_0000),
            _ => (rng.next() % 0xffff_ffef_ffff_ffff).max(1),
        };
        let cat_ids: Vec<u32> = (0..rng.below(4)).map(|_| ((rng.range(1, 0xffff) as u32) << 16) | (rng.next() as u16) as u32).collect();

        let signing = match &icac_priv {
            Some(k) => k.reference(),
            None => rcac_priv.reference(),
        };
        let mut buf = vec![0u8; 1000];
        let mut g = NocGenerator::create(signing, &rcac, icac.as_deref().unwrap_or(&[]), &mut buf).map_err(|e| format!("NocGenerator::create failed: {}", ec(e)))?;
        let noc = g.generate(&crypto, &csr, node_id, &cat_ids, validity).map_err(|e| format!("NocGenerator::generate failed: {}", ec(e)))?.to_vec();

        Ok(Chain { rcac, icac, noc, csr, fabric_id, node_id, cat_ids, validity, node_pubkey: pk.access().to_vec() })
    }

    fn expect<T: PartialEq + core::fmt::Debug>(what: &str, got: Result<T, rs_matter::error::Error>, want: T) -> Result<(), String> {
        match got {
            Ok(v) if v == want => Ok(()),
            Ok(v) => Err(format!("{}: got {:?} want {:?}", what, v, want)),
            Err(e) => Err(format!("{}: error {} want {:?}", what, ec(e), want)),
        }
    }

    /// TLV accessors against the DER produced from the same certificate.
    fn check_der(what: &str, cert: &[u8], validity: Option<Validity>) -> Result<Tbs, String> {
        let c = CertRef::new(TLVElement::new(cert));
        let d = asn1(cert)?;
        let tbs = parse_tbs(&d).ok_or(format!("{}: as_asn1 output is not a well-formed TBSCertificate: {}", what, hex(&d)))?;
        let pk = c.pubkey().map_err(|e| format!("{}: pubkey {}", what, ec(e)))?;
        if tbs.pubkey != pk {
            return Err(format!("{}: DER public key differs from TLV public key", what));
        }
        let one = |v: Vec<Option<u64>>| if v.len() == 1 { v[0] } else { None };
        let node = one(matter_attr(&tbs.subject, 1));
        let fabric = one(matter_attr(&tbs.subject, 5));
        let ca = one(matter_attr(&tbs.subject, 4)).or(one(matter_attr(&tbs.subject, 3)));
        if node != c.get_node_id().ok() {
            return Err(format!("{}: DER node id {:?} TLV {:?}", what, node, c.get_node_id().ok()));
        }
        if fabric != c.get_fabric_id().ok() {
            return Err(format!("{}: DER fabric id {:?} TLV {:?}", what, fabric, c.get_fabric_id().ok()));
        }
        if ca != c.get_ca_id().ok() {
            return Err(format!("{}: DER ca id {:?} TLV {:?}", what, ca, c.get_ca_id().ok()));
        }
        let mut cats = [0u32; 3];
        c.get_cat_ids(&mut cats).map_err(|e| format!("{}: get_cat_ids {}", what, ec(e)))?;
        let der_cats: Vec<Option<u64>> = matter_attr(&tbs.subject, 6);
        let tlv_cats: Vec<Option<u64>> = cats.iter().take(der_cats.len()).map(|x| Some(*x as u64)).collect();
        if der_cats != tlv_cats || cats.iter().skip(der_cats.len()).any(|x| *x != 0) {
            return Err(format!("{}: DER cat ids {:?} TLV {:?}", what, der_cats, cats));
        }
        if let Some(v) = validity {
            if tbs.not_before != x509_time(v.not_before, false) {
                return Err(format!("{}: notBefore {:02x} {} for {}", what, tbs.not_before.0, String::from_utf8_lossy(&tbs.not_before.1), v.not_before));
            }
            if tbs.not_after != x509_time(v.not_after, true) {
                return Err(format!("{}: notAfter {:02x} {} for {}", what, tbs.not_after.0, String::from_utf8_lossy(&tbs.not_after.1), v.not_after));
            }
        }
        // Display / Debug must work on a legal certificate
        let mut s = String::new();
        write!(s, "{}", c).map_err(|_| format!("{}: Display failed", what))?;
        write!(s, "{:?}", c).map_err(|_| format!("{}: Debug failed", what))?;
        Ok(tbs)
    }

    fn verify_chain<C: Crypto>(crypto: C, certs: &[&[u8]], at: u32) -> Result<(), String> {
        let refs: Vec<CertRef> = certs.iter().map(|b| CertRef::new(TLVElement::new(b))).collect();
        let first = refs.first().ok_or("empty chain")?;
        let mut buf = [0u8; 1024];
        let mut v = first.verify_chain_start(&crypto, UtcTime::Reliable(at as u64 * 1_000_000));
        for p in refs.iter().skip(1) {
            v = v.add_cert(p, &mut buf).map_err(|e| format!("chain add_cert: {}", ec(e)))?;
        }
        v.finalise(&mut buf).map_err(|e| format!("chain finalise: {}", ec(e)))
    }

    fn rt_generated(seed: u64) -> Result<String, String> {
        let ch = make_chain(seed)?;
        let v = ch.validity;
        // RCAC
        let rc = CertRef::new(TLVElement::new(&ch.rcac));
        expect("rcac.fabric_id", rc.get_fabric_id(), ch.fabric_id)?;
        expect("rcac.is_self_signed", rc.is_self_signed(), true)?;
        expect("rcac.path_len", rc.basic_constraints_path_len(), None)?;
        let rcac_id = rc.get_ca_id().map_err(|e| format!("rcac.ca_id: {}", ec(e)))?;
        if rc.get_node_id().is_ok() {
            return Err("rcac has a node id".into());
        }
        let t = check_der("rcac", &ch.rcac, Some(v))?;
        if matter_attr(&t.issuer, 4) != vec![Some(rcac_id)] || matter_attr(&t.issuer, 5) != vec![Some(ch.fabric_id)] {
            return Err(format!("rcac: issuer DN {:?}", t.issuer));
        }
        let mut issuer_ca = (4u8, rcac_id);
        // ICAC
        if let Some(icac) = &ch.icac {
            let ic = CertRef::new(TLVElement::new(icac));
            expect("icac.fabric_id", ic.get_fabric_id(), ch.fabric_id)?;
            expect("icac.is_self_signed", ic.is_self_signed(), false)?;
            expect("icac.path_len", ic.basic_constraints_path_len(), Some(0))?;
            let icac_id = ic.get_ca_id().map_err(|e| format!("icac.ca_id: {}", ec(e)))?;
            let t = check_der("icac", icac, Some(v))?;
            if matter_attr(&t.issuer, 4) != vec![Some(rcac_id)] || matter_attr(&t.subject, 3) != vec![Some(icac_id)] {
                return Err(format!("icac: DN issuer {:?} subject {:?}", t.issuer, t.subject));
            }
            issuer_ca = (3, icac_id);
        }
        // NOC
        let nc = CertRef::new(TLVElement::new(&ch.noc));
        expect("noc.node_id", nc.get_node_id(), ch.node_id)?;
        expect("noc.fabric_id", nc.get_fabric_id(), ch.fabric_id)?;
        expect("noc.is_self_signed", nc.is_self_signed(), false)?;
        expect("noc.path_len", nc.basic_constraints_path_len(), None)?;
        expect("noc.pubkey", nc.pubkey().map(|p| p.to_vec()), ch.node_pubkey.clone())?;
        let mut cats = [0u32; 3];
        nc.get_cat_ids(&mut cats).map_err(|e| format!("noc.cat_ids: {}", ec(e)))?;
        let mut want = [0u32; 3];
        for (i, c) in ch.cat_ids.iter().enumerate().take(3) {
            want[i] = *c;
        }
        if cats != want {
            return Err(format!("noc.cat_ids {:x?} want {:x?}", cats, want));
        }
        let t = check_der("noc", &ch.noc, Some(v))?;
        if matter_attr(&t.issuer, issuer_ca.0) != vec![Some(issuer_ca.1)] || matter_attr(&t.issuer, 5) != vec![Some(ch.fabric_id)] {
            return Err(format!("noc: issuer DN {:?} want ca {:x}", t.issuer, issuer_ca.1));
        }
        // serial number = DER INTEGER of the node id
        let mut want_serial: Vec<u8> = ch.node_id.to_be_bytes().iter().copied().skip_while(|b| *b == 0).collect();
        if want_serial.first().map_or(true, |b| b & 0x80 != 0) {
            want_serial.insert(0, 0);
        }
        if t.serial != want_serial {
            return Err(format!("noc: serial {} want {}", hex(&t.serial), hex(&want_serial)));
        }
        // CSR decoder agrees with the key that produced it
        let csr = CsrRef::new(&ch.csr).map_err(|e| format!("own CSR rejected: {}", ec(e)))?;
        if csr.pubkey().map_err(ec)?.access()[..] != ch.node_pubkey[..] {
            return Err("CSR public key differs".into());
        }
        csr.verify(test_only_crypto()).map_err(|e| format!("own CSR does not verify: {}", ec(e)))?;
        // and the signatures made over the DER verify
        let mut chain: Vec<&[u8]> = vec![&ch.noc];
        if let Some(i) = &ch.icac {
            chain.push(i);
        }
        chain.push(&ch.rcac);
        verify_chain(test_only_crypto(), &chain, v.not_before)?;
        Ok(format!("len={}+{}+{}", ch.rcac.len(), ch.icac.as_ref().map_or(0, |i| i.len()), ch.noc.len()))
    }

    fn rt_tlv_vectors() -> Result<String, String> {
        for (i, (tlv, want)) in [
            (CHIP_CERT_INPUT1, ASN1_OUTPUT1),
            (CHIP_CERT_INPUT2, ASN1_OUTPUT2),
            (CHIP_CERT_TXT_IN_DN, ASN1_OUTPUT_TXT_IN_DN),
            (UNORDERED_EXTENSIONS_CHIP, UNORDERED_EXTENSIONS_DER),
        ]
        .into_iter()
        .enumerate()
        {
            let got = asn1(&hx(tlv))?;
            if got != hx(want) {
                return Err(format!("vector {}: as_asn1 gives {}", i, hex(&got)));
            }
            check_der(&format!("vector {}", i), &hx(tlv), None)?;
        }
        for (i, chain) in [vec![NOC1_SUCCESS, ICAC1_SUCCESS, RCA1_SUCCESS], vec![NOC_NOT_AFTER_ZERO, RCA_FOR_NOC_NOT_AFTER_ZERO]].into_iter().enumerate() {
            let certs: Vec<Vec<u8>> = chain.iter().map(|h| hx(h)).collect();
            let refs: Vec<&[u8]> = certs.iter().map(|c| &c[..]).collect();
            let nb = tlv_top_uint(&certs[0], 4).ok_or("no not-before in vector")? as u32;
            let na = tlv_top_uint(&certs[0], 5).ok_or("no not-after in vector")? as u32;
            verify_chain(test_only_crypto(), &refs, nb).map_err(|e| format!("CHIP chain {}: {}", i, e))?;
            for (j, c) in certs.iter().enumerate() {
                let v = if j == 0 { Some(Validity { not_before: nb, not_after: na }) } else { None };
                check_der(&format!("CHIP chain {} cert {}", i, j), c, v)?;
                // TLV -> CertRef -> TLV
                let el = TLVElement::new(c);
                let cr = CertRef::from_tlv(&el).map_err(|e| format!("from_tlv: {}", ec(e)))?;
                let mut buf = [0u8; 1024];
                let mut wb = WriteBuf::new(&mut buf);
                cr.to_tlv(&TLVTag::Anonymous, &mut wb).map_err(|e| format!("to_tlv: {}", ec(e)))?;
                if wb.as_slice() != &c[..] {
                    return Err(format!("CHIP chain {} cert {}: to_tlv differs from the input", i, j));
                }
            }
        }
        Ok("vectors=4+2chains".into())
    }

    fn rt_der_vectors() -> Result<String, String> {
        let dac_der = TEST_DEV_ATT.dac();
        let pai_der = TEST_DEV_ATT.pai();
        let paa_der = hx(PAA_FFF1_DER);
        let dac = DacCert::new(dac_der).map_err(|e| format!("DAC rejected: {}", ec(e)))?;
        let pai = PaiCert::new(pai_der).map_err(|e| format!("PAI rejected: {}", ec(e)))?;
        let paa = PaaCert::new(&paa_der).map_err(|e| format!("PAA rejected: {}", ec(e)))?;
        expect("dac.vendor_id", dac.vendor_id(), 0xfff1)?;
        expect("dac.product_id", dac.product_id(), 0x8001)?;
        expect("dac.public_key", dac.public_key().map(|k| k.to_vec()), TEST_DEV_ATT.dac_pub_key().access().to_vec())?;
        expect("pai.vendor_id", pai.vendor_id(), 0xfff1)?;
        if pai.product_id().is_ok() {
            return Err("PAI without product id reports one".into());
        }
        expect("paa.vendor_id", paa.vendor_id(), 0xfff1)?;
        expect("dac.akid==pai.skid", dac.authority_key_id().map(|k| k.to_vec()), pai.subject_key_id().map_err(ec)?.to_vec())?;
        expect("pai.akid==paa.skid", pai.authority_key_id().map(|k| k.to_vec()), paa.subject_key_id().map_err(ec)?.to_vec())?;
        // 2022-02-05 00:00:00Z .. no expiry
        expect("dac.not_before", dac.not_before_unix(), 1_644_019_200)?;
        expect("dac.not_after", dac.not_after_unix(), u64::MAX)?;
        expect("dac.is_valid_at", dac.is_valid_at(1_700_000_000), true)?;
        expect("dac.is_valid_before", dac.is_valid_at(1_600_000_000), false)?;
        // the wrong profile must be refused, not mis-parsed
        if PaaCert::new(dac_der).is_ok() || DacCert::new(&paa_der).is_ok() {
            return Err("certificate accepted under the wrong profile".into());
        }
        Ok("vectors=3".into())
    }

    pub fn rt(seed: u64) -> Result<String, String> {
        match seed {
            0 => rt_tlv_vectors(),
            1 => rt_der_vectors(),
            _ => rt_generated(seed),
        }
    }

    // ---- fuzz

    fn fuzz_tlv(b: &[u8], out: &mut String) -> Result<(), String> {
        let c = CertRef::new(TLVElement::new(b));
        let mut ok = 0;
        ok += c.pubkey().is_ok() as u32;
        ok += c.get_node_id().is_ok() as u32;
        ok += c.get_fabric_id().is_ok() as u32;
        ok += c.get_ca_id().is_ok() as u32;
        ok += c.get_cat_ids(&mut [0u32; 3]).is_ok() as u32;
        ok += c.get_cat_ids(&mut [0u32; 0]).is_ok() as u32;
        ok += c.get_cat_ids(&mut [0u32; 16]).is_ok() as u32;
        ok += c.basic_constraints_path_len().is_ok() as u32;
        ok += c.is_self_signed().is_ok() as u32;
        let mut s = String::new();
        ok += write!(s, "{}", c).is_ok() as u32;
        ok += write!(s, "{:?}", c).is_ok() as u32;
        for n in [1024usize, 64, 0] {
            let mut buf = vec![0u8; n];
            if let Ok(len) = c.as_asn1(&mut buf) {
                ok += 1;
                let d = buf.get(..len).ok_or("as_asn1 length beyond buffer")?;
                match der_next(d) {
                    Some((0x30, _, rest)) if rest.is_empty() => {}
                    _ => return Err(format!("as_asn1 output is not one DER SEQUENCE: {}", hex(d))),
                }
            }
        }
        // the chain verifier front end on the same bytes
        {
            let crypto = test_only_crypto();
            let mut buf = [0u8; 1024];
            let _ = c.verify_chain_start(&crypto, UtcTime::Reliable(700_000_000_000_000)).finalise(&mut buf);
            let _ = c.verify_chain_start(&crypto, UtcTime::LastKnown(0)).add_cert(&c, &mut buf).map(|_| ());
        }
        let el = TLVElement::new(b);
        if let Ok(cr) = CertRef::from_tlv(&el) {
            let mut buf = vec![0u8; b.len() + 64];
            let mut wb = WriteBuf::new(&mut buf);
            if cr.to_tlv(&TLVTag::Anonymous, &mut wb).is_ok() {
                let again = wb.as_slice().to_vec();
                let el2 = TLVElement::new(&again);
                match CertRef::from_tlv(&el2) {
                    Ok(cr2) => {
                        // same certificate as far as every accessor can tell
                        if cr2.get_node_id().ok() != cr.get_node_id().ok()
                            || cr2.get_fabric_id().ok() != cr.get_fabric_id().ok()
                            || cr2.pubkey().ok() != cr.pubkey().ok()
                            || asn1(&again).ok() != asn1(b).ok()
                        {
                            return Err(format!("to_tlv changes the certificate: {}", hex(&again)));
                        }
                        ok += 1;
                    }
                    Err(e) => return Err(format!("to_tlv output rejected by from_tlv: {}", ec(e))),
                }
            }
        }
        let _ = write!(out, "t{}", ok);
        Ok(())
    }

    fn fuzz_der(b: &[u8], out: &mut String) {
        let mut ok = 0;
        macro_rules! x509 {
            ($t:ident) => {
                if let Ok(c) = $t::new(b) {
                    ok += 1;
                    let _ = c.subject_key_id();
                    let _ = c.authority_key_id();
                    let _ = c.public_key();
                    let _ = c.vendor_id();
                    let _ = c.product_id();
                    let _ = c.not_before_unix();
                    let _ = c.not_after_unix();
                    let _ = c.is_valid_at(1_700_000_000);
                    let _ = c.is_valid_at(u64::MAX);
                }
            };
        }
        x509!(DacCert);
        x509!(PaiCert);
        x509!(PaaCert);
        if let Ok(csr) = CsrRef::new(b) {
            ok += 1;
            let _ = csr.pubkey();
            if csr.verify(test_only_crypto()).is_ok() {
                ok += 1;
            }
        }
        if ecdsa_der_to_raw(b).is_ok() {
            ok += 1;
        }
        let _ = write!(out, "d{}", ok);
    }

    pub fn fuzz(b: &[u8]) -> Result<String, String> {
        let mut s = String::new();
        fuzz_tlv(b, &mut s)?;
        fuzz_der(b, &mut s);
        Ok(s)
    }

    /// Diagnostic: run every public call separately and name the ones that panic.
    pub fn probe(b: &[u8]) -> String {
        let mut out = String::new();
        let mut run = |name: &str, f: &dyn Fn()| {
            let f = std::panic::AssertUnwindSafe(f);
            if let Err(m) = rsm_harness::catch(move || f()) {
                let _ = write!(out, "{}:[{}];", name, m.chars().take(90).collect::<String>());
            }
        };
        let c = CertRef::new(TLVElement::new(b));
        run("pubkey", &|| drop(c.pubkey()));
        run("get_node_id", &|| drop(c.get_node_id()));
        run("get_fabric_id", &|| drop(c.get_fabric_id()));
        run("get_ca_id", &|| drop(c.get_ca_id()));
        run("get_cat_ids", &|| drop(c.get_cat_ids(&mut [0u32; 3])));
        run("basic_constraints_path_len", &|| drop(c.basic_constraints_path_len()));
        run("is_self_signed", &|| drop(c.is_self_signed()));
        run("as_asn1", &|| drop(c.as_asn1(&mut [0u8; 1024])));
        run("Display", &|| {
            let mut s = String::new();
            let _ = write!(s, "{}", c);
        });
        run("Debug", &|| {
            let mut s = String::new();
            let _ = write!(s, "{:?}", c);
        });
        run("verify_chain.finalise", &|| {
            let mut buf = [0u8; 1024];
            let _ = c.verify_chain_start(test_only_crypto(), UtcTime::Reliable(700_000_000_000_000)).finalise(&mut buf);
        });
        run("from_tlv+to_tlv", &|| {
            if let Ok(cr) = CertRef::from_tlv(&TLVElement::new(b)) {
                let mut buf = vec![0u8; b.len() + 64];
                let mut wb = WriteBuf::new(&mut buf);
                let _ = cr.to_tlv(&TLVTag::Anonymous, &mut wb);
            }
        });
        run("DacCert", &|| drop(DacCert::new(b).map(|_| ())));
        run("PaiCert", &|| drop(PaiCert::new(b).map(|_| ())));
        run("PaaCert", &|| drop(PaaCert::new(b).map(|_| ())));
        run("CsrRef", &|| drop(CsrRef::new(b).map(|_| ())));
        run("ecdsa_der_to_raw", &|| drop(ecdsa_der_to_raw(b)));
        if out.is_empty() {
            out.push_str("no-panic");
        }
        out.replace(' ', "_").replace('\n', "")
    }

    pub fn pool(rng: &mut Rng, n: usize) -> Vec<(bool, Vec<u8>)> {
        let mut p: Vec<(bool, Vec<u8>)> = Vec::new();
        for h in [NOC1_SUCCESS, ICAC1_SUCCESS, RCA1_SUCCESS, CHIP_CERT_INPUT1, CHIP_CERT_TXT_IN_DN, UNORDERED_EXTENSIONS_CHIP, NOC_NOT_AFTER_ZERO] {
            p.push((true, hx(h)));
        }
        p.push((false, TEST_DEV_ATT.dac().to_vec()));
        p.push((false, TEST_DEV_ATT.pai().to_vec()));
        p.push((false, hx(PAA_FFF1_DER)));
        p.push((false, hx(ASN1_OUTPUT1)));
        // an ECDSA-Sig-Value
        p.push((false, der(0x30, &[der_uint(&[0x80; 32]), der_uint(&[0x01; 32])].concat())));
        for _ in 0..n.max(2) / 2 {
            if let Ok(ch) = make_chain(rng.next() >> 20) {
                p.push((true, ch.rcac));
                p.push((true, ch.noc.clone()));
                p.push((true, ch.noc));
                if let Some(i) = ch.icac {
                    p.push((true, i));
                }
                p.push((false, ch.csr));
            }
        }
        p
    }

    /// Well-formed TLV certificates with one field emptied / zeroed / out of range.
    pub fn edges() -> Vec<Vec<u8>> {
        let mut e = Vec::new();
        let noc = hx(NOC1_SUCCESS);
        // every scalar element in turn: strings emptied, integers set to 0 and to 7 and to ff
        let els = tlv_walk(&noc);
        for el in &els {
            if el.kind == 1 {
                let mut v = noc.clone();
                v.drain(el.val..el.val + el.len);
                set_len_field(&mut v, el, 0);
                e.push(v);
            } else {
                for x in [0u8, 7, 0xff] {
                    let mut v = noc.clone();
                    for k in 0..el.len {
                        v[el.val + k] = if k == 0 || x == 0xff { x } else { 0 };
                    }
                    e.push(v);
                }
            }
        }
        // DN attribute with an out-of-range tag, deep nesting of lists
        let mut deep = vec![0x15u8, 0x37, 0x03];
        deep.extend(vec![0x17u8; 40]);
        e.push(deep);
        let mut deep2 = vec![0x15u8, 0x37, 0x0a];
        deep2.extend(vec![0x35u8, 0x01].repeat(20));
        e.push(deep2);
        // 300 extensions
        let mut many = vec![0x15u8, 0x30, 0x01, 0x01, 0x01, 0x24, 0x02, 0x01, 0x37, 0x03, 0x18, 0x26, 0x04, 1, 0, 0, 0, 0x26, 0x05, 0, 0, 0, 0, 0x37, 0x06, 0x18, 0x24, 0x07, 0x01, 0x24, 0x08, 0x01, 0x30, 0x09, 0x01, 0x04, 0x37, 0x0a];
        for _ in 0..120 {
            many.extend([0x30, 0x04, 0x01, 0xaa]);
        }
        many.extend([0x18, 0x18]);
        e.push(many);
        e
    }
}
const NOC1_SUCCESS: &str = "1530010101240201370324130124150118260480228127260580254d3a37062611025cbc002415011824070124080130094104ba2256434f5998328db8cb3f24909a9694434667c211e3802665fc653777032518d8dc85fae642e755c937cc0b78843d2fac81882e6900a5fccde0adb269ca73370a3501280118240201360304020401183004143968161eb5566dd3f861f295f355a0fbd282c229300514ce60b4289672276481bc4f0078a33048fe6e658618300b40028842006fcce0f06cd9f95ee4c2aa1f577162db6b4ee7553fc6c79ff830eb166e6dc69c0bb7e2b8e3e757887bdae579396d2c37b27fc3632f7e70ab5a2cf75b18";
const ICAC1_SUCCESS: &str = "1530010100240201370324140024150118260480228127260580254d3a37062413012415011824070124080130094104561977183fd4ff2b583de9793466dfe900fb6da1efe0ccdc7730c06fb62dffbe54a095750b8b07bc55db9cb6551308b8df02e3406bae34f50cbac9f2bff1e750370a3501290118240260300414ce60b4289672276481bc4f0078a33048fe6e6586300514d45693be7079f49c706b076f111c6de564a4447418300b40f308be809bfef515cdf1d9f6ccb6f729515b219be6dfd47421a2d0946459affd4ed40745cf8c2d81f9406846442ba4137e728a4f68ee14e2587669380c5c1fab18";
const RCA1_SUCCESS: &str = "1530010100240201370324140024150118260480228127260580254d3a370624140024150118240701240801300941046d707e4b98f62bab44d6fea32e39d8c300a00ea86c83ff690de84201eb0daa685dcb9702801da850022e5aa25a2e512604d23962cd82386328bf151ca627e0d7370a3501290118240260300414d45693be7079f49c706b076f111c6de564a44474300514d45693be7079f49c706b076f111c6de564a4447418300b40030d77e19eea9c055ccc47e8b3181ad174eec62ea12016bd20b43dac24be17f90eb79a98c8bc6ace992a2e634c76064593d37c0400e4c778e9835b0c33615c2e18";
const CHIP_CERT_INPUT1: &str = "1530010100240201370324140024150318260480228127260580254d3a3706241301241503182407012408013009410469dae94288cf64942dd50a742d50e85ebe155324e5c56be57fc1411121dd46a30d63c3e3907a6964dd667810a6c80ffdb6f29b885093779ef7b4da9411331efe370a3501290118240260300414dffb79f12bbf6818597ff7e8af88911c7232f752300514ed315e1ab7b97aca04795d82577ad70a75d0db7a18300b40e5d4e60e98622faa59e02859c2d4cd34857f93be1435a3768ac92f5939a0b075e88e11a9c19eaaaba0dbb47963fc02032725ac216fef27ab0f90099905a860d818";
const CHIP_CERT_INPUT2: &str = "1530010101240201370324130124150318260480228127260580254d3a3706261169b6010024150318240701240801300941049304c6c4e1bc9ac8f5b37f83d67f79c535dc7fac87cacd08804a55608009d39b4ac8e77b4d5c828824df1cfdefb4bcb72f36f72bb2cc146963cc89d2743fd198370a3501280118240201360304020401183004149ce7d9a86bf871fa0810a3f23a9530b19eaec42c300514dffb79f12bbf6818597ff7e8af88911c7232f75218300b40cf013765d68acad8339f0f4fd5ed484291caabf7aee13b2bef9f435a96e0a5388e39d0208a0c922b217df56c1d656c0fd1e855145e27fda4acf993db2949aa7118";
const CHIP_CERT_TXT_IN_DN: &str = "153001010124020137032c840255532c0706476f6f676c652c010b4d617474657220526f6f74271401000000feffffff1826047fd2432926057f945be537062c840255532c0706476f6f676c652c010b4d617474657220526f6f74271401000000feffffff18240701240801300941045b37df6549c20dc8d722a6b8acb660a8a764ce7baf6c6c224f7ee84349684ad7d809ff650033d1527dcf1fbaac6a9c3ad8b41edac909f7b5c760fd542c892375370a350129012402011824026030041472c201f7571913b348ca00ca7b45f4774668c97e30051472c201f7571913b348ca00ca7b45f4774668c97e18300b4065164b166adff18c15610a8ce91bd703e9c1f677b711ce133505152df0da15111675ac5591cee786851cdd9efdad296674bebcb2a3a3209bcde7b309db552c6f18";
const ASN1_OUTPUT1: &str = "30820180a003020102020100300a06082a8648ce3d04030230443120301e060a2b0601040182a27c01040c10303030303030303030303030303030303120301e060a2b0601040182a27c01050c1030303030303030303030303030303033301e170d3231303130313030303030305a170d3330313233303030303030305a30443120301e060a2b0601040182a27c01030c10303030303030303030303030303030313120301e060a2b0601040182a27c01050c10303030303030303030303030303030333059301306072a8648ce3d020106082a8648ce3d0301070342000469dae94288cf64942dd50a742d50e85ebe155324e5c56be57fc1411121dd46a30d63c3e3907a6964dd667810a6c80ffdb6f29b885093779ef7b4da9411331efea3633061300f0603551d130101ff040530030101ff300e0603551d0f0101ff040403020106301d0603551d0e04160414dffb79f12bbf6818597ff7e8af88911c7232f752301f0603551d23041830168014ed315e1ab7b97aca04795d82577ad70a75d0db7a";
const ASN1_OUTPUT2: &str = "308201a1a003020102020101300a06082a8648ce3d04030230443120301e060a2b0601040182a27c01030c10303030303030303030303030303030313120301e060a2b0601040182a27c01050c1030303030303030303030303030303033301e170d3231303130313030303030305a170d3330313233303030303030305a30443120301e060a2b0601040182a27c01010c10303030303030303030303031423636393120301e060a2b0601040182a27c01050c10303030303030303030303030303030333059301306072a8648ce3d020106082a8648ce3d030107034200049304c6c4e1bc9ac8f5b37f83d67f79c535dc7fac87cacd08804a55608009d39b4ac8e77b4d5c828824df1cfdefb4bcb72f36f72bb2cc146963cc89d2743fd198a38183308180300c0603551d130101ff04023000300e0603551d0f0101ff04040302078030200603551d250101ff0416301406082b0601050507030206082b06010505070301301d0603551d0e041604149ce7d9a86bf871fa0810a3f23a9530b19eaec42c301f0603551d23041830168014dffb79f12bbf6818597ff7e8af88911c7232f752";
const ASN1_OUTPUT_TXT_IN_DN: &str = "308201a9a003020102020101300a06082a8648ce3d0403023056310b3009060355040613025553310f300d060355040a0c06476f6f676c653114301206035504030c0b4d617474657220526f6f743120301e060a2b0601040182a27c01040c10464646464646464530303030303030313020170d3231313230383230333035355a180f32313231313230383230333035355a3056310b3009060355040613025553310f300d060355040a0c06476f6f676c653114301206035504030c0b4d617474657220526f6f743120301e060a2b0601040182a27c01040c10464646464646464530303030303030313059301306072a8648ce3d020106082a8648ce3d030107034200045b37df6549c20dc8d722a6b8acb660a8a764ce7baf6c6c224f7ee84349684ad7d809ff650033d1527dcf1fbaac6a9c3ad8b41edac909f7b5c760fd542c892375a366306430120603551d130101ff040830060101ff020101300e0603551d0f0101ff040403020106301d0603551d0e0416041472c201f7571913b348ca00ca7b45f4774668c97e301f0603551d2304183016801472c201f7571913b348ca00ca7b45f4774668c97e";
const UNORDERED_EXTENSIONS_CHIP: &str = "15300110449debca2e2e9842e0876f8bfa23e45424020137032714f656b785f4bf3000182604e2dcbc2a260572dbc25937062714f656b785f4bf30001824070124080130094104ac7346eb93c34258f1696365a69fbecb33d482d9dfc73e94615883ba2e3ab2dd19cb8c122e190e902cb8ecb9aaea1000bb60ebe392b92c78bb41fd5cdcc30f46370a35012901183004142b335573c7c9124659e8e5fc50c56876fc93dc0b2402613005142b335573c7c9124659e8e5fc50c56876fc93dc0b18300b40488a6df0a59c3db55a29ebf69aba7ad249b8cce733e3aa45996e343ae3231d3094367733509a289b2542baaf1350dae843b4e1498c610dab24cde21cb25a36d518";
const UNORDERED_EXTENSIONS_DER: &str = "3082014ba0030201020210449debca2e2e9842e0876f8bfa23e454300a06082a8648ce3d04030230223120301e060a2b0601040182a27c01040c1030303330424646343835423735364636301e170d3232303932303230313934365a170d3437303932303231313934365a30223120301e060a2b0601040182a27c01040c10303033304246463438354237353646363059301306072a8648ce3d020106082a8648ce3d03010703420004ac7346eb93c34258f1696365a69fbecb33d482d9dfc73e94615883ba2e3ab2dd19cb8c122e190e902cb8ecb9aaea1000bb60ebe392b92c78bb41fd5cdcc30f46a3633061300f0603551d130101ff040530030101ff301d0603551d0e041604142b335573c7c9124659e8e5fc50c56876fc93dc0b300e0603551d0f0101ff040403020186301f0603551d230418301680142b335573c7c9124659e8e5fc50c56876fc93dc0b";
const NOC_NOT_AFTER_ZERO: &str = "153001010124020137032714fc8dcf4519ff9a9a24150118260421395a2c240500370624150126116c4a95d21824070124080130094104417fb161b0be194181b99fe87bdddfc446e074ba8321da3df7886814a69da91488941ed38662c76fb479d2af34e7d64d8729671073b981e009e113bb6ad221aa370a35012801182402013603040204011830041498afa13d41677a348c676ccc176ed558d82b8608300514f8cfd0456b0ed16fc567df81d7e9b7eb3978ec4018300b40f98094bfcf72a5548712350c3879a80b2194b57102cb0bdaf96c54cb504b0205eafffdb21b243079b16987a507c6761570c0ec14d39f1aa7e1ca252e44fc964d18";
const RCA_FOR_NOC_NOT_AFTER_ZERO: &str = "153001010024020137032714fc8dcf4519ff9a9a241501182604b12a382c2605315e192e37062714fc8dcf4519ff9a9a241501182407012408013009410415691e7b6aea05dbf84bfddc6c754674b060db0471b6d052f2f8e6bb0de5601f84664f3c9089a6c69961fb89f70aa6e4a221d337301bd211c5cc00f47a14fc3c370a3501290118240260300414f8cfd0456b0ed16fc567df81d7e9b7eb3978ec40300514f8cfd0456b0ed16fc567df81d7e9b7eb3978ec4018300b404caeacc126dd560c8586bceba2b5b7df499262cd2ab64ec5317cd90b1ce96ee582c7b8da22317b235a2ae67628b6d4c77b1c9c85715fe6f621505ca77cc71d9a18";
