//! C17, Matter TLV certificate -> X.509 DER conversion checked against an INDEPENDENT expectation
//! (included by `bin/c17.rs` through `#[path]`; `T <id> certx rt <descriptor>` lines).
//!
//! The descriptor spells out every field of a certificate.  From it this file builds (a) the
//! Matter TLV certificate with its own small TLV writer and (b) the X.509 TBSCertificate DER the
//! Matter specification prescribes for it, with its own DER writer (OID bytes per key purpose and
//! per DN attribute, bit order of the key usage, both time encodings, ...).  `CertRef::as_asn1`
//! of (a) must be byte-identical to (b).  Nothing of rs-matter's certificate code is used for (b).
//!
//! descriptor = `serial=<hex>;nb=<u32>;na=<u32>;iss=<dn>;sub=<dn>;pk=<hex>;ext=<exts>`
//!   dn   = items joined by `+` (or `-` for none): `<tag 1..22>:u:<hex u64>` | `<tag>:s:<hex utf8>` | `<tag>:p:<hex printable>`
//!   exts = items joined by `+` (or `-`): `bc:<0|1>:<path|->` | `ku:<u16>` | `eku:<id.id...>` | `skid:<hex>` | `akid:<hex>` | `fut:<hex>`
use rs_matter::cert::CertRef;
use rs_matter::tlv::TLVElement;
use rsm_harness::Rng;

fn hex(b: &[u8]) -> String {
    b.iter().map(|x| format!("{:02x}", x)).collect()
}
fn unhex(s: &str) -> Vec<u8> {
    if s == "-" {
        return Vec::new();
    }
    (0..s.len() / 2).map(|i| u8::from_str_radix(&s[2 * i..2 * i + 2], 16).unwrap_or(0)).collect()
}

// ------------------------------------------------------------------ descriptor

#[derive(Clone, Debug)]
enum DnVal {
    Uint(u64),
    Utf8(Vec<u8>),
    Printable(Vec<u8>),
}
#[derive(Clone, Debug)]
enum Ext {
    Bc(bool, Option<u8>),
    Ku(u16),
    Eku(Vec<u8>),
    Skid(Vec<u8>),
    Akid(Vec<u8>),
    Fut(Vec<u8>),
}
#[derive(Clone, Debug)]
struct Spec {
    serial: Vec<u8>,
    nb: u32,
    na: u32,
    iss: Vec<(u8, DnVal)>,
    sub: Vec<(u8, DnVal)>,
    pk: Vec<u8>,
    ext: Vec<Ext>,
}

fn dn_str(d: &[(u8, DnVal)]) -> String {
    if d.is_empty() {
        return "-".into();
    }
    d.iter()
        .map(|(t, v)| match v {
            DnVal::Uint(u) => format!("{}:u:{:x}", t, u),
            DnVal::Utf8(s) => format!("{}:s:{}", t, if s.is_empty() { "-".into() } else { hex(s) }),
            DnVal::Printable(s) => format!("{}:p:{}", t, if s.is_empty() { "-".into() } else { hex(s) }),
        })
        .collect::<Vec<_>>()
        .join("+")
}
fn ext_str(e: &[Ext]) -> String {
    if e.is_empty() {
        return "-".into();
    }
    e.iter()
        .map(|x| match x {
            Ext::Bc(ca, p) => format!("bc:{}:{}", *ca as u8, p.map(|v| v.to_string()).unwrap_or_else(|| "-".into())),
            Ext::Ku(k) => format!("ku:{}", k),
            Ext::Eku(l) => format!("eku:{}", if l.is_empty() { "-".into() } else { l.iter().map(|v| v.to_string()).collect::<Vec<_>>().join(".") }),
            Ext::Skid(b) => format!("skid:{}", hex(b)),
            Ext::Akid(b) => format!("akid:{}", hex(b)),
            Ext::Fut(b) => format!("fut:{}", hex(b)),
        })
        .collect::<Vec<_>>()
        .join("+")
}
fn spec_str(s: &Spec) -> String {
    format!(
        "serial={};nb={};na={};iss={};sub={};pk={};ext={}",
        hex(&s.serial),
        s.nb,
        s.na,
        dn_str(&s.iss),
        dn_str(&s.sub),
        hex(&s.pk),
        ext_str(&s.ext)
    )
}

fn parse_dn(s: &str) -> Result<Vec<(u8, DnVal)>, String> {
    if s == "-" || s.is_empty() {
        return Ok(Vec::new());
    }
    s.split('+')
        .map(|it| {
            let p: Vec<&str> = it.split(':').collect();
            if p.len() != 3 {
                return Err(format!("bad dn item {}", it));
            }
            let tag: u8 = p[0].parse().map_err(|_| "bad dn tag")?;
            Ok((
                tag,
                match p[1] {
                    "u" => DnVal::Uint(u64::from_str_radix(p[2], 16).map_err(|_| "bad dn uint")?),
                    "s" => DnVal::Utf8(unhex(p[2])),
                    "p" => DnVal::Printable(unhex(p[2])),
                    _ => return Err(format!("bad dn kind {}", it)),
                },
            ))
        })
        .collect()
}
fn parse_ext(s: &str) -> Result<Vec<Ext>, String> {
    if s == "-" || s.is_empty() {
        return Ok(Vec::new());
    }
    s.split('+')
        .map(|it| {
            let p: Vec<&str> = it.split(':').collect();
            Ok(match (p[0], p.len()) {
                ("bc", 3) => Ext::Bc(p[1] == "1", if p[2] == "-" { None } else { Some(p[2].parse().map_err(|_| "bad path")?) }),
                ("ku", 2) => Ext::Ku(p[1].parse().map_err(|_| "bad ku")?),
                ("eku", 2) => Ext::Eku(if p[1] == "-" { Vec::new() } else { p[1].split('.').map(|v| v.parse().unwrap_or(0)).collect() }),
                ("skid", 2) => Ext::Skid(unhex(p[1])),
                ("akid", 2) => Ext::Akid(unhex(p[1])),
                ("fut", 2) => Ext::Fut(unhex(p[1])),
                _ => return Err(format!("bad ext item {}", it)),
            })
        })
        .collect()
}
fn parse_spec(arg: &str) -> Result<Spec, String> {
    let mut s = Spec { serial: vec![1], nb: 0, na: 0, iss: vec![], sub: vec![], pk: vec![4; 65], ext: vec![] };
    for kv in arg.split(';') {
        let (k, v) = kv.split_once('=').ok_or_else(|| format!("bad field {}", kv))?;
        match k {
            "serial" => s.serial = unhex(v),
            "nb" => s.nb = v.parse().map_err(|_| "bad nb")?,
            "na" => s.na = v.parse().map_err(|_| "bad na")?,
            "iss" => s.iss = parse_dn(v)?,
            "sub" => s.sub = parse_dn(v)?,
            "pk" => s.pk = unhex(v),
            "ext" => s.ext = parse_ext(v)?,
            _ => return Err(format!("unknown field {}", k)),
        }
    }
    Ok(s)
}

// ------------------------------------------------------------------ Matter TLV writer (harness's own)

fn tlv_uint(out: &mut Vec<u8>, tag: Option<u8>, v: u64) {
    let (ty, n) = if v <= 0xff {
        (0x04u8, 1)
    } else if v <= 0xffff {
        (0x05, 2)
    } else if v <= 0xffff_ffff {
        (0x06, 4)
    } else {
        (0x07, 8)
    };
    tlv_ctl(out, tag, ty);
    out.extend_from_slice(&v.to_le_bytes()[..n]);
}
fn tlv_ctl(out: &mut Vec<u8>, tag: Option<u8>, ty: u8) {
    match tag {
        Some(t) => {
            out.push(0x20 | ty);
            out.push(t);
        }
        None => out.push(ty),
    }
}
fn tlv_str(out: &mut Vec<u8>, tag: Option<u8>, base: u8, s: &[u8]) {
    if s.len() <= 0xff {
        tlv_ctl(out, tag, base);
        out.push(s.len() as u8);
    } else {
        tlv_ctl(out, tag, base + 1);
        out.extend_from_slice(&(s.len() as u16).to_le_bytes());
    }
    out.extend_from_slice(s);
}
fn tlv_dn(out: &mut Vec<u8>, tag: u8, dn: &[(u8, DnVal)]) {
    tlv_ctl(out, Some(tag), 0x17);
    for (t, v) in dn {
        match v {
            DnVal::Uint(u) => tlv_uint(out, Some(*t), *u),
            DnVal::Utf8(s) => tlv_str(out, Some(*t), 0x0c, s),
            DnVal::Printable(s) => tlv_str(out, Some(*t | 0x80), 0x0c, s),
        }
    }
    out.push(0x18);
}
fn build_tlv(s: &Spec) -> Vec<u8> {
    let mut o = vec![0x15];
    tlv_str(&mut o, Some(1), 0x10, &s.serial);
    tlv_uint(&mut o, Some(2), 1);
    tlv_dn(&mut o, 3, &s.iss);
    tlv_ctl(&mut o, Some(4), 0x06);
    o.extend_from_slice(&s.nb.to_le_bytes());
    tlv_ctl(&mut o, Some(5), 0x06);
    o.extend_from_slice(&s.na.to_le_bytes());
    tlv_dn(&mut o, 6, &s.sub);
    tlv_uint(&mut o, Some(7), 1);
    tlv_uint(&mut o, Some(8), 1);
    tlv_str(&mut o, Some(9), 0x10, &s.pk);
    tlv_ctl(&mut o, Some(10), 0x17);
    for e in &s.ext {
        match e {
            Ext::Bc(ca, p) => {
                tlv_ctl(&mut o, Some(1), 0x15);
                tlv_ctl(&mut o, Some(1), if *ca { 0x09 } else { 0x08 });
                if let Some(p) = p {
                    tlv_uint(&mut o, Some(2), *p as u64);
                }
                o.push(0x18);
            }
            Ext::Ku(k) => tlv_uint(&mut o, Some(2), *k as u64),
            Ext::Eku(l) => {
                tlv_ctl(&mut o, Some(3), 0x16);
                for v in l {
                    tlv_uint(&mut o, None, *v as u64);
                }
                o.push(0x18);
            }
            Ext::Skid(b) => tlv_str(&mut o, Some(4), 0x10, b),
            Ext::Akid(b) => tlv_str(&mut o, Some(5), 0x10, b),
            Ext::Fut(b) => tlv_str(&mut o, Some(6), 0x10, b),
        }
    }
    o.push(0x18);
    tlv_str(&mut o, Some(11), 0x10, &[0x5a; 64]);
    o.push(0x18);
    o
}

// ------------------------------------------------------------------ expected X.509 DER (harness's own)

fn der(tag: u8, content: &[u8]) -> Vec<u8> {
    let mut o = vec![tag];
    let n = content.len();
    if n < 0x80 {
        o.push(n as u8);
    } else if n <= 0xff {
        o.extend([0x81, n as u8]);
    } else {
        o.extend([0x82, (n >> 8) as u8, n as u8]);
    }
    o.extend_from_slice(content);
    o
}
fn cat(parts: &[Vec<u8>]) -> Vec<u8> {
    parts.concat()
}

/// X.520 / Matter attribute OIDs by Matter DN tag (Matter Core spec, "Matter certificate DN attributes")
fn dn_oid(tag: u8) -> Option<Vec<u8>> {
    let x520 = |n: u8| vec![0x55, 0x04, n];
    let matter = |n: u8| vec![0x2b, 0x06, 0x01, 0x04, 0x01, 0x82, 0xa2, 0x7c, 0x01, n];
    Some(match tag {
        1 => x520(3),   // commonName
        2 => x520(4),   // surname
        3 => x520(5),   // serialNumber
        4 => x520(6),   // countryName
        5 => x520(7),   // localityName
        6 => x520(8),   // stateOrProvinceName
        7 => x520(10),  // organizationName
        8 => x520(11),  // organizationalUnitName
        9 => x520(12),  // title
        10 => x520(41), // name
        11 => x520(42), // givenName
        12 => x520(43), // initials
        13 => x520(44), // generationQualifier
        14 => x520(46), // dnQualifier
        15 => x520(65), // pseudonym
        16 => vec![0x09, 0x92, 0x26, 0x89, 0x93, 0xf2, 0x2c, 0x64, 0x01, 0x19], // domainComponent 0.9.2342.19200300.100.1.25
        17 => matter(1), // matter-node-id
        18 => matter(2), // matter-firmware-signing-id
        19 => matter(3), // matter-icac-id
        20 => matter(4), // matter-rcac-id
        21 => matter(5), // matter-fabric-id
        22 => matter(6), // matter-noc-cat
        _ => return None,
    })
}

fn exp_name(dn: &[(u8, DnVal)]) -> Result<Vec<u8>, String> {
    let mut body = Vec::new();
    for (t, v) in dn {
        let oid = dn_oid(*t).ok_or("illegal dn tag")?;
        let val = match v {
            DnVal::Uint(u) => {
                let s = if *t == 22 { format!("{:08X}", u) } else { format!("{:016X}", u) };
                der(0x0c, s.as_bytes())
            }
            DnVal::Utf8(s) => der(0x0c, s),
            DnVal::Printable(s) => der(0x13, s),
        };
        body.extend(der(0x31, &der(0x30, &cat(&[der(0x06, &oid), val]))));
    }
    Ok(der(0x30, &body))
}

/// seconds since 2000-01-01 -> X.509 Time (UTCTime before 2050, GeneralizedTime from 2050 on)
fn exp_time(matter_secs: u32, is_not_after: bool) -> Vec<u8> {
    if is_not_after && matter_secs == 0 {
        return der(0x18, b"99991231235959Z");
    }
    let unix = 946_684_800u64 + matter_secs as u64;
    let days = (unix / 86_400) as i64;
    let rem = unix % 86_400;
    // civil-from-days (proleptic Gregorian)
    let z = days + 719_468;
    let era = z.div_euclid(146_097);
    let doe = z.rem_euclid(146_097);
    let yoe = (doe - doe / 1460 + doe / 36_524 - doe / 146_096) / 365;
    let doy = doe - (365 * yoe + yoe / 4 - yoe / 100);
    let mp = (5 * doy + 2) / 153;
    let d = doy - (153 * mp + 2) / 5 + 1;
    let m = if mp < 10 { mp + 3 } else { mp - 9 };
    let y = yoe + era * 400 + if m <= 2 { 1 } else { 0 };
    let (hh, mm, ss) = (rem / 3600, rem % 3600 / 60, rem % 60);
    if y >= 2050 {
        der(0x18, format!("{:04}{:02}{:02}{:02}{:02}{:02}Z", y, m, d, hh, mm, ss).as_bytes())
    } else {
        der(0x17, format!("{:02}{:02}{:02}{:02}{:02}{:02}Z", y % 100, m, d, hh, mm, ss).as_bytes())
    }
}

/// id-kp-* by Matter key-purpose id: serverAuth 1, clientAuth 2, codeSigning 3, emailProtection 4,
/// timeStamping 8, OCSPSigning 9 under 1.3.6.1.5.5.7.3
fn eku_oid(id: u8) -> Option<Vec<u8>> {
    let last = match id {
        1 => 1,
        2 => 2,
        3 => 3,
        4 => 4,
        5 => 8,
        6 => 9,
        _ => return None,
    };
    Some(vec![0x2b, 0x06, 0x01, 0x05, 0x05, 0x07, 0x03, last])
}

/// KeyUsage BIT STRING: Matter bit i (digitalSignature = bit 0 ... decipherOnly = bit 8) is X.509 named bit i,
/// i.e. counted from the most significant bit of the first content byte; trailing zero bits are not sent
fn exp_key_usage(ku: u16) -> Vec<u8> {
    let mut bits: Vec<bool> = (0..16).map(|i| ku >> i & 1 == 1).collect();
    while bits.last() == Some(&false) {
        bits.pop();
    }
    let nbytes = (bits.len() + 7) / 8;
    let mut bytes = vec![0u8; nbytes];
    for (i, b) in bits.iter().enumerate() {
        if *b {
            bytes[i / 8] |= 0x80 >> (i % 8);
        }
    }
    let unused = (nbytes * 8 - bits.len()) as u8;
    let mut c = vec![unused];
    c.extend(bytes);
    der(0x03, &c)
}

fn exp_ext(e: &Ext) -> Result<Vec<u8>, String> {
    let wrap = |oid: &[u8], critical: bool, value: Vec<u8>| {
        let mut c = der(0x06, oid);
        if critical {
            c.extend(der(0x01, &[0xff]));
        }
        c.extend(der(0x04, &value));
        der(0x30, &c)
    };
    Ok(match e {
        Ext::Bc(ca, p) => {
            let mut c = Vec::new();
            if *ca {
                c.extend(der(0x01, &[0xff]));
            }
            if let Some(p) = p {
                c.extend(der(0x02, &[*p]));
            }
            wrap(&[0x55, 0x1d, 0x13], true, der(0x30, &c))
        }
        Ext::Ku(k) => wrap(&[0x55, 0x1d, 0x0f], true, exp_key_usage(*k)),
        Ext::Eku(l) => {
            let mut c = Vec::new();
            for id in l {
                c.extend(der(0x06, &eku_oid(*id).ok_or("illegal key purpose id")?));
            }
            wrap(&[0x55, 0x1d, 0x25], true, der(0x30, &c))
        }
        Ext::Skid(b) => wrap(&[0x55, 0x1d, 0x0e], false, der(0x04, b)),
        Ext::Akid(b) => wrap(&[0x55, 0x1d, 0x23], false, der(0x30, &der(0x80, b))),
        Ext::Fut(b) => b.clone(),
    })
}

fn expected_der(s: &Spec) -> Result<Vec<u8>, String> {
    let mut exts = Vec::new();
    for e in &s.ext {
        exts.extend(exp_ext(e)?);
    }
    let mut pk = vec![0u8];
    pk.extend(&s.pk);
    let tbs = cat(&[
        der(0xa0, &der(0x02, &[2])),
        der(0x02, &s.serial),
        der(0x30, &der(0x06, &[0x2a, 0x86, 0x48, 0xce, 0x3d, 0x04, 0x03, 0x02])),
        exp_name(&s.iss)?,
        der(0x30, &cat(&[exp_time(s.nb, false), exp_time(s.na, true)])),
        exp_name(&s.sub)?,
        der(
            0x30,
            &cat(&[
                der(
                    0x30,
                    &cat(&[
                        der(0x06, &[0x2a, 0x86, 0x48, 0xce, 0x3d, 0x02, 0x01]),
                        der(0x06, &[0x2a, 0x86, 0x48, 0xce, 0x3d, 0x03, 0x01, 0x07]),
                    ]),
                ),
                der(0x03, &pk),
            ]),
        ),
        der(0xa3, &der(0x30, &exts)),
    ]);
    Ok(der(0x30, &tbs))
}

/// the children (tag, content, whole element) of a DER constructed value
fn children(mut b: &[u8]) -> Option<Vec<(u8, &[u8], &[u8])>> {
    let mut out = Vec::new();
    while !b.is_empty() {
        let tag = *b.first()?;
        let l0 = *b.get(1)? as usize;
        let (hdr, len) = if l0 < 0x80 {
            (2, l0)
        } else if l0 == 0x81 {
            (3, *b.get(2)? as usize)
        } else if l0 == 0x82 {
            (4, (*b.get(2)? as usize) << 8 | *b.get(3)? as usize)
        } else {
            return None;
        };
        let whole = b.get(..hdr + len)?;
        out.push((tag, &whole[hdr..], whole));
        b = &b[hdr + len..];
    }
    Some(out)
}

fn short(b: &[u8]) -> String {
    let h = hex(b);
    if h.len() > 96 {
        format!("{}..", &h[..96])
    } else {
        h
    }
}

/// name the first part of the TBSCertificate in which the two encodings differ
fn diagnose(got: &[u8], want: &[u8]) -> String {
    const PARTS: [&str; 8] = ["version", "serial", "signature-algorithm", "issuer", "validity", "subject", "public-key", "extensions"];
    let inner = |b: &[u8]| -> Option<Vec<(u8, Vec<u8>, Vec<u8>)>> {
        let top = children(b)?;
        let (_, content, _) = top.first()?;
        Some(children(content)?.into_iter().map(|(t, c, w)| (t, c.to_vec(), w.to_vec())).collect())
    };
    let (Some(g), Some(w)) = (inner(got), inner(want)) else {
        return format!("not a DER sequence: got {}", short(got));
    };
    for i in 0..g.len().max(w.len()) {
        let name = PARTS.get(i).copied().unwrap_or("extra");
        match (g.get(i), w.get(i)) {
            (Some(a), Some(b)) if a.2 == b.2 => continue,
            (Some(a), Some(b)) if name == "extensions" => {
                let ex = |c: &[u8]| -> Option<Vec<Vec<u8>>> {
                    let seq = children(c)?;
                    Some(children(seq.first()?.1)?.into_iter().map(|(_, _, w)| w.to_vec()).collect())
                };
                if let (Some(ge), Some(we)) = (ex(&a.1), ex(&b.1)) {
                    for j in 0..ge.len().max(we.len()) {
                        if ge.get(j) != we.get(j) {
                            return format!(
                                "extension #{} differs: got {} want {}",
                                j + 1,
                                ge.get(j).map(|v| short(v)).unwrap_or_else(|| "nothing".into()),
                                we.get(j).map(|v| short(v)).unwrap_or_else(|| "nothing".into())
                            );
                        }
                    }
                }
                return format!("extensions differ: got {} want {}", short(&a.2), short(&b.2));
            }
            (a, b) => {
                return format!(
                    "{} differs: got {} want {}",
                    name,
                    a.map(|v| short(&v.2)).unwrap_or_else(|| "nothing".into()),
                    b.map(|v| short(&v.2)).unwrap_or_else(|| "nothing".into())
                )
            }
        }
    }
    "outer header differs".into()
}

pub fn run_t(mode: &str, arg: &str) -> Result<String, String> {
    if mode != "rt" {
        return Err(format!("unknown mode {}", mode));
    }
    let spec = parse_spec(arg)?;
    let tlv = build_tlv(&spec);
    let want = expected_der(&spec)?;
    let cert = CertRef::new(TLVElement::new(&tlv));
    let mut buf = vec![0u8; 4096];
    let len = cert.as_asn1(&mut buf).map_err(|e| format!("as_asn1 refused a legal certificate: {:?}", e.code()))?;
    let got = buf.get(..len).ok_or("as_asn1 length out of range")?;
    if got != want.as_slice() {
        return Err(format!("X.509 form is not the specification's conversion of the certificate: {}", diagnose(got, &want)));
    }
    // the text form walks the same encoder: must not fail on a certificate that converts
    use core::fmt::Write as _;
    let mut text = String::new();
    write!(text, "{}", cert).map_err(|_| "Display failed on a certificate that converts".to_string())?;
    Ok(format!("der={}", want.len()))
}

// ------------------------------------------------------------------ generator

fn rb(rng: &mut Rng, n: usize) -> Vec<u8> {
    (0..n).map(|_| rng.next() as u8).collect()
}
const PRINTABLE: &[u8] = b"ABCDEFGHIJKLMNOPQRSTUVWXYZabcdefghijklmnopqrstuvwxyz0123456789 '()+,-./:=?";

fn rand_dn_attr(rng: &mut Rng, tag: u8) -> (u8, DnVal) {
    if tag >= 17 {
        let v = match rng.below(5) {
            0 => 0,
            1 => u64::MAX,
            2 => 1,
            _ => rng.next(),
        };
        (tag, DnVal::Uint(if tag == 22 { v & 0xffff_ffff } else { v }))
    } else {
        let n = rng.range(0, 12) as usize;
        if rng.chance(1, 2) {
            (tag, DnVal::Printable((0..n).map(|_| *rng.pick(PRINTABLE)).collect()))
        } else {
            let mut s = String::new();
            for _ in 0..n {
                if rng.chance(1, 8) {
                    s.push(*rng.pick(&['\u{e9}', '\u{4e2d}', '\u{1f600}']));
                } else {
                    s.push(*rng.pick(PRINTABLE) as char);
                }
            }
            (tag, DnVal::Utf8(s.into_bytes()))
        }
    }
}

fn base_spec(rng: &mut Rng) -> Spec {
    let mut pk = vec![4u8];
    pk.extend(rb(rng, 64));
    Spec {
        serial: {
            let n = rng.range(1, 20) as usize;
            let mut s = rb(rng, n);
            s[0] &= 0x7f;
            s
        },
        nb: rng.next() as u32,
        na: rng.next() as u32,
        iss: vec![(20, DnVal::Uint(rng.next()))],
        sub: vec![(17, DnVal::Uint(rng.next())), (21, DnVal::Uint(rng.next()))],
        pk,
        ext: vec![Ext::Bc(false, None), Ext::Ku(1), Ext::Eku(vec![2, 1]), Ext::Skid(rb(rng, 20)), Ext::Akid(rb(rng, 20))],
    }
}

/// every legal value of every enumerated field, then random combinations
pub fn gen_t(rng: &mut Rng, scale: usize) -> Vec<(String, String, String)> {
    let mut out: Vec<Spec> = Vec::new();
    // --- extended key usage: every single id, every subset in ascending and descending order, repeats
    for mask in 1u32..64 {
        let ids: Vec<u8> = (1..=6u8).filter(|i| mask >> (i - 1) & 1 == 1).collect();
        for rev in [false, true] {
            let mut s = base_spec(rng);
            let mut l = ids.clone();
            if rev {
                l.reverse();
            }
            s.ext[2] = Ext::Eku(l);
            out.push(s);
        }
    }
    for _ in 0..40 * scale {
        let mut s = base_spec(rng);
        let n = rng.range(1, 8);
        s.ext[2] = Ext::Eku((0..n).map(|_| rng.range(1, 6) as u8).collect());
        out.push(s);
    }
    {
        let mut s = base_spec(rng);
        s.ext[2] = Ext::Eku(vec![]);
        out.push(s);
    }
    // --- key usage: every bit alone, all prefixes, all nine bits, zero, random
    for i in 0..9 {
        let mut s = base_spec(rng);
        s.ext[1] = Ext::Ku(1 << i);
        out.push(s);
        let mut s = base_spec(rng);
        s.ext[1] = Ext::Ku((1u16 << (i + 1)) - 1);
        out.push(s);
    }
    for ku in [0u16, 0x1ff, 0x60, 0x61, 0x100, 0x180, 0x101] {
        let mut s = base_spec(rng);
        s.ext[1] = Ext::Ku(ku);
        out.push(s);
    }
    for _ in 0..60 * scale {
        let mut s = base_spec(rng);
        s.ext[1] = Ext::Ku(rng.below(512) as u16);
        out.push(s);
    }
    // --- basic constraints
    for (ca, p) in [(false, None), (true, None), (true, Some(0u8)), (true, Some(1)), (true, Some(2)), (true, Some(127)), (false, Some(0))] {
        let mut s = base_spec(rng);
        s.ext[0] = Ext::Bc(ca, p);
        out.push(s);
    }
    // --- extension presence / order / future extensions
    for _ in 0..40 * scale {
        let mut s = base_spec(rng);
        let mut e = Vec::new();
        for x in s.ext.drain(..) {
            if rng.chance(3, 4) {
                e.push(x);
            }
        }
        if rng.chance(1, 3) {
            // one verbatim DER extension: SEQ { OID 2.5.29.17, OCTET STRING { 30 00 } }
            e.push(Ext::Fut(vec![0x30, 0x09, 0x06, 0x03, 0x55, 0x1d, 0x11, 0x04, 0x02, 0x30, 0x00]));
        }
        if rng.chance(1, 4) {
            let i = rng.below(e.len() as u64 + 1) as usize;
            let j = rng.below(e.len() as u64 + 1) as usize;
            if i < e.len() && j < e.len() {
                e.swap(i, j);
            }
        }
        s.ext = e;
        out.push(s);
    }
    // --- every DN attribute type, as subject and as issuer, all value kinds
    for tag in 1..=22u8 {
        for _ in 0..3 {
            let mut s = base_spec(rng);
            s.sub = vec![rand_dn_attr(rng, tag)];
            out.push(s);
            let mut s = base_spec(rng);
            s.iss = vec![rand_dn_attr(rng, tag)];
            out.push(s);
        }
        if tag >= 17 {
            for v in [0u64, 1, 0xffff_ffff, u64::MAX] {
                let mut s = base_spec(rng);
                s.sub = vec![(tag, DnVal::Uint(if tag == 22 { v & 0xffff_ffff } else { v }))];
                out.push(s);
            }
        }
    }
    for _ in 0..80 * scale {
        let mut s = base_spec(rng);
        let n = rng.range(0, 5);
        s.sub = (0..n).map(|_| { let t = rng.range(1, 22) as u8; rand_dn_attr(rng, t) }).collect();
        let n = rng.range(0, 4);
        s.iss = (0..n).map(|_| { let t = rng.range(1, 22) as u8; rand_dn_attr(rng, t) }).collect();
        out.push(s);
    }
    // --- both time encodings and their boundary (2049-12-31T23:59:59Z = 1577836799 s after 2000-01-01)
    for t in [0u32, 1, 59, 60, 3599, 86_399, 86_400, 5_097_600, 5_184_000, 31_622_399, 31_622_400, 1_577_836_799, 1_577_836_800, 1_577_836_801, 3_155_760_000, u32::MAX - 1, u32::MAX] {
        let mut s = base_spec(rng);
        s.nb = t;
        s.na = rng.next() as u32;
        out.push(s);
        let mut s = base_spec(rng);
        s.na = t;
        out.push(s);
    }
    for _ in 0..60 * scale {
        let mut s = base_spec(rng);
        // around month ends and leap days
        let day = rng.below(49_710) as u32;
        s.nb = day * 86_400 + rng.below(3) as u32 * 43_199;
        s.na = day.wrapping_mul(86_400).wrapping_add(86_399);
        out.push(s);
    }
    // --- serial numbers
    for serial in [vec![0u8], vec![1], vec![0x7f], vec![0x00, 0x80], vec![0x01; 20], vec![0x7f; 20]] {
        let mut s = base_spec(rng);
        s.serial = serial;
        out.push(s);
    }
    out.iter().map(|s| ("certx".to_string(), "rt".to_string(), spec_str(s))).collect()
}

// ------------------------------------------------------------------ extension values (modelled in Coq: Model/CodecsCertExt.v)

/// `CE id ku ids ca path`: the extnValue contents of key usage, extended key usage and basic
/// constraints as they appear in `as_asn1`'s output
pub fn run_ce(f: &[&str]) -> String {
    let ku: u16 = f[2].parse().unwrap_or(0);
    let ids: Vec<u8> = if f[3] == "-" { Vec::new() } else { f[3].split('.').map(|v| v.parse().unwrap_or(0)).collect() };
    let ca = f[4] == "1";
    let path: Option<u8> = if f[5] == "-" { None } else { f[5].parse().ok() };
    let spec = Spec {
        serial: vec![1],
        nb: 1,
        na: 2,
        iss: vec![(20, DnVal::Uint(1))],
        sub: vec![(17, DnVal::Uint(2)), (21, DnVal::Uint(3))],
        pk: vec![4; 65],
        ext: vec![Ext::Bc(ca, path), Ext::Ku(ku), Ext::Eku(ids)],
    };
    let tlv = build_tlv(&spec);
    let r = rsm_harness::catch(move || {
        let cert = CertRef::new(TLVElement::new(&tlv));
        let mut buf = vec![0u8; 4096];
        cert.as_asn1(&mut buf).map(|n| buf[..n].to_vec())
    });
    let der = match r {
        Ok(Ok(d)) => d,
        Ok(Err(_)) => return "err - -".into(),
        Err(_) => return "panic - -".into(),
    };
    let values = (|| -> Option<Vec<Vec<u8>>> {
        let top = children(&der)?;
        let tbs = children(top.first()?.1)?;
        let exts = children(children(tbs.get(7)?.1)?.first()?.1)?;
        exts.iter().map(|(_, c, _)| Some(children(c)?.last()?.1.to_vec())).collect()
    })();
    let h = |v: Option<&Vec<u8>>| v.map(|b| if b.is_empty() { "-".to_string() } else { hex(b) }).unwrap_or_else(|| "?".into());
    match values {
        Some(v) => format!("{} {} {}", h(v.get(1)), h(v.get(2)), h(v.first())),
        None => "unreadable - -".into(),
    }
}

pub fn gen_ce(rng: &mut Rng, scale: usize) -> Vec<String> {
    let mut out = Vec::new();
    let bcs = ["0 -", "1 -", "1 0", "1 1", "1 127", "0 0", "1 255"];
    for ku in 0..512u32 {
        let mask = 1 + ku % 63;
        let ids: Vec<String> = (1..=6u32).filter(|i| mask >> (i - 1) & 1 == 1).map(|i| i.to_string()).collect();
        out.push(format!("{} {} {}", ku, ids.join("."), bcs[(ku % 7) as usize]));
    }
    for _ in 0..200 * scale {
        let n = rng.below(13);
        let ids: Vec<String> = (0..n).map(|_| if rng.chance(1, 15) { *rng.pick(&[0u64, 7, 255]) } else { rng.range(1, 6) }.to_string()).collect();
        let ku = if rng.chance(1, 10) { rng.below(65536) } else { rng.below(512) };
        out.push(format!("{} {} {}", ku, if ids.is_empty() { "-".into() } else { ids.join(".") }, rng.pick(&bcs)));
    }
    out
}
