//! C17, second batch of modelled formats (included by `bin/c17.rs` through `#[path]`):
//! check-in payload layout, BDX message bodies, BLE advertisement payloads, mDNS TXT records and
//! instance-name labels.  Same protocol as the first batch: one canonical line per case, compared
//! with the extracted Coq model and fed to the extracted monitors.
//!
//!   CI id key cap counter app nonce enc     CheckIn::generate into a cap-byte buffer, then parse
//!                                           (nonce/enc = HMAC / AES-CCM answers computed DIRECTLY
//!                                           with the crypto backend: the model's oracles)
//!   CP id key payload dec|none expnonce     CheckIn::parse of arbitrary bytes (dec = what AES-CCM
//!                                           makes of payload[13..], expnonce = nonce of its counter)
//!   XI/XID, XA/XAD, XB/XBD, XQ/XQD, XS/XSD  BDX TransferInit / TransferAccept / Block / BlockQuery /
//!                                           BlockQueryWithSkip: write+parse / parse of arbitrary bytes
//!   A id vid pid disc / AR id recovery-id   AdvData / RecoveryAdvData: iter() then both parsers
//!   AD id hex                                all four BLE parsers on arbitrary bytes
//!   MC id disc enh vid pid sai sii dn pi ph dt tcp icd   commissionable service -> responder packet ->
//!                                           parse_into_answer -> TXT pairs, own filter must match
//!   MF id filter pairs                       CommissionableFilter::matches, session_params, supports_tcp_server
//!   MTD id rdata                             arbitrary TXT rdata inside a hand-built response packet
//!   MN id o|c a b / MI id o|c a b label      instance_name() first label / matches_instance on a label
use std::fmt::Write as _;

use rs_matter::bdx::{Block, BlockQuery, BlockQueryWithSkip, RangeControl, TransferAccept, TransferControl, TransferInit};
use rs_matter::crypto::{
    test_only_crypto, Aead, AeadNonce, CanonAeadKeyRef, Crypto, Digest, HmacHash, AEAD_NONCE_LEN,
};
use rs_matter::dm::clusters::basic_info::{BasicInfoConfig, PairingHintFlags};
use rs_matter::dm::clusters::icd_mgmt::OperatingModeEnum;
use rs_matter::error::Error;
use rs_matter::sc::checkin::CheckIn;
use rs_matter::transport::network::btp::{AdvData, RecoveryAdvData};
use rs_matter::transport::network::mdns::builtin::{parse_into_answer, Host};
use rs_matter::transport::network::mdns::{CommissionableFilter, DottedName, MdnsRemoteService};
use rs_matter::transport::network::{Ipv4Addr, Ipv6Addr};
use rs_matter::transport::network::{MatterLocalService, MatterRemoteService};
use rs_matter::utils::storage::WriteBuf;
use rsm_harness::{catch, Rng};

use super::{err_class, hex, res_str, unhex};

pub const KINDS: &[&str] = &[
    "CI", "CP", "XI", "XID", "XA", "XAD", "XB", "XBD", "XQ", "XQD", "XS", "XSD", "A", "AR", "AD", "MC", "MF",
    "MTD", "MN", "MI",
];

// ------------------------------------------------------------------ crypto oracles (direct)

fn key_of(h: &str) -> [u8; 16] {
    let v = unhex(h);
    let mut k = [0u8; 16];
    k.copy_from_slice(&v[..16]);
    k
}

/// leading 13 bytes of HMAC-SHA256(key, counter LE)
fn oracle_nonce(key: &[u8; 16], counter: u32) -> Vec<u8> {
    let crypto = test_only_crypto();
    let mut mac = crypto.hmac::<16>(CanonAeadKeyRef::new(key)).unwrap();
    mac.update(&counter.to_le_bytes()).unwrap();
    let mut hash = HmacHash::new();
    mac.finish(&mut hash).unwrap();
    hash.access()[..AEAD_NONCE_LEN].to_vec()
}

/// AES-CCM(key, nonce, aad = [], plaintext) = ciphertext || tag
fn oracle_enc(key: &[u8; 16], nonce: &[u8], plaintext: &[u8]) -> Vec<u8> {
    let crypto = test_only_crypto();
    let mut n = AeadNonce::new();
    n.access_mut().copy_from_slice(nonce);
    let mut buf = plaintext.to_vec();
    buf.extend_from_slice(&[0u8; 16]);
    let mut aead = crypto.aead().unwrap();
    aead.encrypt_in_place(CanonAeadKeyRef::new(key), n.reference(), &[], &mut buf, plaintext.len())
        .unwrap()
        .to_vec()
}

fn oracle_dec(key: &[u8; 16], nonce: &[u8], data: &[u8]) -> Option<Vec<u8>> {
    if data.len() < 16 || nonce.len() != AEAD_NONCE_LEN {
        return None;
    }
    let crypto = test_only_crypto();
    let mut n = AeadNonce::new();
    n.access_mut().copy_from_slice(nonce);
    let mut buf = data.to_vec();
    let mut aead = crypto.aead().unwrap();
    aead.decrypt_in_place(CanonAeadKeyRef::new(key), n.reference(), &[], &mut buf)
        .ok()
        .map(|p| p.to_vec())
}

// ------------------------------------------------------------------ BDX helpers

fn tc_of(b: u8) -> TransferControl {
    TransferControl {
        version: b & 0x0f,
        sender_drive: b & 0x10 != 0,
        receiver_drive: b & 0x20 != 0,
        async_mode: b & 0x40 != 0,
    }
}
fn tc_byte(t: &TransferControl) -> u8 {
    (t.version & 0x0f) | (t.sender_drive as u8) << 4 | (t.receiver_drive as u8) << 5 | (t.async_mode as u8) << 6
}
fn rc_of(b: u8) -> RangeControl {
    RangeControl { def_len: b & 1 != 0, start_offset: b & 2 != 0, wide_range: b & 0x10 != 0 }
}
fn rc_byte(r: &RangeControl) -> u8 {
    (r.def_len as u8) | (r.start_offset as u8) << 1 | (r.wide_range as u8) << 4
}

fn init_parse_str(input: &[u8]) -> String {
    let v = input.to_vec();
    let r = catch(move || {
        TransferInit::parse(&v).map(|m| {
            format!(
                "{},{},{},{},{}:{}:{}",
                tc_byte(&m.transfer_control),
                rc_byte(&m.range_control),
                m.max_block_size,
                m.start_offset,
                m.length,
                hex(m.file_designator),
                hex(m.metadata)
            )
        })
    });
    res_str(r, |s| s)
}

fn accept_parse_str(receive: bool, input: &[u8]) -> String {
    let v = input.to_vec();
    let r = catch(move || {
        TransferAccept::parse(receive, &v).map(|m| {
            format!(
                "{},{},{},{},{}:{}",
                m.receive as u8,
                tc_byte(&m.transfer_control),
                rc_byte(&m.range_control),
                m.max_block_size,
                m.length,
                hex(m.metadata)
            )
        })
    });
    res_str(r, |s| s)
}

fn block_parse_str(input: &[u8]) -> String {
    let v = input.to_vec();
    res_str(catch(move || Block::parse(&v).map(|b| format!("{}:{}", b.block_counter, hex(b.data)))), |s| s)
}
fn query_parse_str(input: &[u8]) -> String {
    let v = input.to_vec();
    res_str(catch(move || BlockQuery::parse(&v).map(|b| format!("{}", b.block_counter))), |s| s)
}
fn skip_parse_str(input: &[u8]) -> String {
    let v = input.to_vec();
    res_str(
        catch(move || BlockQueryWithSkip::parse(&v).map(|b| format!("{},{}", b.block_counter, b.bytes_to_skip))),
        |s| s,
    )
}

fn written(f: impl FnOnce(&mut WriteBuf) -> Result<(), Error> + std::panic::UnwindSafe) -> Result<Result<Vec<u8>, Error>, String> {
    catch(move || {
        let mut buf = vec![0u8; 70000];
        let mut wb = WriteBuf::new(&mut buf);
        f(&mut wb)?;
        Ok(wb.as_slice().to_vec())
    })
}

// ------------------------------------------------------------------ BLE helpers

fn adv_str(a: Option<AdvData>) -> String {
    match a {
        Some(a) => format!("some:{},{},{},{}", a.vid(), a.pid(), a.discriminator(), a.additional_data() as u8),
        None => "none".into(),
    }
}
fn radv_str(a: Option<RecoveryAdvData>) -> String {
    match a {
        Some(a) => format!("some:{},{}", hex(&a.recovery_id()), a.additional_data() as u8),
        None => "none".into(),
    }
}
fn opt_or_panic(r: Result<String, String>) -> String {
    r.unwrap_or_else(|_| "panic".into())
}

// ------------------------------------------------------------------ mDNS helpers

fn pairs_str(p: &[(Vec<u8>, Vec<u8>)]) -> String {
    if p.is_empty() {
        return "-".into();
    }
    p.iter().map(|(k, v)| format!("{}:{}", hex(k), hex(v))).collect::<Vec<_>>().join(";")
}
fn parse_pairs(s: &str) -> Vec<(Vec<u8>, Vec<u8>)> {
    if s == "-" {
        return Vec::new();
    }
    s.split(';')
        .map(|p| {
            let mut it = p.split(':');
            (unhex(it.next().unwrap()), unhex(it.next().unwrap()))
        })
        .collect()
}
fn optn(s: &str) -> Option<u64> {
    if s == "-" {
        None
    } else {
        Some(s.parse().unwrap())
    }
}
fn optn_str<T: std::fmt::Display>(o: Option<T>) -> String {
    o.map(|v| v.to_string()).unwrap_or_else(|| "-".into())
}

fn name_bytes(labels: &[&[u8]]) -> Vec<u8> {
    let mut v = Vec::new();
    for l in labels {
        v.push(l.len() as u8);
        v.extend_from_slice(l);
    }
    v.push(0);
    v
}

/// A response packet with one SRV and one TXT record for `x._matterc._udp.local`, the TXT rdata given.
pub fn txt_packet(rdata: &[u8]) -> Vec<u8> {
    let owner = name_bytes(&[b"x", b"_matterc", b"_udp", b"local"]);
    let target = name_bytes(&[b"h", b"local"]);
    let mut p = vec![0, 0, 0x84, 0, 0, 0, 0, 2, 0, 0, 0, 0];
    p.extend(&owner);
    p.extend([0, 33, 0, 1, 0, 0, 0, 120]);
    p.extend(((6 + target.len()) as u16).to_be_bytes());
    p.extend([0, 0, 0, 0, 0x15, 0xa4]);
    p.extend(&target);
    p.extend(&owner);
    p.extend([0, 16, 0, 1, 0, 0, 0, 120]);
    p.extend((rdata.len() as u16).to_be_bytes());
    p.extend(rdata);
    p
}

fn packet_pairs(packet: &[u8]) -> Result<Vec<(Vec<u8>, Vec<u8>)>, String> {
    let svc = parse_into_answer(packet, None).map_err(|e| format!("err:{}", err_class(&e)))?;
    let svc = svc.ok_or_else(|| "no-answer".to_string())?;
    Ok(svc.txt.map(|(k, v)| (k.as_bytes().to_vec(), v.as_bytes().to_vec())).collect())
}

// ------------------------------------------------------------------ running

pub fn run_line(f: &[&str], out: &mut String) {
    let id = f[1];
    match f[0] {
        "CI" => {
            let key = key_of(f[2]);
            let cap: usize = f[3].parse().unwrap();
            let counter: u32 = f[4].parse().unwrap();
            let app = unhex(f[5]);
            let r = catch(move || {
                let crypto = test_only_crypto();
                let ci = CheckIn::new(CanonAeadKeyRef::new(&key));
                let mut buf = vec![0u8; cap];
                ci.generate(&crypto, counter, &app, &mut buf).map(|p| p.to_vec())
            });
            let parsed = match &r {
                Ok(Ok(p)) => checkin_parse_str(&key, p),
                _ => "-".into(),
            };
            writeln!(out, "CI {} {} {}", id, res_str(r, |p| hex(&p)), parsed).unwrap();
        }
        "CP" => {
            let key = key_of(f[2]);
            writeln!(out, "CP {} {}", id, checkin_parse_str(&key, &unhex(f[3]))).unwrap();
        }
        "XI" => {
            let p = |i: usize| f[i].parse::<u64>().unwrap();
            let (tc, rc, mbs, st, len) = (p(2) as u8, p(3) as u8, p(4) as u16, p(5), p(6));
            let (fd, meta) = (unhex(f[7]), unhex(f[8]));
            let enc = written(move |wb| {
                TransferInit {
                    transfer_control: tc_of(tc),
                    range_control: rc_of(rc),
                    max_block_size: mbs,
                    start_offset: st,
                    length: len,
                    file_designator: &fd,
                    metadata: &meta,
                }
                .write(wb)
            });
            match enc {
                Ok(Ok(e)) => writeln!(out, "XI {} {} {}", id, hex(&e), init_parse_str(&e)).unwrap(),
                Ok(Err(e)) => writeln!(out, "XI {} err:{} -", id, err_class(&e)).unwrap(),
                Err(_) => writeln!(out, "XI {} panic -", id).unwrap(),
            }
        }
        "XID" => writeln!(out, "XID {} {}", id, init_parse_str(&unhex(f[2]))).unwrap(),
        "XA" => {
            let receive = f[2] == "1";
            let p = |i: usize| f[i].parse::<u64>().unwrap();
            let (tc, rc, mbs, len) = (p(3) as u8, p(4) as u8, p(5) as u16, p(6));
            let meta = unhex(f[7]);
            let enc = written(move |wb| {
                TransferAccept {
                    receive,
                    transfer_control: tc_of(tc),
                    range_control: rc_of(rc),
                    max_block_size: mbs,
                    length: len,
                    metadata: &meta,
                }
                .write(wb)
            });
            match enc {
                Ok(Ok(e)) => writeln!(out, "XA {} {} {}", id, hex(&e), accept_parse_str(receive, &e)).unwrap(),
                Ok(Err(e)) => writeln!(out, "XA {} err:{} -", id, err_class(&e)).unwrap(),
                Err(_) => writeln!(out, "XA {} panic -", id).unwrap(),
            }
        }
        "XAD" => writeln!(out, "XAD {} {}", id, accept_parse_str(f[2] == "1", &unhex(f[3]))).unwrap(),
        "XB" => {
            let ctr: u32 = f[2].parse().unwrap();
            let data = unhex(f[3]);
            let enc = written(move |wb| Block { block_counter: ctr, data: &data }.write(wb));
            match enc {
                Ok(Ok(e)) => writeln!(out, "XB {} {} {}", id, hex(&e), block_parse_str(&e)).unwrap(),
                _ => writeln!(out, "XB {} panic -", id).unwrap(),
            }
        }
        "XBD" => writeln!(out, "XBD {} {}", id, block_parse_str(&unhex(f[2]))).unwrap(),
        "XQ" => {
            let ctr: u32 = f[2].parse().unwrap();
            let tr = unhex(f[3]);
            let enc = written(move |wb| BlockQuery { block_counter: ctr }.write(wb));
            match enc {
                Ok(Ok(mut e)) => {
                    e.extend(tr);
                    writeln!(out, "XQ {} {} {}", id, hex(&e), query_parse_str(&e)).unwrap()
                }
                _ => writeln!(out, "XQ {} panic -", id).unwrap(),
            }
        }
        "XQD" => writeln!(out, "XQD {} {}", id, query_parse_str(&unhex(f[2]))).unwrap(),
        "XS" => {
            let ctr: u32 = f[2].parse().unwrap();
            let skip: u64 = f[3].parse().unwrap();
            let tr = unhex(f[4]);
            let enc = written(move |wb| BlockQueryWithSkip { block_counter: ctr, bytes_to_skip: skip }.write(wb));
            match enc {
                Ok(Ok(mut e)) => {
                    e.extend(tr);
                    writeln!(out, "XS {} {} {}", id, hex(&e), skip_parse_str(&e)).unwrap()
                }
                _ => writeln!(out, "XS {} panic -", id).unwrap(),
            }
        }
        "XSD" => writeln!(out, "XSD {} {}", id, skip_parse_str(&unhex(f[2]))).unwrap(),
        "A" => {
            let vid: u16 = f[2].parse().unwrap();
            let pid: u16 = f[3].parse().unwrap();
            let disc: u16 = f[4].parse().unwrap();
            let r = catch(move || {
                let dd = BasicInfoConfig { vid, pid, ..Default::default() };
                let a = AdvData::new(&dd, disc);
                let bytes: Vec<u8> = a.iter().collect();
                let sd: Vec<u8> = a.service_payload_iter().collect();
                format!("{} {} {}", hex(&bytes), adv_str(AdvData::parse_adv(&bytes)), adv_str(AdvData::parse_service_data(&sd)))
            });
            writeln!(out, "A {} {}", id, r.unwrap_or_else(|_| "panic - -".into())).unwrap();
        }
        "AR" => {
            let v = unhex(f[2]);
            let r = catch(move || {
                let mut rid = [0u8; 8];
                rid.copy_from_slice(&v[..8]);
                let a = RecoveryAdvData::new(rid);
                let bytes: Vec<u8> = a.iter().collect();
                let sd: Vec<u8> = a.service_payload_iter().collect();
                format!(
                    "{} {} {}",
                    hex(&bytes),
                    radv_str(RecoveryAdvData::parse_adv(&bytes)),
                    radv_str(RecoveryAdvData::parse_service_data(&sd))
                )
            });
            writeln!(out, "AR {} {}", id, r.unwrap_or_else(|_| "panic - -".into())).unwrap();
        }
        "AD" => {
            let b = unhex(f[2]);
            let (b1, b2, b3, b4) = (b.clone(), b.clone(), b.clone(), b);
            writeln!(
                out,
                "AD {} {} {} {} {}",
                id,
                opt_or_panic(catch(move || adv_str(AdvData::parse_adv(&b1)))),
                opt_or_panic(catch(move || adv_str(AdvData::parse_service_data(&b2)))),
                opt_or_panic(catch(move || radv_str(RecoveryAdvData::parse_adv(&b3)))),
                opt_or_panic(catch(move || radv_str(RecoveryAdvData::parse_service_data(&b4))))
            )
            .unwrap();
        }
        "MC" => {
            let args: Vec<String> = f[2..].iter().map(|s| s.to_string()).collect();
            let r = catch(move || mc_case(&args));
            match r {
                Ok(Ok(s)) => writeln!(out, "MC {} {}", id, s).unwrap(),
                Ok(Err(e)) => writeln!(out, "MC {} {} - 0", id, e.replace(' ', "_")).unwrap(),
                Err(_) => writeln!(out, "MC {} panic - 0", id).unwrap(),
            }
        }
        "MF" => {
            let filt: Vec<Option<u64>> = f[2].split(',').take(5).map(optn).collect();
            let cm = f[2].split(',').nth(5) == Some("1");
            let pairs = parse_pairs(f[3]);
            let r = catch(move || {
                let strs: Vec<(String, String)> = pairs
                    .iter()
                    .map(|(k, v)| (String::from_utf8(k.clone()).unwrap(), String::from_utf8(v.clone()).unwrap()))
                    .collect();
                let svc = MdnsRemoteService {
                    instance_name: (),
                    port: None,
                    addrs: core::iter::empty::<rs_matter::transport::network::IpAddr>(),
                    txt: strs.iter().map(|(k, v)| (k.as_str(), v.as_str())),
                    scope_id: 0,
                };
                let filter = CommissionableFilter {
                    discriminator: filt[0].map(|v| v as u16),
                    short_discriminator: filt[1].map(|v| v as u8),
                    vendor_id: filt[2].map(|v| v as u16),
                    product_id: filt[3].map(|v| v as u16),
                    device_type: filt[4].map(|v| v as u32),
                    commissioning_mode_only: cm,
                };
                let (sii, sai, sat) = svc.session_params();
                format!(
                    "{} {},{},{} {}",
                    filter.matches(&svc) as u8,
                    optn_str(sii),
                    optn_str(sai),
                    optn_str(sat),
                    svc.supports_tcp_server() as u8
                )
            });
            writeln!(out, "MF {} {}", id, r.unwrap_or_else(|_| "panic - 0".into())).unwrap();
        }
        "MTD" => {
            let packet = txt_packet(&unhex(f[2]));
            let r = catch(move || packet_pairs(&packet));
            match r {
                Ok(Ok(p)) => writeln!(out, "MTD {} {}", id, pairs_str(&p)).unwrap(),
                Ok(Err(e)) => writeln!(out, "MTD {} {}", id, e).unwrap(),
                Err(_) => writeln!(out, "MTD {} panic", id).unwrap(),
            }
        }
        "MN" | "MI" => {
            let kind = f[2].to_string();
            let a: u64 = f[3].parse().unwrap();
            let b: u64 = f[4].parse().unwrap();
            let given = if f[0] == "MI" { Some(unhex(f[5])) } else { None };
            let is_mn = f[0] == "MN";
            let r = catch(move || {
                let svc = if kind == "o" {
                    MatterRemoteService::Operational { compressed_fabric_id: a, node_id: b }
                } else {
                    MatterRemoteService::Commissionable { id: a }
                };
                let suffix = if kind == "o" { "._matter._tcp.local" } else { "._matterc._udp.local" };
                let label = match given {
                    Some(l) => String::from_utf8(l).unwrap(),
                    None => {
                        let mut buf = heapless::String::<128>::new();
                        svc.instance_name(&mut buf);
                        buf.as_str().strip_suffix(suffix).unwrap_or("?").to_string()
                    }
                };
                let full = format!("{}{}", label, suffix);
                let m = svc.matches_instance(&DottedName(&full)) as u8;
                if is_mn {
                    format!("{} {}", hex(label.as_bytes()), m)
                } else {
                    format!("{}", m)
                }
            });
            writeln!(out, "{} {} {}", f[0], id, r.unwrap_or_else(|_| "panic".into())).unwrap();
        }
        _ => {}
    }
}

fn checkin_parse_str(key: &[u8; 16], payload: &[u8]) -> String {
    let key = *key;
    let mut v = payload.to_vec();
    let r = catch(move || {
        let crypto = test_only_crypto();
        let ci = CheckIn::new(CanonAeadKeyRef::new(&key));
        ci.parse(&crypto, &mut v).map(|p| (p.counter, p.app_data.to_vec()))
    });
    res_str(r, |(c, a)| format!("{}:{}", c, hex(&a)))
}

fn mc_case(a: &[String]) -> Result<String, String> {
    let disc: u16 = a[0].parse().unwrap();
    let enhanced = a[1] == "1";
    let vid: u16 = a[2].parse().unwrap();
    let pid: u16 = a[3].parse().unwrap();
    let sai = optn(&a[4]).map(|v| v as u32);
    let sii = optn(&a[5]).map(|v| v as u32);
    let dn = String::from_utf8(unhex(&a[6])).unwrap();
    let pi = String::from_utf8(unhex(&a[7])).unwrap();
    let ph: u32 = a[8].parse().unwrap();
    let dt = optn(&a[9]).map(|v| v as u16);
    let tcp = a[10] == "1";
    let icd = match a[11].as_str() {
        "1" => Some(OperatingModeEnum::LIT),
        "0" => Some(OperatingModeEnum::SIT),
        _ => None,
    };
    let dd = BasicInfoConfig {
        vid,
        pid,
        sai,
        sii,
        device_name: &dn,
        pairing_instruction: &pi,
        pairing_hint: PairingHintFlags::from_bits_retain(ph),
        device_type: dt,
        tcp_supported: tcp,
        ..Default::default()
    };
    let local = MatterLocalService::Commissionable { id: 0x1122_3344_5566_7788, discriminator: disc, enhanced };
    let mut sbuf = vec![0u8; 2048];
    let (service, _) = local.verif_service(&dd, 5540, icd, &mut sbuf).map_err(|e| format!("err:{}", err_class(&e)))?;
    let published: Vec<(Vec<u8>, Vec<u8>)> =
        service.txt_kvs.clone().map(|(k, v)| (k.as_bytes().to_vec(), v.as_bytes().to_vec())).collect();
    let host = Host { hostname: "h", ip: Ipv4Addr::new(10, 0, 0, 1), ipv6: &[Ipv6Addr::UNSPECIFIED] };
    let mut pbuf = vec![0u8; 4096];
    let len = host.broadcast(&service, &mut pbuf, 60, 120).map_err(|e| format!("err:{}", err_class(&e)))?;
    let svc = parse_into_answer(&pbuf[..len], None).map_err(|e| format!("err:{}", err_class(&e)))?.ok_or("no-answer")?;
    let parsed: Vec<(Vec<u8>, Vec<u8>)> =
        svc.txt.clone().map(|(k, v)| (k.as_bytes().to_vec(), v.as_bytes().to_vec())).collect();
    let own = CommissionableFilter {
        discriminator: Some(disc),
        short_discriminator: Some((disc >> 8) as u8),
        vendor_id: Some(vid),
        product_id: Some(pid),
        device_type: dt.map(|v| v as u32),
        commissioning_mode_only: true,
    };
    Ok(format!("{} {} {}", pairs_str(&published), pairs_str(&parsed), own.matches(&svc) as u8))
}

// ------------------------------------------------------------------ generators

fn rb(rng: &mut Rng, n: usize) -> Vec<u8> {
    (0..n).map(|_| rng.next() as u8).collect()
}
fn edge(rng: &mut Rng, bits: u32) -> u64 {
    let max = if bits == 64 { u64::MAX } else { (1u64 << bits) - 1 };
    match rng.below(8) {
        0 => 0,
        1 => max,
        2 => 1,
        3 => max - 1,
        4 => 1u64 << rng.below(bits as u64),
        _ => rng.next() & max,
    }
}
fn mutate(rng: &mut Rng, v: &mut Vec<u8>) {
    for _ in 0..rng.range(1, 3) {
        match rng.below(6) {
            0 | 1 if !v.is_empty() => {
                let i = rng.below(v.len() as u64) as usize;
                v[i] ^= 1 << rng.below(8);
            }
            2 if !v.is_empty() => {
                let l = rng.below(v.len() as u64) as usize;
                v.truncate(l);
            }
            3 => {
                let k = rng.range(1, 6) as usize;
                let e = rb(rng, k);
                v.extend(e);
            }
            4 if !v.is_empty() => {
                let i = rng.below(v.len() as u64) as usize;
                v[i] = *rng.pick(&[0u8, 0xff, 0x7f, 0x80, 1, 2]);
            }
            _ => {
                let i = rng.below(v.len() as u64 + 1) as usize;
                v.insert(i, rng.next() as u8);
            }
        }
    }
}

/// a short string for TXT values; mostly ASCII, sometimes other valid UTF-8
fn txt_string(rng: &mut Rng, max: u64, ascii_only: bool) -> String {
    let n = rng.below(max + 1);
    let mut s = String::new();
    for _ in 0..n {
        if !ascii_only && rng.chance(1, 12) {
            s.push(*rng.pick(&['\u{e9}', '\u{800}', '\u{ffff}', '\u{10000}', '\u{10ffff}', '\u{7ff}', '\u{d7ff}', '\u{e000}']));
        } else {
            s.push(*rng.pick(b"0123456789ABCDEFabcdefghxyz+-=. _") as char);
        }
    }
    s
}

pub fn gen(rng: &mut Rng, scale: usize, push: &mut dyn FnMut(&str, String)) {
    // ---- check-in
    for i in 0..300 * scale {
        let key = rb(rng, 16);
        let mut k = [0u8; 16];
        k.copy_from_slice(&key);
        let counter = edge(rng, 32) as u32;
        let n = match rng.below(6) {
            0 => 0,
            1 => 64,
            _ => rng.below(40) as usize,
        };
        let app = rb(rng, n);
        let need = 33 + n;
        let cap = match rng.below(6) {
            0 => rng.below(need as u64) as usize,
            1 => need,
            _ => need + rng.below(20) as usize,
        };
        let nonce = oracle_nonce(&k, counter);
        let mut pt = counter.to_le_bytes().to_vec();
        pt.extend(&app);
        let enc = oracle_enc(&k, &nonce, &pt);
        push("CI", format!("{} {} {} {} {} {}", hex(&key), cap, counter, hex(&app), hex(&nonce), hex(&enc)));
        // decoder inputs derived from the valid payload
        if i % 1 == 0 {
            let mut payload = nonce.clone();
            payload.extend(&enc);
            match rng.below(6) {
                0 => {}
                1 => {
                    // re-encrypt under the nonce of ANOTHER counter: authentic but the nonce check must refuse
                    let other = oracle_nonce(&k, counter.wrapping_add(1));
                    payload = other.clone();
                    payload.extend(oracle_enc(&k, &other, &pt));
                }
                2 => {
                    // authentic, plaintext shorter than a counter cannot be built (len >= 33): minimum size
                    let n0 = oracle_nonce(&k, counter);
                    payload = n0.clone();
                    payload.extend(oracle_enc(&k, &n0, &counter.to_le_bytes()));
                }
                3 => {
                    let l = rng.below(40) as usize;
                    payload = rb(rng, l);
                }
                _ => mutate(rng, &mut payload),
            }
            let (dec, expn) = if payload.len() >= 33 {
                match oracle_dec(&k, &payload[..13], &payload[13..]) {
                    Some(p) if p.len() >= 4 => {
                        let c = u32::from_le_bytes([p[0], p[1], p[2], p[3]]);
                        (hex(&p), hex(&oracle_nonce(&k, c)))
                    }
                    Some(p) => (hex(&p), "-".into()),
                    None => ("none".into(), "-".into()),
                }
            } else {
                ("none".into(), "-".into())
            };
            push("CP", format!("{} {} {} {}", hex(&key), hex(&payload), dec, expn));
        }
    }

    // ---- BDX
    for tc in [0u8, 0x10, 0x20, 0x40, 0x7f, 0x0f] {
        for rc in [0u8, 1, 2, 3, 0x10, 0x11, 0x12, 0x13] {
            push("XI", format!("{} {} {} {} {} {} {}", tc, rc, 1024, u64::MAX, u64::MAX, "66", "-"));
            push("XA", format!("1 {} {} {} {} {}", tc, rc, 65535, u64::MAX, "-"));
        }
        push("XA", format!("0 {} 0 {} 0 {}", tc, 0, "aa"));
    }
    for _ in 0..500 * scale {
        let tc = (rng.next() as u8) & 0x7f;
        let rc = (rng.next() as u8) & 0x13;
        let wf = rng.chance(3, 4);
        let wide = rc & 0x10 != 0;
        let st = if rc & 2 != 0 || !wf { edge(rng, if wide || !wf { 64 } else { 32 }) } else { 0 };
        let len = if rc & 1 != 0 || !wf { edge(rng, if wide || !wf { 64 } else { 32 }) } else { 0 };
        let nfd = if rng.chance(1, 30) { 300 } else { rng.below(20) as usize };
        let nmeta = rng.below(12) as usize;
        push("XI", format!("{} {} {} {} {} {} {}", tc, rc, edge(rng, 16), st, len, hex(&rb(rng, nfd)), hex(&rb(rng, nmeta))));
        let receive = rng.chance(1, 2);
        let rc2 = if receive || !wf { rc } else { 0 };
        let len2 = if (receive && rc & 1 != 0) || !wf { len } else { 0 };
        push("XA", format!("{} {} {} {} {} {}", receive as u8, tc, rc2, edge(rng, 16), len2, hex(&rb(rng, nmeta))));
        let nd = if rng.chance(1, 20) { 1200 } else { rng.below(30) as usize };
        push("XB", format!("{} {}", edge(rng, 32), hex(&rb(rng, nd))));
        let ntr = rng.below(4) as usize;
        push("XQ", format!("{} {}", edge(rng, 32), hex(&rb(rng, ntr))));
        push("XS", format!("{} {} {}", edge(rng, 32), edge(rng, 64), hex(&rb(rng, ntr))));
    }
    for b0 in 0..=255u8 {
        // every control byte, every range-control byte, short bodies
        let body = rb(rng, 24);
        let mut v = vec![b0, (rng.next() as u8)];
        v.extend(&body);
        push("XID", hex(&v));
        let mut w = vec![(rng.next() as u8) & 0x7f, b0];
        w.extend(&body);
        push("XID", hex(&w));
        push("XAD", format!("1 {}", hex(&w)));
        push("XAD", format!("0 {}", hex(&v)));
    }
    for _ in 0..700 * scale {
        // valid TransferInit bodies, cut / mutated (file designator length field included)
        let rc = (rng.next() as u8) & 0x13;
        let wide = rc & 0x10 != 0;
        let mut v = vec![(rng.next() as u8), if rng.chance(1, 4) { rng.next() as u8 } else { rc }];
        v.extend((rng.next() as u16).to_le_bytes());
        for bit in [2u8, 1] {
            if rc & bit != 0 {
                let n = if wide { 8 } else { 4 };
                v.extend(rb(rng, n));
            }
        }
        let nfd = rng.below(10) as usize;
        let declared = match rng.below(5) {
            0 => nfd as u16 + 1 + rng.below(5) as u16,
            1 => 0xffff,
            _ => nfd as u16,
        };
        v.extend(declared.to_le_bytes());
        v.extend(rb(rng, nfd));
        let nmeta = rng.below(6) as usize;
        v.extend(rb(rng, nmeta));
        if rng.chance(1, 3) {
            let l = rng.below(v.len() as u64 + 1) as usize;
            v.truncate(l);
        }
        push("XID", hex(&v));
        let n = rng.below(20) as usize;
        let w = rb(rng, n);
        push("XAD", format!("{} {}", rng.below(2), hex(&w)));
        push("XBD", hex(&w));
        push("XQD", hex(&w));
        push("XSD", hex(&w));
    }

    // ---- BLE advertisement
    for disc in [0u64, 1, 0xff, 0x100, 0xf00, 0xfff, 0x1000, 0xffff] {
        for (vid, pid) in [(0u64, 0u64), (0xfff1, 0x8000), (0xffff, 0xffff)] {
            push("A", format!("{} {} {}", vid, pid, disc));
        }
    }
    for _ in 0..300 * scale {
        let disc = if rng.chance(9, 10) { edge(rng, 12) } else { edge(rng, 16) };
        push("A", format!("{} {} {}", edge(rng, 16), edge(rng, 16), disc));
        push("AR", hex(&rb(rng, 8)));
    }
    for _ in 0..900 * scale {
        // a valid advertisement (either kind), with extra AD structures around it, then damaged
        let mut v: Vec<u8> = Vec::new();
        for _ in 0..rng.below(3) {
            let l = rng.range(1, 6) as u8;
            v.push(l);
            v.push(*rng.pick(&[0x01u8, 0x09, 0x16, 0xff, 0x03]));
            let body = rb(rng, l as usize - 1);
            v.extend(body);
        }
        let opcode = *rng.pick(&[0u8, 0, 1, 1, 2]);
        let plen = match (opcode, rng.below(6)) {
            (_, 0) => rng.below(14) as usize,
            (1, _) => 11,
            _ => 8,
        };
        let mut payload = rb(rng, plen);
        if !payload.is_empty() {
            payload[0] = opcode;
        }
        v.push((payload.len() + 3) as u8);
        v.push(0x16);
        v.extend(if rng.chance(9, 10) { [0xf6, 0xff] } else { [0xf5, 0xff] });
        v.extend(&payload);
        let tail = rng.below(4) as usize;
        v.extend(rb(rng, tail));
        match rng.below(4) {
            0 => mutate(rng, &mut v),
            1 => v = payload.clone(),
            _ => {}
        }
        push("AD", hex(&v));
    }
    for _ in 0..200 * scale {
        let n = rng.below(40) as usize;
        push("AD", hex(&rb(rng, n)));
    }

    // ---- mDNS TXT
    for _ in 0..400 * scale {
        let disc = if rng.chance(19, 20) { edge(rng, 12) } else { edge(rng, 16) };
        let opt32 = |rng: &mut Rng| if rng.chance(1, 2) { format!("{}", edge(rng, 32)) } else { "-".to_string() };
        let sai = opt32(rng);
        let sii = opt32(rng);
        let ascii_dn = rng.chance(3, 4);
        let dn = txt_string(rng, 12, ascii_dn);
        let pi = txt_string(rng, 12, true);
        let dt = if rng.chance(1, 2) { format!("{}", edge(rng, 16)) } else { "-".to_string() };
        push(
            "MC",
            format!(
                "{} {} {} {} {} {} {} {} {} {} {} {}",
                disc,
                rng.below(2),
                edge(rng, 16),
                edge(rng, 16),
                sai,
                sii,
                hex(dn.as_bytes()),
                hex(pi.as_bytes()),
                edge(rng, 32),
                dt,
                rng.below(2),
                *rng.pick(&["-", "0", "1"])
            ),
        );
    }
    let numstr = |rng: &mut Rng| -> String {
        match rng.below(12) {
            0 => String::new(),
            1 => "+".into(),
            2 => format!("+{}", rng.below(70000)),
            3 => format!("-{}", rng.below(10)),
            4 => format!("0{}", rng.below(5000)),
            5 => format!("{}", edge(rng, 33)),
            6 => "65535".into(),
            7 => "65536".into(),
            8 => "4294967295".into(),
            9 => "4294967296".into(),
            10 => format!("{}x", rng.below(100)),
            _ => format!("{}", rng.below(5000)),
        }
    };
    for _ in 0..1500 * scale {
        let mut pairs = Vec::new();
        for _ in 0..rng.below(6) {
            let k = match rng.below(14) {
                0 => "D",
                1 => "d",
                2 => "VP",
                3 => "vp",
                4 => "CM",
                5 => "DT",
                6 => "SII",
                7 => "SAI",
                8 => "SAT",
                9 => "T",
                10 => "t",
                11 => "sii",
                12 => "DX",
                _ => "",
            }
            .to_string();
            let v = match rng.below(4) {
                0 => format!("{}+{}", numstr(rng), numstr(rng)),
                1 => txt_string(rng, 5, true),
                _ => numstr(rng),
            };
            pairs.push((k.into_bytes(), v.into_bytes()));
        }
        let o = |rng: &mut Rng, bits: u32| if rng.chance(1, 3) { format!("{}", if rng.chance(1, 2) { rng.below(5000) } else { edge(rng, bits) }) } else { "-".to_string() };
        let filt = format!("{},{},{},{},{},{}", o(rng, 12), o(rng, 4), o(rng, 16), o(rng, 16), o(rng, 32), rng.below(2));
        push("MF", format!("{} {}", filt, pairs_str(&pairs)));
    }
    for n in 0..=3usize {
        push("MTD", hex(&vec![0u8; n]));
        push("MTD", hex(&vec![0xffu8; n]));
    }
    for _ in 0..1200 * scale {
        // length-prefixed strings: mostly k=v, some without '=', some not UTF-8, some with a lying length
        let mut v = Vec::new();
        for _ in 0..rng.below(5) {
            let mut s = match rng.below(6) {
                0 => txt_string(rng, 8, false).into_bytes(),
                1 => {
                    let k = rng.below(6) as usize;
                    rb(rng, k)
                }
                _ => format!("{}={}", txt_string(rng, 3, true).replace('=', ""), txt_string(rng, 6, false)).into_bytes(),
            };
            if rng.chance(1, 10) {
                // damaged UTF-8: cut inside / overlong / surrogate / too large
                s.extend(*rng.pick(&[&[0xc0u8, 0x80][..], &[0xed, 0xa0, 0x80], &[0xf4, 0x90, 0x80, 0x80], &[0xe2, 0x82], &[0x80], &[0xf8, 0x88, 0x80, 0x80, 0x80]]));
            }
            let declared = match rng.below(8) {
                0 => s.len().saturating_add(rng.below(5) as usize),
                1 => s.len().saturating_sub(1),
                _ => s.len(),
            };
            v.push(declared.min(255) as u8);
            v.extend(s.iter().take(255));
        }
        push("MTD", hex(&v));
    }
    for _ in 0..200 * scale {
        let (a, b) = (edge(rng, 64), edge(rng, 64));
        let kind = if rng.chance(1, 2) { "o" } else { "c" };
        push("MN", format!("{} {} {}", kind, a, b));
        // labels: the right one in lower case / with one digit changed / too long / junk
        let right = if kind == "o" { format!("{:016X}-{:016X}", a, b) } else { format!("{:016X}", a) };
        let label = match rng.below(8) {
            0 => right.to_lowercase(),
            1 => {
                let mut s = right.into_bytes();
                let i = rng.below(s.len() as u64) as usize;
                s[i] = *rng.pick(b"0123456789ABCDEFabcdefG-+ ");
                String::from_utf8(s).unwrap()
            }
            2 => format!("0{}", right),
            3 => right.trim_start_matches('0').to_string(),
            4 => format!("{}-{}", right, right),
            5 => txt_string(rng, 20, true).replace('.', ""),
            6 => format!("+{}", &right[1..]),
            _ => right,
        };
        push("MI", format!("{} {} {} {}", kind, a, b, hex(label.as_bytes())));
    }
}
