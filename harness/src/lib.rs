//! Shared helpers for the correspondence-check binaries.
pub mod e2e;

/// splitmix64: every random choice of a run derives from one state.
#[derive(Clone)]
pub struct Rng(pub u64);

impl Rng {
    pub fn new(seed: u64) -> Self {
        Rng(seed ^ 0x9E37_79B9_7F4A_7C15)
    }
    pub fn next(&mut self) -> u64 {
        self.0 = self.0.wrapping_add(0x9E37_79B9_7F4A_7C15);
        let mut z = self.0;
        z = (z ^ (z >> 30)).wrapping_mul(0xBF58_476D_1CE4_E5B9);
        z = (z ^ (z >> 27)).wrapping_mul(0x94D0_49BB_1331_11EB);
        z ^ (z >> 31)
    }
    /// uniform in [0, n)
    pub fn below(&mut self, n: u64) -> u64 {
        if n == 0 {
            0
        } else {
            self.next() % n
        }
    }
    pub fn range(&mut self, lo: u64, hi: u64) -> u64 {
        lo + self.below(hi - lo + 1)
    }
    pub fn chance(&mut self, num: u64, den: u64) -> bool {
        self.below(den) < num
    }
    pub fn pick<'a, T>(&mut self, xs: &'a [T]) -> &'a T {
        &xs[self.below(xs.len() as u64) as usize]
    }
}

/// FNV-1a style 64-bit digest over a stream of u64 words (one multiply per word).
#[derive(Clone, Copy)]
pub struct Digest(pub u64);

impl Digest {
    pub fn new() -> Self {
        Digest(0xcbf2_9ce4_8422_2325)
    }
    #[inline]
    pub fn push(&mut self, x: u64) {
        self.0 = (self.0 ^ x).wrapping_mul(0x0000_0100_0000_01b3);
    }
}

impl Default for Digest {
    fn default() -> Self {
        Self::new()
    }
}

pub fn seed_from_env() -> u64 {
    std::env::var("VERIF_SEED")
        .ok()
        .and_then(|s| s.parse::<u64>().ok())
        .unwrap_or(1)
}

/// Run `f`, mapping a panic to `Err(message)`.
pub fn catch<T>(f: impl FnOnce() -> T + std::panic::UnwindSafe) -> Result<T, String> {
    std::panic::catch_unwind(f).map_err(|e| {
        if let Some(s) = e.downcast_ref::<&str>() {
            s.to_string()
        } else if let Some(s) = e.downcast_ref::<String>() {
            s.clone()
        } else {
            "panic".to_string()
        }
    })
}

pub fn silence_panics() {
    std::panic::set_hook(Box::new(|_| {}));
}
