//! In-process end-to-end rig: real `Matter` instances joined by an in-memory
//! datagram network whose every datagram is decided by a script (deliver /
//! drop / duplicate / hold back behind later datagrams) and recorded by a tap;
//! an in-memory key-value store with fault injection and an operation log.
//!
//! Pattern follows rs-matter/tests/common/e2e.rs (two `Matter` objects, sessions
//! pre-set with `ReservedSession`), but the network is adversarial.
use core::net::{Ipv4Addr, SocketAddr, SocketAddrV4};
use core::num::NonZeroU8;
use std::cell::RefCell;
use std::collections::{BTreeMap, VecDeque};
use std::rc::Rc;
use std::time::Instant;

use rs_matter::crypto::Crypto;
use rs_matter::dm::clusters::basic_info::BasicInfoConfig;
use rs_matter::dm::devices::test::{TEST_DEV_ATT, TEST_DEV_COMM, TEST_DEV_DET};
use rs_matter::error::{Error, ErrorCode};
use rs_matter::persist::KvBlobStore;
use rs_matter::transport::network::{Address, NetworkReceive, NetworkSend};
use rs_matter::transport::session::{NocCatIds, ReservedSession, SessionMode};
use rs_matter::Matter;

/// The address of node `n` on the in-memory network.
pub fn node_addr(n: u16) -> Address {
    Address::Udp(SocketAddr::V4(SocketAddrV4::new(
        Ipv4Addr::new(10, 0, 0, (n & 0xff) as u8),
        5540 + n,
    )))
}

#[derive(Debug, Clone, Copy, PartialEq, Eq)]
pub enum Action {
    Deliver,
    Drop,
    /// deliver twice, back to back
    Dup,
    /// deliver only after `n` later datagrams from the same source to the same
    /// destination have been handed to the network (reordering / long delay)
    Hold(u32),
    /// deliver `ms` milliseconds later (needs `Net::pump` running)
    Delay(u32),
}

#[derive(Debug, Clone)]
pub struct TapEntry {
    pub src: u16,
    pub dst: u16,
    /// index of this datagram among those sent src -> dst
    pub idx: usize,
    pub bytes: Vec<u8>,
    pub t_ms: u64,
    pub t_us: u64,
    pub action: Action,
}

type Script = Box<dyn FnMut(u16, u16, usize, &[u8]) -> Action>;

struct NetInner {
    addrs: BTreeMap<u16, Address>,
    queues: BTreeMap<u16, VecDeque<(Vec<u8>, u16)>>,
    wakers: BTreeMap<u16, Option<core::task::Waker>>,
    counts: BTreeMap<(u16, u16), usize>,
    held: Vec<(u16, u16, u32, Vec<u8>)>,
    delayed: Vec<(u64, u16, u16, Vec<u8>)>,
    delivered: Vec<(u16, u16, usize)>,
    tap: Vec<TapEntry>,
    script: Script,
    start: Instant,
}

/// The in-memory network hub.
#[derive(Clone)]
pub struct Net(Rc<RefCell<NetInner>>);

impl Net {
    pub fn new(script: impl FnMut(u16, u16, usize, &[u8]) -> Action + 'static) -> Self {
        Net(Rc::new(RefCell::new(NetInner {
            addrs: BTreeMap::new(),
            queues: BTreeMap::new(),
            wakers: BTreeMap::new(),
            counts: BTreeMap::new(),
            held: Vec::new(),
            delayed: Vec::new(),
            delivered: Vec::new(),
            tap: Vec::new(),
            script: Box::new(script),
            start: Instant::now(),
        })))
    }

    /// A network that delivers everything.
    pub fn reliable() -> Self {
        Self::new(|_, _, _, _| Action::Deliver)
    }

    /// Attach node `n`; returns its send and receive halves.
    pub fn attach(&self, n: u16) -> (NetSend, NetRecv) {
        let mut i = self.0.borrow_mut();
        i.addrs.insert(n, node_addr(n));
        i.queues.insert(n, VecDeque::new());
        i.wakers.insert(n, None);
        (
            NetSend {
                net: self.clone(),
                me: n,
            },
            NetRecv {
                net: self.clone(),
                me: n,
            },
        )
    }

    pub fn tap(&self) -> Vec<TapEntry> {
        self.0.borrow().tap.clone()
    }

    /// (src, dst, length) of every datagram copy handed to a receiver so far.
    pub fn delivered(&self) -> Vec<(u16, u16, usize)> {
        self.0.borrow().delivered.clone()
    }

    pub fn elapsed_ms(&self) -> u64 {
        self.0.borrow().start.elapsed().as_millis() as u64
    }

    /// Delivers `Action::Delay` datagrams when they fall due; run it next to the nodes.
    pub async fn pump(&self) -> Result<(), Error> {
        loop {
            embassy_time::Timer::after(embassy_time::Duration::from_millis(1)).await;
            let mut i = self.0.borrow_mut();
            let now = i.start.elapsed().as_micros() as u64;
            let mut due: Vec<(u64, u16, u16, Vec<u8>)> = Vec::new();
            let mut k = 0;
            while k < i.delayed.len() {
                if i.delayed[k].0 <= now {
                    due.push(i.delayed.remove(k));
                } else {
                    k += 1;
                }
            }
            due.sort_by_key(|d| d.0);
            for (_, src, dst, b) in due {
                Self::enqueue(&mut i, src, dst, b);
            }
        }
    }

    /// Inject a raw datagram towards `dst` as if sent by `src` (bypasses the script).
    pub fn inject(&self, src: u16, dst: u16, bytes: &[u8]) {
        let mut i = self.0.borrow_mut();
        Self::enqueue(&mut i, src, dst, bytes.to_vec());
    }

    fn enqueue(i: &mut NetInner, src: u16, dst: u16, bytes: Vec<u8>) {
        if let Some(q) = i.queues.get_mut(&dst) {
            i.delivered.push((src, dst, bytes.len()));
            q.push_back((bytes, src));
            if let Some(Some(w)) = i.wakers.get_mut(&dst).map(|w| w.take()) {
                w.wake();
            }
        }
    }

    fn send(&self, src: u16, addr: Address, data: &[u8]) {
        let mut i = self.0.borrow_mut();
        let dst = match i.addrs.iter().find(|(_, a)| **a == addr) {
            Some((n, _)) => *n,
            None => return, // unknown destination: lost
        };
        let idx = {
            let c = i.counts.entry((src, dst)).or_insert(0);
            let v = *c;
            *c += 1;
            v
        };
        let action = (i.script)(src, dst, idx, data);
        let t_us = i.start.elapsed().as_micros() as u64;
        let t_ms = t_us / 1000;
        i.tap.push(TapEntry {
            src,
            dst,
            idx,
            bytes: data.to_vec(),
            t_ms,
            t_us,
            action,
        });
        match action {
            Action::Deliver => Self::enqueue(&mut i, src, dst, data.to_vec()),
            Action::Drop => {}
            Action::Dup => {
                Self::enqueue(&mut i, src, dst, data.to_vec());
                Self::enqueue(&mut i, src, dst, data.to_vec());
            }
            Action::Hold(n) => i.held.push((src, dst, n.max(1), data.to_vec())),
            Action::Delay(ms) => {
                let due = t_us + ms as u64 * 1000;
                i.delayed.push((due, src, dst, data.to_vec()));
            }
        }
        if !matches!(action, Action::Hold(_) | Action::Delay(_)) {
            // release held datagrams of this flow whose count expired
            let mut release = Vec::new();
            for h in i.held.iter_mut() {
                if h.0 == src && h.1 == dst {
                    h.2 -= 1;
                    if h.2 == 0 {
                        release.push(h.3.clone());
                    }
                }
            }
            i.held.retain(|h| !(h.0 == src && h.1 == dst && h.2 == 0));
            for b in release {
                Self::enqueue(&mut i, src, dst, b);
            }
        }
    }
}

pub struct NetSend {
    net: Net,
    me: u16,
}

pub struct NetRecv {
    net: Net,
    me: u16,
}

impl NetworkSend for NetSend {
    async fn send_to(&mut self, data: &[u8], addr: Address) -> Result<(), Error> {
        self.net.send(self.me, addr, data);
        Ok(())
    }
}

impl NetworkReceive for NetRecv {
    async fn wait_available(&mut self) -> Result<(), Error> {
        core::future::poll_fn(|cx| {
            let mut i = self.net.0.borrow_mut();
            if i.queues.get(&self.me).map(|q| !q.is_empty()).unwrap_or(false) {
                core::task::Poll::Ready(())
            } else {
                i.wakers.insert(self.me, Some(cx.waker().clone()));
                core::task::Poll::Pending
            }
        })
        .await;
        Ok(())
    }

    async fn recv_from(&mut self, buffer: &mut [u8]) -> Result<(usize, Address), Error> {
        self.wait_available().await?;
        let mut i = self.net.0.borrow_mut();
        let (bytes, src) = i.queues.get_mut(&self.me).unwrap().pop_front().unwrap();
        let addr = i.addrs[&src];
        let n = bytes.len().min(buffer.len());
        buffer[..n].copy_from_slice(&bytes[..n]);
        Ok((n, addr))
    }
}

// ---------------------------------------------------------------- key-value store

#[derive(Debug, Clone, PartialEq, Eq)]
pub enum KvOp {
    Store(u16, Vec<u8>),
    Remove(u16),
    /// a store that was made to fail (nothing written)
    StoreFailed(u16),
}

#[derive(Default)]
struct KvInner {
    blobs: BTreeMap<u16, Vec<u8>>,
    log: Vec<KvOp>,
    /// fail the n-th (0-based) store from now on, once each
    fail_stores: Vec<usize>,
    stores_seen: usize,
}

/// In-memory `KvBlobStore` that retains data, logs every mutation and can be
/// told to fail given store operations.
#[derive(Clone, Default)]
pub struct MemKv(Rc<RefCell<KvInner>>);

impl MemKv {
    pub fn new() -> Self {
        Self::default()
    }
    pub fn from_blobs(blobs: BTreeMap<u16, Vec<u8>>) -> Self {
        let kv = Self::default();
        kv.0.borrow_mut().blobs = blobs;
        kv
    }
    pub fn fail_store_number(&self, n: usize) {
        self.0.borrow_mut().fail_stores.push(n);
    }
    pub fn blobs(&self) -> BTreeMap<u16, Vec<u8>> {
        self.0.borrow().blobs.clone()
    }
    pub fn log(&self) -> Vec<KvOp> {
        self.0.borrow().log.clone()
    }
    pub fn clear_log(&self) {
        self.0.borrow_mut().log.clear();
    }
    /// The store contents after applying only the first `n` logged operations to `base`.
    pub fn replay_prefix(base: &BTreeMap<u16, Vec<u8>>, log: &[KvOp], n: usize) -> BTreeMap<u16, Vec<u8>> {
        let mut m = base.clone();
        for op in &log[..n.min(log.len())] {
            match op {
                KvOp::Store(k, v) => {
                    m.insert(*k, v.clone());
                }
                KvOp::Remove(k) => {
                    m.remove(k);
                }
                KvOp::StoreFailed(_) => {}
            }
        }
        m
    }
}

impl KvBlobStore for MemKv {
    fn load<'a>(&mut self, key: u16, buf: &'a mut [u8]) -> Result<Option<&'a [u8]>, Error> {
        let i = self.0.borrow();
        match i.blobs.get(&key) {
            Some(v) => {
                if v.len() > buf.len() {
                    return Err(ErrorCode::NoSpace.into());
                }
                buf[..v.len()].copy_from_slice(v);
                Ok(Some(&buf[..v.len()]))
            }
            None => Ok(None),
        }
    }

    fn store(&mut self, key: u16, data: &[u8], _buf: &mut [u8]) -> Result<(), Error> {
        let mut i = self.0.borrow_mut();
        let n = i.stores_seen;
        i.stores_seen += 1;
        if let Some(pos) = i.fail_stores.iter().position(|x| *x == n) {
            i.fail_stores.remove(pos);
            i.log.push(KvOp::StoreFailed(key));
            return Err(ErrorCode::StdIoError.into());
        }
        i.blobs.insert(key, data.to_vec());
        i.log.push(KvOp::Store(key, data.to_vec()));
        Ok(())
    }

    fn remove(&mut self, key: u16, _buf: &mut [u8]) -> Result<(), Error> {
        let mut i = self.0.borrow_mut();
        i.blobs.remove(&key);
        i.log.push(KvOp::Remove(key));
        Ok(())
    }
}

// ---------------------------------------------------------------- nodes

/// A leaked `BasicInfoConfig` with the given MRP active/idle intervals (ms): small
/// values make retransmission ladders run in tens of milliseconds.
pub fn dev_det(sai_ms: Option<u32>, sii_ms: Option<u32>) -> &'static BasicInfoConfig<'static> {
    Box::leak(Box::new(BasicInfoConfig {
        sai: sai_ms,
        sii: sii_ms,
        ..TEST_DEV_DET
    }))
}

/// A fresh `Matter` with one (empty) fabric at index 1, like the repo's e2e tests.
pub fn new_matter(dev_det: &'static BasicInfoConfig<'static>, with_fabric: bool) -> Matter<'static> {
    let matter = Matter::new(dev_det, TEST_DEV_COMM, &TEST_DEV_ATT, 5540);
    if with_fabric {
        matter.with_state(|state| {
            state.fabrics.add_with_post_init(|_| Ok(())).unwrap();
        });
    }
    matter
}

/// Install an established CASE session (no handshake) between `matter` and the peer.
#[allow(clippy::too_many_arguments)]
pub fn preset_case_session<C: Crypto>(
    matter: &Matter<'_>,
    crypto: C,
    local_nodeid: u64,
    peer_nodeid: u64,
    local_sess_id: u16,
    peer_sess_id: u16,
    peer_addr: Address,
    fab_idx: u8,
    cat_ids: NocCatIds,
) -> Result<(), Error> {
    let mut session = ReservedSession::reserve_now(matter, crypto)?;
    session.update(
        local_nodeid,
        peer_nodeid,
        peer_sess_id,
        local_sess_id,
        peer_addr,
        SessionMode::Case {
            fab_idx: NonZeroU8::new(fab_idx).unwrap(),
            cat_ids,
        },
        None,
        None,
        None,
        None,
    )?;
    session.complete();
    Ok(())
}

/// Install an established secure session of any mode (no handshake); returns its unique id.
pub fn preset_session<C: Crypto>(
    matter: &Matter<'_>,
    crypto: C,
    local_nodeid: u64,
    peer_nodeid: u64,
    local_sess_id: u16,
    peer_sess_id: u16,
    peer_addr: Address,
    mode: SessionMode,
) -> Result<u32, Error> {
    let mut session = ReservedSession::reserve_now(matter, crypto)?;
    session.update(local_nodeid, peer_nodeid, peer_sess_id, local_sess_id, peer_addr, mode, None, None, None, None)?;
    session.complete();
    Ok(matter.with_state(|st| {
        st.verif_sessions()
            .iter()
            .find(|s| s.get_local_sess_id() == local_sess_id)
            .map(|s| s.id())
            .unwrap()
    }))
}

/// Drive a future to completion on this thread with the embassy std time driver.
pub fn block_on<F: core::future::Future>(f: F) -> F::Output {
    futures_lite::future::block_on(f)
}

/// `Some(output)` if `f` finishes within `ms`, else `None`.
pub async fn with_timeout<F: core::future::Future>(ms: u64, f: F) -> Option<F::Output> {
    use embassy_futures::select::{select, Either};
    match select(f, embassy_time::Timer::after(embassy_time::Duration::from_millis(ms))).await {
        Either::First(v) => Some(v),
        Either::Second(_) => None,
    }
}

// ---------------------------------------------------------------- fabrics with real credentials

/// Mints one RCAC and two NOCs under it and installs the same fabric (index 1) in
/// both nodes, as rs-matter/tests/case.rs does. Returns the fabric indices.
pub fn install_shared_fabric<C: Crypto>(
    crypto: &C,
    matter_a: &Matter<'_>,
    node_a: u64,
    matter_b: &Matter<'_>,
    node_b: u64,
) -> Result<(NonZeroU8, NonZeroU8), Error> {
    use rs_matter::cert::gen::VALID_FOREVER;
    use rs_matter::cert::MAX_CERT_TLV_AND_ASN1_LEN;
    use rs_matter::crypto::{
        CanonAeadKey, CanonPkcSecretKey, RngCore, SecretKey, SigningSecretKey, AEAD_CANON_KEY_LEN,
    };
    use rs_matter::onboard::cac::RcacGenerator;
    use rs_matter::onboard::noc::NocGenerator;

    const FABRIC_ID: u64 = 1;
    let mut rcac_buf = [0u8; MAX_CERT_TLV_AND_ASN1_LEN];
    let mut rcac_gen = RcacGenerator::new(&mut rcac_buf);
    let (rcac_privkey, rcac) = rcac_gen.generate(crypto, FABRIC_ID, VALID_FOREVER)?;
    let mut noc_buf = [0u8; MAX_CERT_TLV_AND_ASN1_LEN];
    let mut noc_generator = NocGenerator::create(rcac_privkey.reference(), rcac, &[], &mut noc_buf)?;

    let mut ipk = CanonAeadKey::new();
    let mut ipk_bytes = [0u8; AEAD_CANON_KEY_LEN];
    crypto.rand()?.fill_bytes(&mut ipk_bytes);
    ipk.load_from_array(&ipk_bytes);

    let mut idx = [NonZeroU8::new(1).unwrap(); 2];
    for (i, (matter, node)) in [(matter_a, node_a), (matter_b, node_b)].into_iter().enumerate() {
        let secret_key = crypto.generate_secret_key()?;
        let mut csr_buf = [0u8; 256];
        let csr = secret_key.csr(&mut csr_buf)?;
        let mut secret_key_canon = CanonPkcSecretKey::new();
        secret_key.write_canon(&mut secret_key_canon)?;
        let noc = noc_generator.generate(crypto, csr, node, &[], VALID_FOREVER)?;
        idx[i] = matter.with_state(|state| {
            state
                .fabrics
                .add(
                    crypto,
                    secret_key_canon.reference(),
                    rcac,
                    noc,
                    &[],
                    Some(ipk.reference()),
                    0xFFF1,
                    node_a,
                )
                .map(|f| f.fab_idx())
        })?;
    }
    Ok((idx[0], idx[1]))
}

/// (source node as attached to the net, session id, message counter) of a tapped datagram.
pub fn plain_key(t: &TapEntry) -> Option<(u16, u16, u32)> {
    use rs_matter::transport::packet::PacketHdr;
    use rs_matter::utils::storage::ParseBuf;
    let mut data = t.bytes.clone();
    let mut pb = ParseBuf::new(data.as_mut_slice());
    let mut hdr = PacketHdr::new();
    hdr.decode_plain_hdr(&mut pb).ok()?;
    Some((t.src, hdr.plain.sess_id, hdr.plain.ctr))
}
