//! C16: the zoo of derived types (same numbering as `zoo` in coq/theories/Model/TlvDerive.v),
//! a dynamic value (`DVal`, the model's `dval`) with its canonical text form, and the conversions
//! between `DVal` and each concrete type.  Included by harness/src/bin/c16.rs.
#![allow(dead_code)]

use rs_matter::error::Error;
use rs_matter::im::{AttrPath, ClusterPath, CmdPath, DataVersionFilter, EventPath, TimedReq};
use rs_matter::tlv::{
    FromTLV, Nullable, OctetStr, Octets, TLVElement, TLVTag, TLVWrite, ToTLV, Utf8Str,
};
use rs_matter::utils::storage::{Vec as MVec, WriteBuf};

// ------------------------------------------------------------------ dynamic values

#[derive(Debug, Clone, PartialEq)]
pub enum DVal {
    Int(i128),
    Bool(bool),
    Bits(u64),
    Bytes(Vec<u8>),
    None,
    Some(Box<DVal>),
    Null,
    NN(Box<DVal>),
    List(Vec<DVal>),
    Rec(Vec<DVal>),
    Var(usize, Box<DVal>),
    Unit(usize),
}

fn hex(b: &[u8]) -> String {
    b.iter().map(|x| format!("{:02x}", x)).collect()
}

fn unhex(s: &str) -> Vec<u8> {
    (0..s.len() / 2)
        .map(|i| u8::from_str_radix(&s[2 * i..2 * i + 2], 16).unwrap())
        .collect()
}

impl DVal {
    /// canonical text: i<z> b0|b1 f<bits> x<hex> - +<v> ~ !<v> [v;v] {v;v} <i:v> #i
    pub fn show(&self) -> String {
        match self {
            DVal::Int(z) => format!("i{}", z),
            DVal::Bool(b) => format!("b{}", *b as u8),
            DVal::Bits(n) => format!("f{}", n),
            DVal::Bytes(s) => format!("x{}", hex(s)),
            DVal::None => "-".into(),
            DVal::Some(v) => format!("+{}", v.show()),
            DVal::Null => "~".into(),
            DVal::NN(v) => format!("!{}", v.show()),
            DVal::List(l) => format!("[{}]", l.iter().map(|v| v.show()).collect::<Vec<_>>().join(";")),
            DVal::Rec(l) => format!("{{{}}}", l.iter().map(|v| v.show()).collect::<Vec<_>>().join(";")),
            DVal::Var(i, v) => format!("<{}:{}>", i, v.show()),
            DVal::Unit(i) => format!("#{}", i),
        }
    }

    pub fn parse(s: &str) -> DVal {
        let b = s.as_bytes();
        let (v, n) = Self::parse_at(b, 0);
        assert_eq!(n, b.len(), "trailing text in value {}", s);
        v
    }

    fn parse_seq(b: &[u8], mut i: usize, close: u8) -> (Vec<DVal>, usize) {
        let mut l = Vec::new();
        if b[i] == close {
            return (l, i + 1);
        }
        loop {
            let (v, n) = Self::parse_at(b, i);
            l.push(v);
            i = n;
            if b[i] == b';' {
                i += 1;
            } else {
                assert_eq!(b[i], close);
                return (l, i + 1);
            }
        }
    }

    fn parse_at(b: &[u8], i: usize) -> (DVal, usize) {
        let num_end = |mut j: usize| {
            while j < b.len() && (b[j].is_ascii_hexdigit() || b[j] == b'-') {
                j += 1;
            }
            j
        };
        match b[i] {
            b'i' => {
                let mut j = i + 1;
                if j < b.len() && b[j] == b'-' {
                    j += 1;
                }
                while j < b.len() && b[j].is_ascii_digit() {
                    j += 1;
                }
                (
                    DVal::Int(std::str::from_utf8(&b[i + 1..j]).unwrap().parse().unwrap()),
                    j,
                )
            }
            b'b' => (DVal::Bool(b[i + 1] == b'1'), i + 2),
            b'f' => {
                let mut j = i + 1;
                while j < b.len() && b[j].is_ascii_digit() {
                    j += 1;
                }
                (
                    DVal::Bits(std::str::from_utf8(&b[i + 1..j]).unwrap().parse().unwrap()),
                    j,
                )
            }
            b'x' => {
                let mut j = i + 1;
                while j < b.len() && b[j].is_ascii_hexdigit() {
                    j += 1;
                }
                let _ = num_end;
                (DVal::Bytes(unhex(std::str::from_utf8(&b[i + 1..j]).unwrap())), j)
            }
            b'-' => (DVal::None, i + 1),
            b'~' => (DVal::Null, i + 1),
            b'+' => {
                let (v, n) = Self::parse_at(b, i + 1);
                (DVal::Some(Box::new(v)), n)
            }
            b'!' => {
                let (v, n) = Self::parse_at(b, i + 1);
                (DVal::NN(Box::new(v)), n)
            }
            b'[' => {
                let (l, n) = Self::parse_seq(b, i + 1, b']');
                (DVal::List(l), n)
            }
            b'{' => {
                let (l, n) = Self::parse_seq(b, i + 1, b'}');
                (DVal::Rec(l), n)
            }
            b'<' => {
                let mut j = i + 1;
                while b[j] != b':' {
                    j += 1;
                }
                let idx: usize = std::str::from_utf8(&b[i + 1..j]).unwrap().parse().unwrap();
                let (v, n) = Self::parse_at(b, j + 1);
                assert_eq!(b[n], b'>');
                (DVal::Var(idx, Box::new(v)), n + 1)
            }
            b'#' => {
                let mut j = i + 1;
                while j < b.len() && b[j].is_ascii_digit() {
                    j += 1;
                }
                (
                    DVal::Unit(std::str::from_utf8(&b[i + 1..j]).unwrap().parse().unwrap()),
                    j,
                )
            }
            c => panic!("bad value text at {}: {}", i, c as char),
        }
    }
}

/// conversion between the dynamic value and a concrete (possibly borrowing) type
pub trait D<'a>: Sized {
    fn from_d(v: &'a DVal) -> Self;
    fn to_d(&self) -> DVal;
}

macro_rules! d_int {
    ($($t:ty)*) => {$(
        impl<'a> D<'a> for $t {
            fn from_d(v: &'a DVal) -> Self {
                match v { DVal::Int(z) => *z as $t, _ => panic!("int expected, got {:?}", v) }
            }
            fn to_d(&self) -> DVal { DVal::Int(*self as i128) }
        }
    )*};
}
d_int!(u8 u16 u32 u64 i8 i16 i32 i64);

impl<'a> D<'a> for bool {
    fn from_d(v: &'a DVal) -> Self {
        match v {
            DVal::Bool(b) => *b,
            _ => panic!("bool expected"),
        }
    }
    fn to_d(&self) -> DVal {
        DVal::Bool(*self)
    }
}
impl<'a> D<'a> for f32 {
    fn from_d(v: &'a DVal) -> Self {
        match v {
            DVal::Bits(b) => f32::from_bits(*b as u32),
            _ => panic!("bits expected"),
        }
    }
    fn to_d(&self) -> DVal {
        DVal::Bits(self.to_bits() as u64)
    }
}
impl<'a> D<'a> for f64 {
    fn from_d(v: &'a DVal) -> Self {
        match v {
            DVal::Bits(b) => f64::from_bits(*b),
            _ => panic!("bits expected"),
        }
    }
    fn to_d(&self) -> DVal {
        DVal::Bits(self.to_bits())
    }
}
impl<'a> D<'a> for Octets<'a> {
    fn from_d(v: &'a DVal) -> Self {
        match v {
            DVal::Bytes(b) => Octets(b),
            _ => panic!("bytes expected"),
        }
    }
    fn to_d(&self) -> DVal {
        DVal::Bytes(self.0.to_vec())
    }
}
impl<'a> D<'a> for &'a str {
    fn from_d(v: &'a DVal) -> Self {
        match v {
            DVal::Bytes(b) => core::str::from_utf8(b).unwrap(),
            _ => panic!("bytes expected"),
        }
    }
    fn to_d(&self) -> DVal {
        DVal::Bytes(self.as_bytes().to_vec())
    }
}
impl<'a, T: D<'a>> D<'a> for Option<T> {
    fn from_d(v: &'a DVal) -> Self {
        match v {
            DVal::None => None,
            DVal::Some(x) => Some(T::from_d(x)),
            _ => panic!("option expected"),
        }
    }
    fn to_d(&self) -> DVal {
        match self {
            None => DVal::None,
            Some(x) => DVal::Some(Box::new(x.to_d())),
        }
    }
}
impl<'a, T: D<'a>> D<'a> for Nullable<T> {
    fn from_d(v: &'a DVal) -> Self {
        match v {
            DVal::Null => Nullable::none(),
            DVal::NN(x) => Nullable::some(T::from_d(x)),
            _ => panic!("nullable expected"),
        }
    }
    fn to_d(&self) -> DVal {
        match self.as_opt_ref() {
            None => DVal::Null,
            Some(x) => DVal::NN(Box::new(x.to_d())),
        }
    }
}
impl<'a, T: D<'a>, const N: usize> D<'a> for MVec<T, N> {
    fn from_d(v: &'a DVal) -> Self {
        match v {
            DVal::List(l) => {
                let mut r = MVec::new();
                for x in l {
                    if r.push(T::from_d(x)).is_err() {
                        panic!("value list longer than the Vec capacity");
                    }
                }
                r
            }
            _ => panic!("list expected"),
        }
    }
    fn to_d(&self) -> DVal {
        DVal::List(self.iter().map(|x| x.to_d()).collect())
    }
}
impl<'a, T: D<'a> + core::fmt::Debug, const N: usize> D<'a> for [T; N] {
    fn from_d(v: &'a DVal) -> Self {
        match v {
            DVal::List(l) => {
                let r: Vec<T> = l.iter().map(|x| T::from_d(x)).collect();
                r.try_into().expect("value list of the wrong length for the array")
            }
            _ => panic!("list expected"),
        }
    }
    fn to_d(&self) -> DVal {
        DVal::List(self.iter().map(|x| x.to_d()).collect())
    }
}

macro_rules! d_struct {
    ($name:ident { $($f:ident),* }) => {
        impl<'a> D<'a> for $name {
            fn from_d(v: &'a DVal) -> Self {
                match v {
                    DVal::Rec(l) => { let mut it = l.iter(); Self { $($f: D::from_d(it.next().unwrap())),* } }
                    _ => panic!("record expected"),
                }
            }
            fn to_d(&self) -> DVal { DVal::Rec(vec![$(self.$f.to_d()),*]) }
        }
    };
    ($name:ident<'a> { $($f:ident),* }) => {
        impl<'a> D<'a> for $name<'a> {
            fn from_d(v: &'a DVal) -> Self {
                match v {
                    DVal::Rec(l) => { let mut it = l.iter(); Self { $($f: D::from_d(it.next().unwrap())),* } }
                    _ => panic!("record expected"),
                }
            }
            fn to_d(&self) -> DVal { DVal::Rec(vec![$(self.$f.to_d()),*]) }
        }
    };
}

// ------------------------------------------------------------------ the zoo

// 0
#[derive(Debug, Clone, PartialEq, FromTLV, ToTLV)]
pub struct Inner {
    pub a: u8,
    pub b: Option<i32>,
    pub c: bool,
}
d_struct!(Inner { a, b, c });

// 1
#[derive(Debug, Clone, PartialEq, FromTLV, ToTLV)]
pub struct Ints {
    pub a: u8,
    pub b: u16,
    pub c: u32,
    pub d: u64,
    pub e: i8,
    pub f: i16,
    pub g: i32,
    pub h: i64,
}
d_struct!(Ints { a, b, c, d, e, f, g, h });

// 2
#[derive(Debug, Clone, PartialEq, FromTLV, ToTLV)]
#[tlvargs(lifetime = "'a")]
pub struct Misc<'a> {
    pub flag: bool,
    pub octets: OctetStr<'a>,
    pub text: Utf8Str<'a>,
    pub f: f32,
    pub g: f64,
}
d_struct!(Misc<'a> { flag, octets, text, f, g });

// 3
#[derive(Debug, Clone, PartialEq, FromTLV, ToTLV)]
#[tlvargs(lifetime = "'a")]
pub struct Opts<'a> {
    pub a: Option<u8>,
    pub b: Option<Utf8Str<'a>>,
    pub c: Option<Inner>,
    pub d: Option<Nullable<u16>>,
}
d_struct!(Opts<'a> { a, b, c, d });

// 10, 11 (declared early: used below)
#[derive(Debug, Clone, Copy, PartialEq, FromTLV, ToTLV)]
#[tlvargs(datatype = "u8")]
#[repr(u8)]
pub enum Unit8 {
    #[enumval(0)]
    A = 0,
    #[enumval(1)]
    B = 1,
    #[enumval(7)]
    C = 7,
    #[enumval(254)]
    D = 254,
}
impl<'a> D<'a> for Unit8 {
    fn from_d(v: &'a DVal) -> Self {
        match v {
            DVal::Unit(0) => Unit8::A,
            DVal::Unit(1) => Unit8::B,
            DVal::Unit(2) => Unit8::C,
            DVal::Unit(3) => Unit8::D,
            _ => panic!("unit expected"),
        }
    }
    fn to_d(&self) -> DVal {
        DVal::Unit(match self {
            Unit8::A => 0,
            Unit8::B => 1,
            Unit8::C => 2,
            Unit8::D => 3,
        })
    }
}

#[derive(Debug, Clone, Copy, PartialEq, FromTLV, ToTLV)]
#[tlvargs(datatype = "u16")]
#[repr(u16)]
pub enum Unit16 {
    #[enumval(0)]
    A = 0,
    #[enumval(300)]
    B = 300,
    #[enumval(65534)]
    C = 65534,
}
impl<'a> D<'a> for Unit16 {
    fn from_d(v: &'a DVal) -> Self {
        match v {
            DVal::Unit(0) => Unit16::A,
            DVal::Unit(1) => Unit16::B,
            DVal::Unit(2) => Unit16::C,
            _ => panic!("unit expected"),
        }
    }
    fn to_d(&self) -> DVal {
        DVal::Unit(match self {
            Unit16::A => 0,
            Unit16::B => 1,
            Unit16::C => 2,
        })
    }
}

// 4
#[derive(Debug, Clone, PartialEq, FromTLV, ToTLV)]
#[tlvargs(lifetime = "'a")]
pub struct Nulls<'a> {
    pub a: Nullable<u8>,
    pub b: Nullable<i64>,
    pub c: Nullable<bool>,
    pub d: Nullable<OctetStr<'a>>,
    pub e: Nullable<Inner>,
    pub f: Nullable<Unit8>,
}
d_struct!(Nulls<'a> { a, b, c, d, e, f });

// 5
#[derive(Debug, Clone, PartialEq, FromTLV, ToTLV)]
#[tlvargs(datatype = "list")]
pub struct AsList {
    pub x: Option<u16>,
    pub y: Option<u64>,
}
d_struct!(AsList { x, y });

// 6
#[derive(Debug, Clone, PartialEq, FromTLV, ToTLV)]
#[tlvargs(start = 3)]
pub struct Tagged {
    pub a: u8,
    pub b: u16,
    #[tagval(0xFE)]
    pub c: u8,
}
d_struct!(Tagged { a, b, c });

// 7
#[derive(Debug, Clone, PartialEq, FromTLV, ToTLV)]
#[tlvargs(lifetime = "'a", assume_ordered)]
pub struct Ordered<'a> {
    pub a: u8,
    pub b: Option<u32>,
    pub c: Utf8Str<'a>,
    #[tagval(5)]
    pub d: Option<bool>,
}
d_struct!(Ordered<'a> { a, b, c, d });

// 8
#[derive(Debug, Clone, PartialEq, FromTLV, ToTLV)]
pub enum Choice {
    First(u32),
    Second(Inner),
}
impl<'a> D<'a> for Choice {
    fn from_d(v: &'a DVal) -> Self {
        match v {
            DVal::Var(0, x) => Choice::First(D::from_d(x)),
            DVal::Var(1, x) => Choice::Second(D::from_d(x)),
            _ => panic!("variant expected"),
        }
    }
    fn to_d(&self) -> DVal {
        match self {
            Choice::First(x) => DVal::Var(0, Box::new(x.to_d())),
            Choice::Second(x) => DVal::Var(1, Box::new(x.to_d())),
        }
    }
}

// 9
#[derive(Debug, Clone, PartialEq, FromTLV, ToTLV)]
#[tlvargs(lifetime = "'a", datatype = "naked")]
pub enum Naked<'a> {
    A(u32),
    B(Utf8Str<'a>),
    C(Inner),
}
impl<'a> D<'a> for Naked<'a> {
    fn from_d(v: &'a DVal) -> Self {
        match v {
            DVal::Var(0, x) => Naked::A(D::from_d(x)),
            DVal::Var(1, x) => Naked::B(D::from_d(x)),
            DVal::Var(2, x) => Naked::C(D::from_d(x)),
            _ => panic!("variant expected"),
        }
    }
    fn to_d(&self) -> DVal {
        match self {
            Naked::A(x) => DVal::Var(0, Box::new(x.to_d())),
            Naked::B(x) => DVal::Var(1, Box::new(x.to_d())),
            Naked::C(x) => DVal::Var(2, Box::new(x.to_d())),
        }
    }
}

// 12
pub type VecU16x4 = MVec<u16, 4>;
pub type VecInnerx3 = MVec<Inner, 3>;
#[derive(Debug, Clone, PartialEq, FromTLV, ToTLV)]
pub struct Vecs {
    pub a: VecU16x4,
    pub b: VecInnerx3,
}
d_struct!(Vecs { a, b });

// 13
pub type ArrU8x3 = [u8; 3];
pub type ArrI16x2 = [i16; 2];
#[derive(Debug, Clone, PartialEq, FromTLV, ToTLV)]
pub struct Fixed {
    pub a: ArrU8x3,
    pub b: ArrI16x2,
}
d_struct!(Fixed { a, b });

// 14
#[derive(Debug, Clone, PartialEq, FromTLV, ToTLV)]
pub struct Nested {
    pub a: Inner,
    pub b: AsList,
    pub c: Choice,
    pub d: Unit8,
}
d_struct!(Nested { a, b, c, d });

// 15
#[derive(Debug, Clone, PartialEq, FromTLV, ToTLV)]
pub struct Newtype(pub u32);
impl<'a> D<'a> for Newtype {
    fn from_d(v: &'a DVal) -> Self {
        Newtype(D::from_d(v))
    }
    fn to_d(&self) -> DVal {
        self.0.to_d()
    }
}

// 16
pub type VecU8x2 = MVec<u8, 2>;
#[derive(Debug, Clone, PartialEq, FromTLV, ToTLV)]
#[tlvargs(lifetime = "'a")]
pub enum Choice3<'a> {
    #[enumval(2)]
    A(u8),
    #[enumval(5)]
    B(OctetStr<'a>),
    #[enumval(9)]
    C(VecU8x2),
}
impl<'a> D<'a> for Choice3<'a> {
    fn from_d(v: &'a DVal) -> Self {
        match v {
            DVal::Var(0, x) => Choice3::A(D::from_d(x)),
            DVal::Var(1, x) => Choice3::B(D::from_d(x)),
            DVal::Var(2, x) => Choice3::C(D::from_d(x)),
            _ => panic!("variant expected"),
        }
    }
    fn to_d(&self) -> DVal {
        match self {
            Choice3::A(x) => DVal::Var(0, Box::new(x.to_d())),
            Choice3::B(x) => DVal::Var(1, Box::new(x.to_d())),
            Choice3::C(x) => DVal::Var(2, Box::new(x.to_d())),
        }
    }
}

// 17
pub type VecVecU8 = MVec<MVec<u8, 2>, 2>;
pub type VecStrx2<'a> = MVec<Utf8Str<'a>, 2>;
#[derive(Debug, Clone, PartialEq, FromTLV, ToTLV)]
#[tlvargs(lifetime = "'a")]
pub struct VecVec<'a> {
    pub a: VecVecU8,
    pub b: Option<VecStrx2<'a>>,
}
d_struct!(VecVec<'a> { a, b });

// 20..24: wire structs of rs_matter::im
d_struct!(AttrPath { tag_compression, node, endpoint, cluster, attr, list_index });
d_struct!(EventPath { node, endpoint, cluster, event, is_urgent });
d_struct!(CmdPath { endpoint, cluster, cmd });
d_struct!(ClusterPath { node, endpoint, cluster });
d_struct!(DataVersionFilter { path, data_ver });
d_struct!(TimedReq { timeout, interaction_model_revision });

pub const ZOO: [usize; 23] = [
    0, 1, 2, 3, 4, 5, 6, 7, 8, 9, 10, 11, 12, 13, 14, 15, 16, 17, 20, 21, 22, 23, 24,
];

// ------------------------------------------------------------------ generic drivers

/// `to_tlv` into a buffer of `cap` bytes after `prefix`; returns (result ok?, as_slice)
pub fn enc_cap<'a, T: D<'a> + ToTLV>(v: &'a DVal, tag: &TLVTag, cap: usize, prefix: &[u8]) -> (bool, Vec<u8>) {
    let t = T::from_d(v);
    let mut buf = vec![0u8; cap];
    let mut wb = WriteBuf::new(&mut buf);
    wb.append(prefix).expect("prefix fits");
    let ok = t.to_tlv(tag, &mut wb).is_ok();
    (ok, wb.as_slice().to_vec())
}

/// `to_tlv` and `tlv_iter` of the value
pub fn enc<'a, T: D<'a> + ToTLV>(v: &'a DVal, tag: &TLVTag) -> Result<(Vec<u8>, Option<Vec<u8>>), Error> {
    let t = T::from_d(v);
    let mut buf = vec![0u8; 1 << 17];
    let mut wb = WriteBuf::new(&mut buf);
    t.to_tlv(tag, &mut wb)?;
    let direct = wb.as_slice().to_vec();
    let mut via_iter = Vec::new();
    for x in t.tlv_iter(tag.clone()) {
        match x {
            Ok(x) => via_iter.extend(x.bytes_iter()),
            Err(_) => return Ok((direct, None)),
        }
    }
    Ok((direct, Some(via_iter)))
}

pub fn dec<'b, T: D<'b> + FromTLV<'b>>(bytes: &'b [u8]) -> Result<DVal, Error> {
    let el = TLVElement::new(bytes);
    Ok(T::from_tlv(&el)?.to_d())
}

/// run `$f::<T>($args)` at the zoo type number `$idx`
#[macro_export]
macro_rules! zoo_dispatch {
    ($idx:expr, $f:ident, $($args:expr),*) => {
        match $idx {
            0 => $f::<$crate::zoo::Inner>($($args),*),
            1 => $f::<$crate::zoo::Ints>($($args),*),
            2 => $f::<$crate::zoo::Misc<'_>>($($args),*),
            3 => $f::<$crate::zoo::Opts<'_>>($($args),*),
            4 => $f::<$crate::zoo::Nulls<'_>>($($args),*),
            5 => $f::<$crate::zoo::AsList>($($args),*),
            6 => $f::<$crate::zoo::Tagged>($($args),*),
            7 => $f::<$crate::zoo::Ordered<'_>>($($args),*),
            8 => $f::<$crate::zoo::Choice>($($args),*),
            9 => $f::<$crate::zoo::Naked<'_>>($($args),*),
            10 => $f::<$crate::zoo::Unit8>($($args),*),
            11 => $f::<$crate::zoo::Unit16>($($args),*),
            12 => $f::<$crate::zoo::Vecs>($($args),*),
            13 => $f::<$crate::zoo::Fixed>($($args),*),
            14 => $f::<$crate::zoo::Nested>($($args),*),
            15 => $f::<$crate::zoo::Newtype>($($args),*),
            16 => $f::<$crate::zoo::Choice3<'_>>($($args),*),
            17 => $f::<$crate::zoo::VecVec<'_>>($($args),*),
            20 => $f::<rs_matter::im::AttrPath>($($args),*),
            21 => $f::<rs_matter::im::EventPath>($($args),*),
            22 => $f::<rs_matter::im::CmdPath>($($args),*),
            23 => $f::<rs_matter::im::DataVersionFilter>($($args),*),
            24 => $f::<rs_matter::im::TimedReq>($($args),*),
            other => panic!("no zoo type {}", other),
        }
    };
}

// ------------------------------------------------------------------ descriptions (for the generator only)

#[derive(Clone)]
pub enum Dty {
    Int(bool, u8),
    Bool,
    F32,
    F64,
    Octets,
    Utf8,
    Option(Box<Dty>),
    Nullable(Box<Dty>),
    Vec(usize, Box<Dty>),
    Fixed(usize, Box<Dty>),
    Struct(Vec<Dty>),
    Enum(Vec<Dty>),
    Unit(Vec<u32>),
}

pub fn zoo_dty(i: usize) -> Dty {
    use Dty::*;
    let u = |w| Int(false, w);
    let s = |w| Int(true, w);
    let o = |d: Dty| Option(Box::new(d));
    let n = |d: Dty| Nullable(Box::new(d));
    let inner = || Struct(vec![u(1), o(s(4)), Bool]);
    let aslist = || Struct(vec![o(u(2)), o(u(8))]);
    let choice = || Enum(vec![u(4), inner()]);
    let unit8 = || Unit(vec![0, 1, 7, 254]);
    match i {
        0 => inner(),
        1 => Struct(vec![u(1), u(2), u(4), u(8), s(1), s(2), s(4), s(8)]),
        2 => Struct(vec![Bool, Octets, Utf8, F32, F64]),
        3 => Struct(vec![o(u(1)), o(Utf8), o(inner()), o(n(u(2)))]),
        4 => Struct(vec![n(u(1)), n(s(8)), n(Bool), n(Octets), n(inner()), n(unit8())]),
        5 => aslist(),
        6 => Struct(vec![u(1), u(2), u(1)]),
        7 => Struct(vec![u(1), o(u(4)), Utf8, o(Bool)]),
        8 => choice(),
        9 => Enum(vec![u(4), Utf8, inner()]),
        10 => unit8(),
        11 => Unit(vec![0, 300, 65534]),
        12 => Struct(vec![Vec(4, Box::new(u(2))), Vec(3, Box::new(inner()))]),
        13 => Struct(vec![Fixed(3, Box::new(u(1))), Fixed(2, Box::new(s(2)))]),
        14 => Struct(vec![inner(), aslist(), choice(), unit8()]),
        15 => u(4),
        16 => Enum(vec![u(1), Octets, Vec(2, Box::new(u(1)))]),
        17 => Struct(vec![
            Vec(2, Box::new(Vec(2, Box::new(u(1))))),
            o(Vec(2, Box::new(Utf8))),
        ]),
        20 => Struct(vec![o(Bool), o(u(8)), o(u(2)), o(u(4)), o(u(4)), o(n(u(2)))]),
        21 => Struct(vec![o(u(8)), o(u(2)), o(u(4)), o(u(4)), o(Bool)]),
        22 => Struct(vec![o(u(2)), o(u(4)), o(u(4))]),
        23 => Struct(vec![Struct(vec![o(u(8)), u(2), u(4)]), u(4)]),
        24 => Struct(vec![u(2), o(u(1))]),
        _ => panic!("no zoo type {}", i),
    }
}

pub fn write_prefix_then<'a, W: TLVWrite>(_w: &mut W) {}
