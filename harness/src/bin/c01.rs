//! C01 correspondence harness: CASE admits only holders of a valid NOC of the addressed fabric.
//!
//! Two REAL `Matter` nodes (A = initiator / controller side, B = responder / device side) with real
//! credentials (Matter-TLV certificates built field by field, as in c19.rs, signed with test CA keys)
//! joined by an in-memory network under the control of a man in the middle that rewrites, replaces,
//! drops or duplicates the unsecured secure-channel messages of the handshake at the TLV-field level.
//! After every handshake attempt both session tables and both resumption caches are printed in a
//! canonical form (keys / resumption ids / shared secrets as equality classes).
//!
//! usage: c01 gen <quick|thorough> <seed> <outdir>   writes cases.txt + stats.json
//!        c01 run <cases-file>                       one canonical line per case from the REAL code
//!
//! Case line (same on both sides, see ocaml/c01/driver.ml):
//!   K <id> <label> clk=<R|L>:<us> certs=<tok>;<tok>;.. A=<fab>,<fab> B=<fab>,<fab> ops=<op>/<op>/..
//!     fab  = root.noc.icac.sk.ipk        indices into certs ('-' = no ICAC), signing key index, epoch key id
//!     op   = h:<fab idx at A>:<peer node id>:<script>  |  cc:<A|B>  |  rf:<A|B>:<idx>
//!     script = '-' or item+item..   item = <dir>.<k>.<action>   dir 0 = A->B, k-th distinct message of that direction
//!     action = x | d1 | u | fb:<tag>:<bit> | z:<tag> | del:<tag> | dupf:<tag> | add:<tag> | tr:<n>
//!            | st:<general>:<code> | sb:<tag>:<run>:<dir>:<k>:<srctag> | rp:<run>:<dir>:<k>
//! Output line:
//!   K <id> <op result> .. [ || <op result> .. ]        second half = the same ops with every script removed
use core::num::NonZeroU8;
use std::cell::RefCell;
use std::collections::{BTreeMap, VecDeque};
use std::fmt::Write as _;
use std::io::Write as _;
use std::rc::Rc;

use embassy_futures::select::{select, select4, Either};
use embassy_time::{Duration, Timer};

use rs_matter::cert::CertRef;
use rs_matter::crypto::{
    test_only_crypto, CanonAeadKeyRef, CanonPkcPublicKey, CanonPkcSecretKeyRef, CanonPkcSignature, Crypto,
    PublicKey, SigningSecretKey,
};
use rs_matter::dm::clusters::time_sync::{GranularityEnum, TimeSourceEnum};
use rs_matter::error::Error;
use rs_matter::respond::Responder;
use rs_matter::sc::case::CaseInitiator;
use rs_matter::sc::SecureChannel;
use rs_matter::tlv::TLVElement;
use rs_matter::transport::exchange::Exchange;
use rs_matter::transport::network::{Address, NetworkReceive, NetworkSend, NoNetwork};
use rs_matter::transport::session::SessionMode;
use rs_matter::utils::select::Coalesce;
use rs_matter::Matter;

use rsm_harness::e2e;
use rsm_harness::Rng;

const A: u16 = 1;
const B: u16 = 2;
const SAI_MS: u32 = 80;
/// a handshake that has not finished after this long is cut (the peer is gone or silent)
const OP_TIMEOUT_MS: u64 = 1300;
const SETTLE_MS: u64 = 45;

// ================================================================ abstract certificates (as c19.rs)

#[derive(Clone, Debug, PartialEq)]
enum Sig {
    Good(usize),
    Flip(usize, u16),
    Other(usize),
}

#[derive(Clone, Debug, PartialEq)]
enum Fx {
    None,
    NonCrit,
    Crit,
}

#[derive(Clone, Debug, PartialEq)]
struct ACert {
    subject: Vec<(u8, u64)>,
    issuer: Vec<(u8, u64)>,
    skid: Option<u64>,
    akid: Option<u64>,
    pk: usize,
    sig: Sig,
    nb: u32,
    na: u32,
    bc: Option<(bool, Option<u8>)>,
    ku: Option<u16>,
    eku: Option<Vec<u8>>,
    fx: Fx,
}

fn dn_str(d: &[(u8, u64)]) -> String {
    if d.is_empty() {
        ".".into()
    } else {
        d.iter().map(|(t, v)| format!("{}:{}", t, v)).collect::<Vec<_>>().join(",")
    }
}

fn opt_str<T: ToString>(o: &Option<T>) -> String {
    o.as_ref().map(|v| v.to_string()).unwrap_or_else(|| "-".into())
}

impl ACert {
    fn token(&self) -> String {
        let sig = match &self.sig {
            Sig::Good(k) => format!("{}", k),
            Sig::Flip(k, b) => format!("{}^{}", k, b),
            Sig::Other(k) => format!("{}~", k),
        };
        let bc = match &self.bc {
            None => "-".to_string(),
            Some((ca, None)) => format!("{}", *ca as u8),
            Some((ca, Some(m))) => format!("{}:{}", *ca as u8, m),
        };
        let eku = match &self.eku {
            None => "-".to_string(),
            Some(v) if v.is_empty() => ".".to_string(),
            Some(v) => v.iter().map(|x| x.to_string()).collect::<Vec<_>>().join(","),
        };
        let fx = match self.fx {
            Fx::None => "-",
            Fx::NonCrit => "n",
            Fx::Crit => "c",
        };
        format!(
            "{}/{}/{}/{}/{}/{}/{}/{}/{}/{}/{}/{}",
            dn_str(&self.subject),
            dn_str(&self.issuer),
            opt_str(&self.skid),
            opt_str(&self.akid),
            self.pk,
            sig,
            self.nb,
            self.na,
            bc,
            opt_str(&self.ku),
            eku,
            fx
        )
    }

    fn parse(s: &str) -> ACert {
        let f: Vec<&str> = s.split('/').collect();
        assert!(f.len() == 12, "bad cert token {}", s);
        let dn = |x: &str| -> Vec<(u8, u64)> {
            if x == "." {
                vec![]
            } else {
                x.split(',')
                    .map(|a| {
                        let (t, v) = a.split_once(':').unwrap();
                        (t.parse().unwrap(), v.parse().unwrap())
                    })
                    .collect()
            }
        };
        let opt = |x: &str| -> Option<u64> {
            if x == "-" {
                None
            } else {
                Some(x.parse().unwrap())
            }
        };
        let sig = if let Some((k, b)) = f[5].split_once('^') {
            Sig::Flip(k.parse().unwrap(), b.parse().unwrap())
        } else if let Some(k) = f[5].strip_suffix('~') {
            Sig::Other(k.parse().unwrap())
        } else {
            Sig::Good(f[5].parse().unwrap())
        };
        let bc = if f[8] == "-" {
            None
        } else if let Some((ca, m)) = f[8].split_once(':') {
            Some((ca == "1", Some(m.parse().unwrap())))
        } else {
            Some((f[8] == "1", None))
        };
        let eku = match f[10] {
            "-" => None,
            "." => Some(vec![]),
            x => Some(x.split(',').map(|p| p.parse().unwrap()).collect()),
        };
        let fx = match f[11] {
            "n" => Fx::NonCrit,
            "c" => Fx::Crit,
            _ => Fx::None,
        };
        ACert {
            subject: dn(f[0]),
            issuer: dn(f[1]),
            skid: opt(f[2]),
            akid: opt(f[3]),
            pk: f[4].parse().unwrap(),
            sig,
            nb: f[6].parse().unwrap(),
            na: f[7].parse().unwrap(),
            bc,
            ku: opt(f[9]).map(|v| v as u16),
            eku,
            fx,
        }
    }
}

const NKEYS: usize = 12;

struct Keys {
    sk: Vec<[u8; 32]>,
    pk: Vec<[u8; 65]>,
}

fn pub_of<C: Crypto>(crypto: &C, sk: &[u8; 32]) -> [u8; 65] {
    let key = crypto.secret_key(CanonPkcSecretKeyRef::new(sk)).unwrap();
    let mut pk = CanonPkcPublicKey::new();
    key.pub_key().unwrap().write_canon(&mut pk).unwrap();
    *pk.access()
}

impl Keys {
    fn new<C: Crypto>(crypto: &C) -> Keys {
        let mut sk = Vec::new();
        let mut pk = Vec::new();
        for i in 0..NKEYS {
            let mut s = [0u8; 32];
            for (j, b) in s.iter_mut().enumerate() {
                *b = (17 * (i as u8 + 1)) ^ (j as u8).wrapping_mul(29).wrapping_add(3);
            }
            s[0] = 0x10 + i as u8;
            pk.push(pub_of(crypto, &s));
            sk.push(s);
        }
        Keys { sk, pk }
    }
}

fn sign<C: Crypto>(crypto: &C, sk: &[u8; 32], data: &[u8]) -> [u8; 64] {
    let key = crypto.secret_key(CanonPkcSecretKeyRef::new(sk)).unwrap();
    let mut sig = CanonPkcSignature::new();
    key.sign(data, &mut sig).unwrap();
    *sig.access()
}

struct Tlv(Vec<u8>);

impl Tlv {
    fn ctl(&mut self, ty: u8, tag: Option<u8>) {
        match tag {
            Some(t) => {
                self.0.push(0x20 | ty);
                self.0.push(t);
            }
            None => self.0.push(ty),
        }
    }
    fn u8(&mut self, tag: Option<u8>, v: u8) {
        self.ctl(0x04, tag);
        self.0.push(v);
    }
    fn u16(&mut self, tag: Option<u8>, v: u16) {
        self.ctl(0x05, tag);
        self.0.extend_from_slice(&v.to_le_bytes());
    }
    fn u32(&mut self, tag: Option<u8>, v: u32) {
        self.ctl(0x06, tag);
        self.0.extend_from_slice(&v.to_le_bytes());
    }
    fn u64(&mut self, tag: Option<u8>, v: u64) {
        self.ctl(0x07, tag);
        self.0.extend_from_slice(&v.to_le_bytes());
    }
    fn boolean(&mut self, tag: Option<u8>, v: bool) {
        self.ctl(if v { 0x09 } else { 0x08 }, tag);
    }
    fn utf8(&mut self, tag: Option<u8>, s: &str) {
        self.ctl(0x0c, tag);
        self.0.push(s.len() as u8);
        self.0.extend_from_slice(s.as_bytes());
    }
    fn bytes(&mut self, tag: Option<u8>, b: &[u8]) {
        self.ctl(0x10, tag);
        self.0.push(b.len() as u8);
        self.0.extend_from_slice(b);
    }
    fn start(&mut self, ty: u8, tag: Option<u8>) {
        self.ctl(ty, tag);
    }
    fn end(&mut self) {
        self.0.push(0x18);
    }
}

fn key_id(v: u64) -> [u8; 20] {
    let mut k = [0xA5u8; 20];
    k[12..].copy_from_slice(&v.to_be_bytes());
    k
}

const FX_NON_CRITICAL: &[u8] = &[0x30, 0x0A, 0x06, 0x03, 0x55, 0x1D, 0x63, 0x01, 0x01, 0x00, 0x04, 0x00];
const FX_CRITICAL: &[u8] = &[0x30, 0x0A, 0x06, 0x03, 0x55, 0x1D, 0x63, 0x01, 0x01, 0xFF, 0x04, 0x00];

fn write_dn(t: &mut Tlv, tag: u8, dn: &[(u8, u64)]) {
    t.start(0x17, Some(tag));
    for (a, v) in dn {
        if (17..=22).contains(a) {
            t.u64(Some(*a), *v);
        } else {
            t.utf8(Some(*a), &format!("s{}", v));
        }
    }
    t.end();
}

fn encode(c: &ACert, pk: &[u8; 65], sig: Option<&[u8; 64]>) -> Vec<u8> {
    let mut t = Tlv(Vec::with_capacity(400));
    t.start(0x15, None);
    t.bytes(Some(1), &[0x01, 0x23]);
    t.u8(Some(2), 1);
    write_dn(&mut t, 3, &c.issuer);
    t.u32(Some(4), c.nb);
    t.u32(Some(5), c.na);
    write_dn(&mut t, 6, &c.subject);
    t.u8(Some(7), 1);
    t.u8(Some(8), 1);
    t.bytes(Some(9), pk);
    t.start(0x17, Some(10));
    if let Some((ca, pl)) = &c.bc {
        t.start(0x15, Some(1));
        t.boolean(Some(1), *ca);
        if let Some(m) = pl {
            t.u8(Some(2), *m);
        }
        t.end();
    }
    if let Some(k) = &c.ku {
        t.u16(Some(2), *k);
    }
    if let Some(e) = &c.eku {
        t.start(0x16, Some(3));
        for p in e {
            t.u8(None, *p);
        }
        t.end();
    }
    if let Some(s) = &c.skid {
        t.bytes(Some(4), &key_id(*s));
    }
    if let Some(a) = &c.akid {
        t.bytes(Some(5), &key_id(*a));
    }
    match c.fx {
        Fx::None => {}
        Fx::NonCrit => t.bytes(Some(6), FX_NON_CRITICAL),
        Fx::Crit => t.bytes(Some(6), FX_CRITICAL),
    }
    t.end();
    if let Some(s) = sig {
        t.bytes(Some(11), s);
    }
    t.end();
    t.0
}

/// Abstract certificate -> real signed Matter-TLV certificate.
fn build<C: Crypto>(crypto: &C, keys: &Keys, c: &ACert) -> Vec<u8> {
    let pk = &keys.pk[c.pk % NKEYS];
    let tbs = encode(c, pk, None);
    let mut asn1 = [0u8; 1024];
    let enc = rsm_harness::catch(std::panic::AssertUnwindSafe(|| {
        let mut a = [0u8; 1024];
        CertRef::new(TLVElement::new(&tbs)).as_asn1(&mut a).map(|l| (a, l))
    }));
    let len = match enc {
        Ok(Ok((a, l))) => {
            asn1 = a;
            l
        }
        _ => 8,
    };
    let sig = match &c.sig {
        Sig::Good(k) => sign(crypto, &keys.sk[*k % NKEYS], &asn1[..len]),
        Sig::Flip(k, b) => {
            let mut s = sign(crypto, &keys.sk[*k % NKEYS], &asn1[..len]);
            let b = (*b % 512) as usize;
            s[b / 8] ^= 1 << (b % 8);
            s
        }
        Sig::Other(k) => {
            asn1[len - 1] ^= 0x01;
            sign(crypto, &keys.sk[*k % NKEYS], &asn1[..len])
        }
    };
    encode(c, pk, Some(&sig))
}

// ================================================================ case description

#[derive(Clone, Debug)]
struct FabSpec {
    root: usize,
    noc: usize,
    icac: Option<usize>,
    sk: usize,
    ipk: u8,
}

impl FabSpec {
    fn token(&self) -> String {
        format!("{}.{}.{}.{}.{}", self.root, self.noc, opt_str(&self.icac), self.sk, self.ipk)
    }
    fn parse(s: &str) -> FabSpec {
        let f: Vec<&str> = s.split('.').collect();
        FabSpec {
            root: f[0].parse().unwrap(),
            noc: f[1].parse().unwrap(),
            icac: if f[2] == "-" { None } else { Some(f[2].parse().unwrap()) },
            sk: f[3].parse().unwrap(),
            ipk: f[4].parse().unwrap(),
        }
    }
}

#[derive(Clone, Debug)]
enum Act {
    DropAll,
    DropFirst,
    Dup,
    Flip(u8, u32),
    Zero(u8),
    Del(u8),
    DupField(u8),
    Add(u8),
    Trunc(usize),
    Status(u16, u16),
    Subst(u8, usize, u8, usize, u8),
    Replace(usize, u8, usize),
}

#[derive(Clone, Debug)]
struct Item {
    dir: u8,
    k: usize,
    act: Act,
}

#[derive(Clone, Debug)]
enum Op {
    Hand { fab: u8, peer: u64, script: Vec<Item> },
    ClearCache(char),
    RemoveFabric(char, u8),
    /// replace the fabric at an index by a new one (re-issued credentials): remove + add
    UpdateNoc(char, u8, FabSpec),
    /// remember / put back the resumption cache of a node (a peer that kept an old record)
    SaveCache(char),
    RestoreCache(char),
    /// an operation this version does not know: answered with '?'
    Unknown,
}

struct Case {
    id: String,
    reliable: bool,
    us: u64,
    certs: Vec<ACert>,
    a: Vec<FabSpec>,
    b: Vec<FabSpec>,
    ops: Vec<Op>,
}

fn parse_item(s: &str) -> Item {
    let (d, rest) = s.split_once('.').unwrap();
    let (k, a) = rest.split_once('.').unwrap();
    let p: Vec<&str> = a.split(':').collect();
    let n = |i: usize| -> u64 { p[i].parse().unwrap() };
    let act = match p[0] {
        "x" => Act::DropAll,
        "d1" => Act::DropFirst,
        "u" => Act::Dup,
        "fb" => Act::Flip(n(1) as u8, n(2) as u32),
        "z" => Act::Zero(n(1) as u8),
        "del" => Act::Del(n(1) as u8),
        "dupf" => Act::DupField(n(1) as u8),
        "add" => Act::Add(n(1) as u8),
        "tr" => Act::Trunc(n(1) as usize),
        "st" => Act::Status(n(1) as u16, n(2) as u16),
        "sb" => Act::Subst(n(1) as u8, n(2) as usize, n(3) as u8, n(4) as usize, n(5) as u8),
        "rp" => Act::Replace(n(1) as usize, n(2) as u8, n(3) as usize),
        other => panic!("bad action {}", other),
    };
    Item { dir: d.parse().unwrap(), k: k.parse().unwrap(), act }
}

fn parse_case(line: &str) -> Option<Case> {
    let f: Vec<&str> = line.split(' ').collect();
    if f.len() < 4 || f[0] != "K" {
        return None;
    }
    let get = |k: &str| -> &str {
        for kv in &f[3..] {
            if let Some((a, b)) = kv.split_once('=') {
                if a == k {
                    return b;
                }
            }
        }
        ""
    };
    let (ck, us) = get("clk").split_once(':').unwrap();
    let fabs = |s: &str| -> Vec<FabSpec> { s.split(',').filter(|x| !x.is_empty()).map(FabSpec::parse).collect() };
    let mut ops = Vec::new();
    for o in get("ops").split('/').filter(|x| !x.is_empty()) {
        let p: Vec<&str> = o.splitn(4, ':').collect();
        match p[0] {
            "h" => {
                let script = if p[3] == "-" { vec![] } else { p[3].split('+').map(parse_item).collect() };
                ops.push(Op::Hand { fab: p[1].parse().unwrap(), peer: p[2].parse().unwrap(), script });
            }
            "cc" => ops.push(Op::ClearCache(p[1].chars().next().unwrap())),
            "rf" => ops.push(Op::RemoveFabric(p[1].chars().next().unwrap(), p[2].parse().unwrap())),
            "un" => ops.push(Op::UpdateNoc(p[1].chars().next().unwrap(), p[2].parse().unwrap(), FabSpec::parse(p[3]))),
            "cs" => ops.push(Op::SaveCache(p[1].chars().next().unwrap())),
            "cr" => ops.push(Op::RestoreCache(p[1].chars().next().unwrap())),
            _ => ops.push(Op::Unknown),
        }
    }
    Some(Case {
        id: f[1].to_string(),
        reliable: ck == "R",
        us: us.parse().unwrap(),
        certs: get("certs").split(';').filter(|x| !x.is_empty()).map(ACert::parse).collect(),
        a: fabs(get("A")),
        b: fabs(get("B")),
        ops,
    })
}

// ================================================================ wire: packet envelope and TLV splitting

/// (offset of the protocol opcode byte, offset of the payload, message counter, session id, opcode,
/// protocol id) of an unsecured datagram
struct Env {
    exch: u16,
    opcode_at: usize,
    payload_at: usize,
    ctr: u32,
    sess: u16,
    opcode: u8,
    proto: u16,
}

fn envelope(d: &[u8]) -> Option<Env> {
    if d.len() < 8 {
        return None;
    }
    let flags = d[0];
    let sess = u16::from_le_bytes([d[1], d[2]]);
    let ctr = u32::from_le_bytes([d[4], d[5], d[6], d[7]]);
    let mut p = 8;
    if flags & 0x04 != 0 {
        p += 8;
    }
    match flags & 0x03 {
        1 => p += 8,
        2 => p += 2,
        _ => {}
    }
    if d.len() < p + 6 {
        return None;
    }
    let ex = d[p];
    let opcode = d[p + 1];
    let proto = u16::from_le_bytes([d[p + 4], d[p + 5]]);
    let mut q = p + 6;
    if ex & 0x10 != 0 {
        q += 2;
    }
    if ex & 0x02 != 0 {
        q += 4;
    }
    if d.len() < q {
        return None;
    }
    let exch = u16::from_le_bytes([d[p + 2], d[p + 3]]);
    Some(Env { exch, opcode_at: p + 1, payload_at: q, ctr, sess, opcode, proto })
}

#[derive(Clone, Debug)]
struct Elem {
    tag: Option<u8>,
    raw: Vec<u8>,
    /// value bytes of the element (of its first primitive member, for a container), relative to `raw`
    val: (usize, usize),
}

/// length of the TLV element starting at `d[0]`, and the range of its value bytes
fn elem_len(d: &[u8]) -> Option<(usize, (usize, usize))> {
    let c = *d.first()?;
    let ty = c & 0x1f;
    let mut p = 1 + match c >> 5 {
        0 => 0,
        1 => 1,
        2 | 4 => 2,
        3 | 5 => 4,
        6 => 6,
        _ => 8,
    };
    match ty {
        0x00..=0x07 => {
            let n = 1usize << (ty & 3);
            (d.len() >= p + n).then_some((p + n, (p, p + n)))
        }
        0x08 | 0x09 | 0x14 => Some((p, (p, p))),
        0x0a => (d.len() >= p + 4).then_some((p + 4, (p, p + 4))),
        0x0b => (d.len() >= p + 8).then_some((p + 8, (p, p + 8))),
        0x0c..=0x13 => {
            let ll = 1usize << (ty & 3);
            if d.len() < p + ll {
                return None;
            }
            let mut n = 0usize;
            for i in 0..ll.min(4) {
                n |= (d[p + i] as usize) << (8 * i);
            }
            p += ll;
            (d.len() >= p + n).then_some((p + n, (p, p + n)))
        }
        0x15..=0x17 => {
            let mut first: Option<(usize, usize)> = None;
            loop {
                if *d.get(p)? == 0x18 {
                    return Some((p + 1, first.unwrap_or((p, p))));
                }
                let (l, v) = elem_len(&d[p..])?;
                if first.is_none() && v.1 > v.0 {
                    first = Some((p + v.0, p + v.1));
                }
                p += l;
            }
        }
        _ => None,
    }
}

/// the members of the top-level structure of a secure-channel payload
fn split_fields(payload: &[u8]) -> Option<Vec<Elem>> {
    if payload.first() != Some(&0x15) {
        return None;
    }
    let mut p = 1;
    let mut out = Vec::new();
    while p < payload.len() && payload[p] != 0x18 {
        let (l, v) = elem_len(&payload[p..])?;
        let tag = if payload[p] >> 5 == 1 { Some(payload[p + 1]) } else { None };
        out.push(Elem { tag, raw: payload[p..p + l].to_vec(), val: v });
        p += l;
    }
    if p >= payload.len() {
        // cut off before the end of the container: left alone
        return None;
    }
    Some(out)
}

/// the first member with context tag 1 of a (possibly cut-off) top-level structure, as an octet string
fn first_ctx1(payload: &[u8]) -> Option<Vec<u8>> {
    if payload.first() != Some(&0x15) {
        return None;
    }
    let mut p = 1;
    while p < payload.len() && payload[p] != 0x18 {
        let (l, v) = elem_len(&payload[p..])?;
        if payload[p] >> 5 == 1 && payload[p + 1] == 1 {
            return ((payload[p] & 0x1c) == 0x10).then(|| payload[p + v.0..p + v.1].to_vec());
        }
        p += l;
    }
    None
}

fn join_fields(f: &[Elem], closed: bool) -> Vec<u8> {
    let mut v = vec![0x15];
    for e in f {
        v.extend_from_slice(&e.raw);
    }
    if closed {
        v.push(0x18);
    }
    v
}

/// one message as seen on the wire of a run: (direction, opcode, payload)
type WireLog = Vec<(u8, u8, Vec<u8>)>;

fn nth_of_dir(w: &WireLog, dir: u8, k: usize) -> Option<&(u8, u8, Vec<u8>)> {
    w.iter().filter(|m| m.0 == dir).nth(k)
}

/// apply one rewriting action to (opcode, payload)
fn rewrite(act: &Act, opcode: &mut u8, payload: &mut Vec<u8>, history: &[WireLog]) {
    const STATUS: u8 = 0x40;
    match act {
        Act::Status(g, c) => {
            if *opcode == STATUS && payload.len() >= 8 {
                payload[0..2].copy_from_slice(&g.to_le_bytes());
                payload[6..8].copy_from_slice(&c.to_le_bytes());
            }
            return;
        }
        Act::Replace(run, dir, k) => {
            if let Some(m) = history.get(*run).and_then(|w| nth_of_dir(w, *dir, *k)) {
                *opcode = m.1;
                *payload = m.2.clone();
            }
            return;
        }
        _ => {}
    }
    if *opcode == STATUS {
        // not TLV: (general code u16, protocol id u32, protocol code u16); field 0 = general, 1 = code
        match act {
            Act::Flip(t, bit) => {
                let base = if *t == 0 { 0 } else { 6 };
                if payload.len() >= 8 {
                    payload[base + ((*bit as usize / 8) % 2)] ^= 1 << (bit % 8);
                }
            }
            Act::Zero(t) => {
                let base = if *t == 0 { 0 } else { 6 };
                if payload.len() >= 8 {
                    payload[base] = 0;
                    payload[base + 1] = 0;
                }
            }
            Act::Trunc(n) => payload.truncate(if *n == 0 { 0 } else { 2 }),
            _ => {}
        }
        return;
    }
    let Some(mut f) = split_fields(payload) else { return };
    let pos = |f: &Vec<Elem>, t: u8| f.iter().position(|e| e.tag == Some(t));
    let mut closed = true;
    match act {
        Act::Flip(t, bit) => {
            if let Some(i) = pos(&f, *t) {
                let (a, b) = f[i].val;
                if b > a {
                    let n = (*bit as usize) % ((b - a) * 8);
                    f[i].raw[a + n / 8] ^= 1 << (n % 8);
                }
            }
        }
        Act::Zero(t) => {
            if let Some(i) = pos(&f, *t) {
                let (a, b) = f[i].val;
                for x in &mut f[i].raw[a..b] {
                    *x = 0;
                }
            }
        }
        Act::Del(t) => {
            if let Some(i) = pos(&f, *t) {
                f.remove(i);
            }
        }
        Act::DupField(t) => {
            if let Some(i) = pos(&f, *t) {
                let e = f[i].clone();
                f.insert(i + 1, e);
            }
        }
        Act::Add(t) => {
            f.push(Elem { tag: Some(*t), raw: vec![0x30, *t, 4, 0xAA, 0xAA, 0xAA, 0xAA], val: (3, 7) });
        }
        Act::Trunc(n) => {
            f.truncate(*n);
            closed = false;
        }
        Act::Subst(t, run, dir, k, st) => {
            let src = history
                .get(*run)
                .and_then(|w| nth_of_dir(w, *dir, *k))
                .and_then(|m| split_fields(&m.2))
                .and_then(|sf| sf.into_iter().find(|e| e.tag == Some(*st)));
            if let (Some(i), Some(mut s)) = (pos(&f, *t), src) {
                s.raw[1] = *t;
                s.tag = Some(*t);
                f[i] = s;
            }
        }
        _ => {}
    }
    *payload = join_fields(&f, closed);
}

// ================================================================ the network with a man in the middle

struct Mitm {
    script: Vec<Item>,
    /// message counters seen per direction, in order of first appearance
    seen: [Vec<u32>; 2],
    /// how many copies of (dir, k) went by so far
    copies: BTreeMap<(u8, usize), u32>,
    /// the current run's messages as SENT (first copy)
    wire: WireLog,
    /// previous runs
    history: Vec<WireLog>,
    /// last StatusReport handed to A: (general, code)
    last_status: Option<(u16, u16)>,
    /// exchange id of this attempt (that of the first Sigma1 the initiator sends in it).  Unsecured
    /// messages of OTHER exchanges - the CloseSession / retransmissions of an exchange a previous attempt
    /// left behind when its futures were dropped - are not part of this handshake: delivered untouched,
    /// not counted, not recorded.
    exch: Option<u16>,
    /// Sigma3 as handed to B compared with Sigma3 as sent by A: none | same | alt | diff
    /// (alt = same encrypted3 element, other bytes: the known class sigma3_alt of Model/CaseSpec.v)
    s3: &'static str,
}

struct MNetInner {
    queues: BTreeMap<u16, VecDeque<(Vec<u8>, u16)>>,
    wakers: BTreeMap<u16, Option<core::task::Waker>>,
    mitm: Mitm,
}

#[derive(Clone)]
struct MNet(Rc<RefCell<MNetInner>>);

impl MNet {
    fn new() -> Self {
        let mut queues = BTreeMap::new();
        queues.insert(A, VecDeque::new());
        queues.insert(B, VecDeque::new());
        let mut wakers = BTreeMap::new();
        wakers.insert(A, None);
        wakers.insert(B, None);
        MNet(Rc::new(RefCell::new(MNetInner {
            queues,
            wakers,
            mitm: Mitm {
                script: vec![],
                seen: [vec![], vec![]],
                copies: BTreeMap::new(),
                wire: vec![],
                history: vec![],
                last_status: None,
                exch: None,
                s3: "none",
            },
        })))
    }

    fn begin_run(&self, script: Vec<Item>) {
        let mut i = self.0.borrow_mut();
        for q in i.queues.values_mut() {
            q.clear();
        }
        let m = &mut i.mitm;
        m.script = script;
        m.seen = [vec![], vec![]];
        m.copies.clear();
        m.wire = vec![];
        m.last_status = None;
        m.exch = None;
        m.s3 = "none";
    }

    fn end_run(&self) {
        let mut i = self.0.borrow_mut();
        let w = std::mem::take(&mut i.mitm.wire);
        i.mitm.history.push(w);
        for q in i.queues.values_mut() {
            q.clear();
        }
    }

    fn enqueue(i: &mut MNetInner, src: u16, dst: u16, bytes: Vec<u8>) {
        if let Some(q) = i.queues.get_mut(&dst) {
            q.push_back((bytes, src));
            if let Some(Some(w)) = i.wakers.get_mut(&dst).map(|w| w.take()) {
                w.wake();
            }
        }
    }

    fn send(&self, src: u16, addr: Address, data: &[u8]) {
        let dst = if addr == e2e::node_addr(A) {
            A
        } else if addr == e2e::node_addr(B) {
            B
        } else {
            return;
        };
        let mut guard = self.0.borrow_mut();
        let i = &mut *guard;
        let dir: u8 = if src == A { 0 } else { 1 };
        let env = match envelope(data) {
            // only unsecured secure-channel messages other than stand-alone acknowledgements are the MITM's business
            Some(e) if e.sess == 0 && e.proto == 0 && e.opcode != 0x10 => e,
            _ => {
                Self::enqueue(i, src, dst, data.to_vec());
                return;
            }
        };
        if i.mitm.exch.is_none() && dir == 0 && env.opcode == 0x30 {
            i.mitm.exch = Some(env.exch);
        }
        if i.mitm.exch != Some(env.exch) && std::env::var_os("C01_NO_EXCH_FILTER").is_none() {
            Self::enqueue(i, src, dst, data.to_vec());
            return;
        }
        let m = &mut i.mitm;
        let k = match m.seen[dir as usize].iter().position(|c| *c == env.ctr) {
            Some(k) => k,
            None => {
                m.seen[dir as usize].push(env.ctr);
                m.wire.push((dir, env.opcode, data[env.payload_at..].to_vec()));
                m.seen[dir as usize].len() - 1
            }
        };
        let copy = {
            let c = m.copies.entry((dir, k)).or_insert(0);
            *c += 1;
            *c
        };
        let mut opcode = env.opcode;
        let mut payload = data[env.payload_at..].to_vec();
        let mut deliver = 1;
        let mut hist: Vec<WireLog> = m.history.clone();
        hist.push(m.wire.clone());
        for it in m.script.iter().filter(|it| it.dir == dir && it.k == k) {
            match &it.act {
                Act::DropAll => deliver = 0,
                Act::DropFirst => {
                    if copy == 1 {
                        deliver = 0
                    }
                }
                Act::Dup => {
                    if copy == 1 && deliver == 1 {
                        deliver = 2
                    }
                }
                a => rewrite(a, &mut opcode, &mut payload, &hist),
            }
        }
        let mut out = data[..env.payload_at].to_vec();
        out[env.opcode_at] = opcode;
        out.extend_from_slice(&payload);
        if deliver > 0 && dst == A && opcode == 0x40 && payload.len() >= 8 {
            m.last_status = Some((u16::from_le_bytes([payload[0], payload[1]]), u16::from_le_bytes([payload[6], payload[7]])));
        }
        if deliver > 0 && dir == 0 && env.opcode == 0x32 {
            let sent = &data[env.payload_at..];
            m.s3 = if opcode == 0x32 && payload == sent {
                "same"
            } else if opcode == 0x32 && first_ctx1(&payload).is_some() && first_ctx1(&payload) == first_ctx1(sent) {
                "alt"
            } else {
                "diff"
            };
        }
        for _ in 0..deliver {
            Self::enqueue(i, src, dst, out.clone());
        }
    }
}

struct MSend {
    net: MNet,
    me: u16,
}

struct MRecv {
    net: MNet,
    me: u16,
}

impl NetworkSend for MSend {
    async fn send_to(&mut self, data: &[u8], addr: Address) -> Result<(), Error> {
        self.net.send(self.me, addr, data);
        Ok(())
    }
}

impl NetworkReceive for MRecv {
    async fn wait_available(&mut self) -> Result<(), Error> {
        core::future::poll_fn(|cx| {
            let mut i = self.net.0.borrow_mut();
            if i.queues.get(&self.me).map(|q| !q.is_empty()).unwrap_or(false) {
                core::task::Poll::Ready(())
            } else {
                i.wakers.insert(self.me, Some(cx.waker().clone()));
                core::task::Poll::Pending
            }
        })
        .await;
        Ok(())
    }

    async fn recv_from(&mut self, buffer: &mut [u8]) -> Result<(usize, Address), Error> {
        self.wait_available().await?;
        let mut i = self.net.0.borrow_mut();
        let (bytes, src) = i.queues.get_mut(&self.me).unwrap().pop_front().unwrap();
        let n = bytes.len().min(buffer.len());
        buffer[..n].copy_from_slice(&bytes[..n]);
        Ok((n, e2e::node_addr(src)))
    }
}

// ================================================================ nodes

fn epoch_key(id: u8) -> [u8; 16] {
    let mut k = [0x5Au8; 16];
    k[0] = id;
    k[15] = id.wrapping_mul(7);
    k
}

fn make_node<C: Crypto>(crypto: &C, keys: &Keys, case: &Case, fabs: &[FabSpec]) -> Result<Matter<'static>, String> {
    let det = e2e::dev_det(Some(SAI_MS), Some(SAI_MS));
    let matter = e2e::new_matter(det, false);
    if case.reliable {
        matter.with_rtc(|rtc| {
            rtc.set_utc_time(case.us, GranularityEnum::MicrosecondsGranularity, TimeSourceEnum::Admin, &());
        });
    }
    for fs in fabs {
        let root = build(crypto, keys, &case.certs[fs.root]);
        let noc = build(crypto, keys, &case.certs[fs.noc]);
        let icac = fs.icac.map(|i| build(crypto, keys, &case.certs[i])).unwrap_or_default();
        let ek = epoch_key(fs.ipk);
        matter
            .with_state(|st| {
                st.fabrics
                    .add(
                        crypto,
                        CanonPkcSecretKeyRef::new(&keys.sk[fs.sk % NKEYS]),
                        &root,
                        &noc,
                        &icac,
                        Some(CanonAeadKeyRef::new(&ek)),
                        0xFFF1,
                        112233,
                    )
                    .map(|_| ())
            })
            .map_err(|e| format!("fabric-add-failed:{:?}", e.code()))?;
    }
    Ok(matter)
}

/// equality classes of byte strings, numbered in order of first appearance
#[derive(Default)]
struct Classes(Vec<Vec<u8>>);

impl Classes {
    fn of(&mut self, b: &[u8]) -> usize {
        match self.0.iter().position(|x| x.as_slice() == b) {
            Some(i) => i + 1,
            None => {
                self.0.push(b.to_vec());
                self.0.len()
            }
        }
    }
}

fn cats_str(c: &[u32]) -> String {
    let v: Vec<String> = c.iter().filter(|x| **x != 0).map(|x| x.to_string()).collect();
    if v.is_empty() {
        ".".into()
    } else {
        v.join(",")
    }
}

/// new CASE sessions of a node since `known`, plus the number of reserved sessions left
fn observe_sessions(matter: &Matter<'_>, known: &mut Vec<u32>, cls: &mut Classes) -> (String, usize) {
    let snaps: Vec<_> = matter.with_state(|st| st.verif_sessions().iter().map(|s| s.verif_snapshot()).collect());
    let mut out = Vec::new();
    let mut left = 0;
    for s in &snaps {
        if s.reserved {
            left += 1;
            continue;
        }
        if known.contains(&s.id) {
            continue;
        }
        if let SessionMode::Case { fab_idx, cat_ids } = &s.mode {
            known.push(s.id);
            out.push(format!(
                "f{}:p{}:c{}:e{}:d{}",
                fab_idx.get(),
                s.peer_nodeid.unwrap_or(0),
                cats_str(cat_ids),
                cls.of(&s.enc_key_fingerprint.to_le_bytes()),
                cls.of(&s.dec_key_fingerprint.to_le_bytes())
            ));
        }
    }
    (if out.is_empty() { "-".into() } else { out.join("&") }, left)
}

fn observe_cache(matter: &Matter<'_>, cls: &mut Classes) -> String {
    matter.with_state(|st| {
        let v: Vec<String> = st
            .resumption
            .iter()
            .map(|r| {
                format!(
                    "f{}:p{}:c{}:r{}:s{}",
                    r.fab_idx.get(),
                    r.peer_nodeid,
                    cats_str(&r.peer_cat_ids),
                    cls.of(r.resumption_id.reference().access()),
                    cls.of(r.shared_secret.reference().access())
                )
            })
            .collect();
        if v.is_empty() {
            "-".into()
        } else {
            v.join("&")
        }
    })
}

/// One scenario: fresh nodes, the ops in order. `with_scripts = false`: the untouched reference.
fn run_scenario(case: &Case, with_scripts: bool) -> String {
    let crypto = test_only_crypto();
    let keys = Keys::new(&crypto);
    let matter_a = match make_node(&crypto, &keys, case, &case.a) {
        Ok(m) => m,
        Err(e) => return format!("setup-A:{}", e),
    };
    let matter_b = match make_node(&crypto, &keys, case, &case.b) {
        Ok(m) => m,
        Err(e) => return format!("setup-B:{}", e),
    };
    let net = MNet::new();
    let mut cls = Classes::default();
    let mut known_a: Vec<u32> = Vec::new();
    let mut known_b: Vec<u32> = Vec::new();
    let mut out: Vec<String> = Vec::new();
    let mut saved_a: Vec<rs_matter::sc::case::ResumableSession> = Vec::new();
    let mut saved_b: Vec<rs_matter::sc::case::ResumableSession> = Vec::new();
    for op in &case.ops {
        match op {
            Op::Unknown => out.push("?".into()),
            Op::SaveCache(n) => {
                let m = if *n == 'A' { &matter_a } else { &matter_b };
                let v: Vec<_> = m.with_state(|st| st.resumption.iter().cloned().collect());
                if *n == 'A' {
                    saved_a = v
                } else {
                    saved_b = v
                }
                out.push("cs".into());
            }
            Op::RestoreCache(n) => {
                let m = if *n == 'A' { &matter_a } else { &matter_b };
                let v = if *n == 'A' { saved_a.clone() } else { saved_b.clone() };
                m.with_state(|st| {
                    st.resumption.reset();
                    for x in v {
                        st.resumption.insert_or_update(x);
                    }
                });
                out.push("cr".into());
            }
            Op::UpdateNoc(n, idx, fs) => {
                let m = if *n == 'A' { &matter_a } else { &matter_b };
                let root = build(&crypto, &keys, &case.certs[fs.root]);
                let noc = build(&crypto, &keys, &case.certs[fs.noc]);
                let icac = fs.icac.map(|i| build(&crypto, &keys, &case.certs[i])).unwrap_or_default();
                let ek = epoch_key(fs.ipk);
                let r = m.with_state(|st| {
                    st.fabrics.remove(NonZeroU8::new(*idx).unwrap())?;
                    st.fabrics
                        .add(&crypto, CanonPkcSecretKeyRef::new(&keys.sk[fs.sk % NKEYS]), &root, &noc, &icac, Some(CanonAeadKeyRef::new(&ek)), 0xFFF1, 112233)
                        .map(|f| f.fab_idx().get())
                });
                out.push(match r {
                    Ok(i) => format!("un{}", i),
                    Err(_) => "un-fail".into(),
                });
            }
            Op::ClearCache(n) => {
                let m = if *n == 'A' { &matter_a } else { &matter_b };
                m.with_state(|st| st.resumption.reset());
                out.push("cc".into());
            }
            Op::RemoveFabric(n, idx) => {
                let m = if *n == 'A' { &matter_a } else { &matter_b };
                let r = m.with_state(|st| st.fabrics.remove(NonZeroU8::new(*idx).unwrap()));
                out.push(if r.is_ok() { "rf".into() } else { "rf-none".into() });
            }
            Op::Hand { fab, peer, script } => {
                net.begin_run(if with_scripts { script.clone() } else { vec![] });
                let res = handshake(&crypto, &matter_a, &matter_b, &net, *fab, *peer);
                let status = net.0.borrow().mitm.last_status;
                let s3 = net.0.borrow().mitm.s3;
                net.end_run();
                // every future of the attempt is gone now: a reserved session still there was left behind
                let (sa, la) = observe_sessions(&matter_a, &mut known_a, &mut cls);
                let (sb, lb) = observe_sessions(&matter_b, &mut known_b, &mut cls);
                let ca = observe_cache(&matter_a, &mut cls);
                let cb = observe_cache(&matter_b, &mut cls);
                out.push(format!(
                    "h:i={}:st={}:s3={}:I={}:R={}:cA={}:cB={}:lv={}",
                    res,
                    match status {
                        // a status report rewritten into a value outside the ones the protocol uses is '?'
                        Some((g, c)) if [(0, 0), (1, 1), (1, 2), (8, 4)].contains(&(g, c)) => format!("{}.{}", g, c),
                        Some(_) => "?".into(),
                        None => "-".into(),
                    },
                    s3,
                    sa,
                    sb,
                    ca,
                    cb,
                    la + lb
                ));
            }
        }
    }
    out.join(" ")
}

/// One attempt; returns the initiator's result.
fn handshake<C: Crypto>(crypto: &C, matter_a: &Matter<'_>, matter_b: &Matter<'_>, net: &MNet, fab: u8, peer: u64) -> &'static str {
    let (a_tx, a_rx) = (MSend { net: net.clone(), me: A }, MRecv { net: net.clone(), me: A });
    let (b_tx, b_rx) = (MSend { net: net.clone(), me: B }, MRecv { net: net.clone(), me: B });
    let sc = SecureChannel::new(crypto, &());
    let sc_responder = Responder::new("b-sc", sc, matter_b, 0);
    let peer_addr = e2e::node_addr(B);
    let Some(fab) = NonZeroU8::new(fab) else { return "fail" };
    e2e::block_on(async {
        let nodes = select4(
            matter_b.run(crypto, b_tx, b_rx, NoNetwork),
            sc_responder.run::<4>(),
            matter_a.run(crypto, a_tx, a_rx, NoNetwork),
            core::future::pending::<Result<(), Error>>(),
        )
        .coalesce();
        let flow = async {
            let r: Result<(), Error> = async {
                let ex = Exchange::initiate_plaintext(matter_a, crypto, peer_addr).await?;
                CaseInitiator::perform(ex, crypto, fab, peer).await
            }
            .await;
            Timer::after(Duration::from_millis(SETTLE_MS)).await;
            r
        };
        let flow = async {
            match select(core::pin::pin!(flow), core::pin::pin!(Timer::after(Duration::from_millis(OP_TIMEOUT_MS)))).await {
                Either::First(r) => Some(r),
                Either::Second(_) => None,
            }
        };
        match select(core::pin::pin!(nodes), core::pin::pin!(flow)).await {
            Either::First(_) => "transport-exit",
            Either::Second(Some(Ok(()))) => "ok",
            Either::Second(Some(Err(_))) => "fail",
            Either::Second(None) => "fail",
        }
    })
}

fn run_line(line: &str, out: &mut String) {
    let Some(case) = parse_case(line) else { return };
    let has_script = case.ops.iter().any(|o| matches!(o, Op::Hand { script, .. } if !script.is_empty()));
    let r = rsm_harness::catch(std::panic::AssertUnwindSafe(|| {
        let m = run_scenario(&case, true);
        if has_script {
            format!("{} || {}", m, run_scenario(&case, false))
        } else {
            m
        }
    }));
    match r {
        Ok(s) => writeln!(out, "K {} {}", case.id, s).unwrap(),
        Err(p) => writeln!(out, "K {} panic:{}", case.id, p.replace(' ', "_")).unwrap(),
    }
}

// ================================================================ generator

const NODE_A: u64 = 0x1111;
const NODE_B: u64 = 0x2222;

fn root_cert(key: usize, id: u64, pathlen: Option<u8>) -> ACert {
    ACert {
        subject: vec![(20, id)],
        issuer: vec![(20, id)],
        skid: Some(800 + key as u64),
        akid: Some(800 + key as u64),
        pk: key,
        sig: Sig::Good(key),
        nb: 1,
        na: 0,
        bc: Some((true, pathlen)),
        ku: Some(0x60),
        eku: None,
        fx: Fx::None,
    }
}

fn icac_cert(key: usize, id: u64, fid: Option<u64>, parent: &ACert) -> ACert {
    let mut subject = vec![(19, id)];
    if let Some(f) = fid {
        subject.push((21, f));
    }
    ACert {
        subject,
        issuer: parent.subject.clone(),
        skid: Some(700 + key as u64),
        akid: parent.skid,
        pk: key,
        sig: Sig::Good(parent.pk),
        nb: 1,
        na: 0,
        bc: Some((true, Some(0))),
        ku: Some(0x60),
        eku: None,
        fx: Fx::None,
    }
}

fn noc_cert(key: usize, node: u64, fid: u64, cats: &[u64], parent: &ACert) -> ACert {
    let mut subject = vec![(17, node), (21, fid)];
    for c in cats {
        subject.push((22, *c));
    }
    ACert {
        subject,
        issuer: parent.subject.clone(),
        skid: Some(600 + key as u64),
        akid: parent.skid,
        pk: key,
        sig: Sig::Good(parent.pk),
        nb: 1,
        na: 0,
        bc: Some((false, None)),
        ku: Some(1),
        eku: Some(vec![1, 2]),
        fx: Fx::None,
    }
}

/// A world under construction.
#[derive(Clone)]
struct World {
    reliable: bool,
    us: u64,
    certs: Vec<ACert>,
    a: Vec<FabSpec>,
    b: Vec<FabSpec>,
}

impl World {
    fn cert(&mut self, c: ACert) -> usize {
        if let Some(i) = self.certs.iter().position(|x| *x == c) {
            return i;
        }
        self.certs.push(c);
        self.certs.len() - 1
    }
    fn line(&self, id: &str, label: &str, ops: &[String]) -> String {
        format!(
            "K {} {} clk={}:{} certs={} A={} B={} ops={}",
            id,
            label,
            if self.reliable { "R" } else { "L" },
            self.us,
            self.certs.iter().map(|c| c.token()).collect::<Vec<_>>().join(";"),
            self.a.iter().map(|f| f.token()).collect::<Vec<_>>().join(","),
            self.b.iter().map(|f| f.token()).collect::<Vec<_>>().join(","),
            ops.join("/")
        )
    }
}

const NOW_S: u64 = 800_000_000;

/// keys: 1,2 roots; 3,4 ICACs; 5 A's operational key; 6 B's; 7,8 second-fabric operational keys; 9 stray
/// `with_icac`: 0 none, 1 A's chain has an ICAC, 2 B's, 3 both
fn base_world(with_icac: u8, cats_a: &[u64], cats_b: &[u64]) -> World {
    let mut w = World { reliable: true, us: NOW_S * 1_000_000, certs: vec![], a: vec![], b: vec![] };
    let root = root_cert(1, 7001, None);
    let r = w.cert(root.clone());
    let mk = |w: &mut World, key: usize, node: u64, cats: &[u64], icac: bool, ikey: usize| -> FabSpec {
        if icac {
            let ic = icac_cert(ikey, 7100 + ikey as u64, Some(9), &root);
            let i = w.cert(ic.clone());
            let n = w.cert(noc_cert(key, node, 9, cats, &ic));
            FabSpec { root: r, noc: n, icac: Some(i), sk: key, ipk: 1 }
        } else {
            let n = w.cert(noc_cert(key, node, 9, cats, &root));
            FabSpec { root: r, noc: n, icac: None, sk: key, ipk: 1 }
        }
    };
    let fa = mk(&mut w, 5, NODE_A, cats_a, with_icac & 1 != 0, 3);
    let fb = mk(&mut w, 6, NODE_B, cats_b, with_icac & 2 != 0, 4);
    w.a.push(fa);
    w.b.push(fb);
    w
}

/// a second, unrelated fabric (root key 2, fabric id `fid`) on both nodes, placed before or after the shared one
fn add_second_fabric(w: &mut World, fid: u64, first_on_a: bool, first_on_b: bool, same_ipk: bool) {
    let root = root_cert(2, 7002, None);
    let r = w.cert(root.clone());
    let na = w.cert(noc_cert(7, NODE_A, fid, &[], &root));
    let nb = w.cert(noc_cert(8, NODE_B, fid, &[], &root));
    let ipk = if same_ipk { 1 } else { 2 };
    let fa = FabSpec { root: r, noc: na, icac: None, sk: 7, ipk };
    let fb = FabSpec { root: r, noc: nb, icac: None, sk: 8, ipk };
    if first_on_a {
        w.a.insert(0, fa);
    } else {
        w.a.push(fa);
    }
    if first_on_b {
        w.b.insert(0, fb);
    } else {
        w.b.push(fb);
    }
}

type Defect = (&'static str, fn(&mut World, bool) -> bool);

/// `on_a`: the defect goes into A's presented chain (checked by B at Sigma3), else into B's (checked by A
/// at Sigma2).  The defective certificate replaces the good one in that node's own fabric only.
fn with_chain<F: FnOnce(&mut ACert, Option<&mut ACert>, &World)>(w: &mut World, on_a: bool, f: F) -> bool {
    let fs = if on_a { w.a[0].clone() } else { w.b[0].clone() };
    let mut noc = w.certs[fs.noc].clone();
    let mut icac = fs.icac.map(|i| w.certs[i].clone());
    let snapshot = w.clone();
    f(&mut noc, icac.as_mut(), &snapshot);
    let n = w.cert(noc);
    let i = icac.map(|c| w.cert(c));
    let t = if on_a { &mut w.a[0] } else { &mut w.b[0] };
    t.noc = n;
    t.icac = i;
    true
}

const DEFECTS: &[Defect] = &[
    ("noc_sig_bit_flip", |w, a| with_chain(w, a, |n, _, _| if let Sig::Good(k) = n.sig { n.sig = Sig::Flip(k, 77) })),
    ("noc_sig_over_other_bytes", |w, a| with_chain(w, a, |n, _, _| if let Sig::Good(k) = n.sig { n.sig = Sig::Other(k) })),
    ("noc_sig_by_stray_key", |w, a| with_chain(w, a, |n, _, _| n.sig = Sig::Good(9))),
    ("noc_akid_changed", |w, a| with_chain(w, a, |n, _, _| n.akid = Some(555))),
    ("noc_issuer_name_changed", |w, a| with_chain(w, a, |n, _, _| n.issuer[0].1 ^= 4)),
    ("noc_expired", |w, a| with_chain(w, a, |n, _, _| n.na = (NOW_S - 1000) as u32)),
    ("noc_not_yet_valid", |w, a| with_chain(w, a, |n, _, _| n.nb = (NOW_S + 100_000) as u32)),
    ("noc_critical_extension", |w, a| with_chain(w, a, |n, _, _| n.fx = Fx::Crit)),
    ("noc_is_ca", |w, a| with_chain(w, a, |n, _, _| n.bc = Some((true, None)))),
    ("noc_no_basic_constraints", |w, a| with_chain(w, a, |n, _, _| n.bc = None)),
    ("noc_no_digital_signature", |w, a| with_chain(w, a, |n, _, _| n.ku = Some(0x20))),
    ("noc_server_auth_only", |w, a| with_chain(w, a, |n, _, _| n.eku = Some(vec![1]))),
    ("noc_no_ext_key_usage", |w, a| with_chain(w, a, |n, _, _| n.eku = None)),
    ("icac_not_ca", |w, a| with_chain(w, a, |_, i, _| if let Some(i) = i { i.bc = Some((false, None)) })),
    ("icac_no_key_cert_sign", |w, a| with_chain(w, a, |_, i, _| if let Some(i) = i { i.ku = Some(0x40) })),
    ("icac_expired", |w, a| with_chain(w, a, |_, i, _| if let Some(i) = i { i.na = (NOW_S - 5) as u32 })),
    ("icac_sig_bit_flip", |w, a| with_chain(w, a, |_, i, _| if let Some(i) = i { if let Sig::Good(k) = i.sig { i.sig = Sig::Flip(k, 300) } })),
    ("icac_self_signed", |w, a| {
        with_chain(w, a, |_, i, _| {
            if let Some(i) = i {
                i.issuer = i.subject.clone();
                i.akid = i.skid;
                i.sig = Sig::Good(i.pk);
            }
        })
    }),
    ("icac_other_fabric_id", |w, a| {
        with_chain(w, a, |n, i, _| {
            if let Some(i) = i {
                for x in i.subject.iter_mut() {
                    if x.0 == 21 {
                        x.1 = 10;
                    }
                }
                n.issuer = i.subject.clone();
            }
        })
    }),
    ("icac_named_as_node", |w, a| {
        with_chain(w, a, |n, i, _| {
            if let Some(i) = i {
                i.subject.insert(0, (17, 4242));
                n.issuer = i.subject.clone();
            }
        })
    }),
    ("own_key_is_not_the_noc_key", |w, a| {
        if a {
            w.a[0].sk = 9
        } else {
            w.b[0].sk = 9
        };
        true
    }),
    // ---- the rest of C19's single-respect list (added after the external seeded change C01-mut1)
    ("noc_akid_removed", |w, a| with_chain(w, a, |n, _, _| n.akid = None)),
    ("noc_issuer_attr_removed", |w, a| with_chain(w, a, |n, _, _| { n.issuer.pop(); })),
    ("noc_issuer_attr_added", |w, a| with_chain(w, a, |n, _, _| n.issuer.push((1, 31)))),
    ("noc_issuer_attr_tag_changed", |w, a| with_chain(w, a, |n, _, _| for x in n.issuer.iter_mut() { if x.0 == 19 { x.0 = 20 } else if x.0 == 20 { x.0 = 19 } })),
    ("noc_key_usage_removed", |w, a| with_chain(w, a, |n, _, _| n.ku = None)),
    ("noc_key_usage_zero", |w, a| with_chain(w, a, |n, _, _| n.ku = Some(0))),
    ("noc_client_auth_only", |w, a| with_chain(w, a, |n, _, _| n.eku = Some(vec![2]))),
    ("noc_ext_key_usage_empty", |w, a| with_chain(w, a, |n, _, _| n.eku = Some(vec![]))),
    ("noc_ext_key_usage_other_purposes", |w, a| with_chain(w, a, |n, _, _| n.eku = Some(vec![3, 4, 1]))),
    ("noc_icac_attr_before_node_attr", |w, a| with_chain(w, a, |n, _, _| n.subject.insert(0, (19, 5)))),
    ("noc_ca_shaped_with_node_id", |w, a| with_chain(w, a, |n, _, _| { n.subject.insert(0, (19, 5)); n.bc = Some((true, None)); n.ku = Some(0x60); n.eku = None; })),
    ("ok_noc_noncritical_extension", |w, a| with_chain(w, a, |n, _, _| n.fx = Fx::NonCrit)),
    ("ok_noc_icac_attr_after_node_attr", |w, a| with_chain(w, a, |n, _, _| n.subject.push((19, 5)))),
    ("ok_noc_extra_purposes", |w, a| with_chain(w, a, |n, _, _| n.eku = Some(vec![1, 2, 3]))),
    ("icac_akid_changed", |w, a| with_chain(w, a, |_, i, _| if let Some(i) = i { i.akid = Some(556) })),
    ("icac_skid_changed", |w, a| with_chain(w, a, |_, i, _| if let Some(i) = i { i.skid = Some(557) })),
    ("icac_skid_removed", |w, a| with_chain(w, a, |_, i, _| if let Some(i) = i { i.skid = None })),
    ("icac_subject_value_changed", |w, a| with_chain(w, a, |_, i, _| if let Some(i) = i { i.subject[0].1 ^= 2 })),
    ("icac_issuer_name_changed", |w, a| with_chain(w, a, |_, i, _| if let Some(i) = i { i.issuer[0].1 ^= 2 })),
    ("icac_not_yet_valid", |w, a| with_chain(w, a, |_, i, _| if let Some(i) = i { i.nb = (NOW_S + 100_000) as u32 })),
    ("icac_critical_extension", |w, a| with_chain(w, a, |_, i, _| if let Some(i) = i { i.fx = Fx::Crit })),
    ("icac_no_basic_constraints", |w, a| with_chain(w, a, |_, i, _| if let Some(i) = i { i.bc = None })),
    ("icac_key_usage_removed", |w, a| with_chain(w, a, |_, i, _| if let Some(i) = i { i.ku = None })),
    ("icac_sig_by_stray_key", |w, a| with_chain(w, a, |_, i, _| if let Some(i) = i { i.sig = Sig::Good(9) })),
    ("icac_without_type_attr", |w, a| with_chain(w, a, |n, i, _| if let Some(i) = i { i.subject.retain(|x| x.0 != 19); i.subject.push((1, 31)); n.issuer = i.subject.clone(); })),
    ("ok_icac_rcac_attr", |w, a| with_chain(w, a, |n, i, _| if let Some(i) = i { for x in i.subject.iter_mut() { if x.0 == 19 { x.0 = 20 } } n.issuer = i.subject.clone(); })),
    ("ok_icac_pathlen_absent", |w, a| with_chain(w, a, |_, i, _| if let Some(i) = i { i.bc = Some((true, None)) })),
    ("icac_dropped", |w, a| { if a { w.a[0].icac = None } else { w.b[0].icac = None }; true }),
    ("icac_is_the_noc_repeated", |w, a| { if a { w.a[0].icac = Some(w.a[0].noc) } else { w.b[0].icac = Some(w.b[0].noc) }; true }),
    // world without ICACs only ("member_"): a GENUINE member NOC in the ICAC slot, the leaf issued by it with the
    // member's operational key (any fabric member minting identities); and the root itself in the ICAC slot
    ("member_noc_as_intermediate", |w, a| member_as_intermediate(w, a, false)),
    ("member_noc_as_intermediate_other_node_id", |w, a| member_as_intermediate(w, a, true)),
    ("member_ok_root_reused_as_intermediate", |w, a| { if a { w.a[0].icac = Some(w.a[0].root) } else { w.b[0].icac = Some(w.b[0].root) }; true }),
    ("four_cats", |w, a| with_chain(w, a, |n, _, _| { for c in [0x10001u64, 0x20001, 0x30001, 0x40001] { n.subject.push((22, c)); } })),
];

/// The node's genuine NOC M (issued by the root) moves into the ICAC slot; the presented leaf is a new
/// NOC for the stray key 9, issued BY M: issuer name = M's subject, authority key id = M's key id, signed
/// with M's operational key.  `other_id`: the leaf claims another node id (and a CAT).
fn member_as_intermediate(w: &mut World, on_a: bool, other_id: bool) -> bool {
    let fs = if on_a { w.a[0].clone() } else { w.b[0].clone() };
    if fs.icac.is_some() {
        return false;
    }
    let m = w.certs[fs.noc].clone();
    let node = m.subject.iter().find(|x| x.0 == 17).unwrap().1;
    let mut leaf = noc_cert(9, if other_id && on_a { 0x100 } else { node }, 9, if other_id { &[0x00FF_0001] } else { &[] }, &m);
    leaf.skid = Some(699);
    let l = w.cert(leaf);
    let t = if on_a { &mut w.a[0] } else { &mut w.b[0] };
    t.icac = Some(fs.noc);
    t.noc = l;
    t.sk = 9;
    true
}

/// defects of the trust anchor a node holds (the OTHER node's chain then does not verify against it)
fn root_path_len_zero(w: &mut World, at_a: bool) {
    let fs = if at_a { &w.a[0] } else { &w.b[0] };
    let mut r = w.certs[fs.root].clone();
    r.bc = Some((true, Some(0)));
    let i = w.cert(r);
    if at_a {
        w.a[0].root = i
    } else {
        w.b[0].root = i
    }
}

struct Gen {
    cases: Vec<String>,
    n: u64,
    stats: BTreeMap<String, u64>,
}

impl Gen {
    fn push(&mut self, stream: &str, w: &World, label: &str, ops: &[String]) {
        self.n += 1;
        *self.stats.entry(stream.to_string()).or_insert(0) += 1;
        let id = format!("{}.{}", self.n, stream);
        self.cases.push(w.line(&id, label, ops));
    }
}

fn h(fab: u8, peer: u64, script: &str) -> String {
    format!("h:{}:{}:{}", fab, peer, if script.is_empty() { "-" } else { script })
}

/// the message-level mutations of one message (dir, k) with top-level tags `tags`; `prev` = a run whose
/// messages may be substituted / replayed
fn message_mutations(dir: u8, k: usize, tags: &[u8], nfields: usize, prev: Option<usize>, rng: &mut Rng, all_bits: bool) -> Vec<String> {
    let mut v = Vec::new();
    let p = format!("{}.{}.", dir, k);
    for t in tags {
        let bit = rng.below(4096);
        v.push(format!("{}fb:{}:{}", p, t, bit));
        if all_bits {
            v.push(format!("{}fb:{}:{}", p, t, rng.below(4096)));
        }
        v.push(format!("{}z:{}", p, t));
        v.push(format!("{}del:{}", p, t));
        v.push(format!("{}dupf:{}", p, t));
        if let Some(r) = prev {
            v.push(format!("{}sb:{}:{}:{}:{}:{}", p, t, r, dir, k, t));
        }
    }
    v.push(format!("{}add:{}", p, 9));
    for n in 0..=nfields {
        v.push(format!("{}tr:{}", p, n));
    }
    if let Some(r) = prev {
        v.push(format!("{}rp:{}:{}:{}", p, r, dir, k));
    }
    v.push(format!("{}x", p));
    v.push(format!("{}d1", p));
    v.push(format!("{}u", p));
    v
}

/// one bit flip in byte `b` of the element with tag `t` of message (dir, k)
fn byte_flips(dir: u8, k: usize, t: u8, len: usize, all: bool, rng: &mut Rng) -> Vec<String> {
    let bytes: Vec<usize> = if all { (0..len).collect() } else { let mut v = vec![0, len / 2 - 1, len / 2, len - 1]; v.dedup(); v };
    bytes.into_iter().map(|b| format!("{}.{}.fb:{}:{}", dir, k, t, b * 8 + rng.below(8) as usize)).collect()
}

fn generate(tier: &str, seed: u64) -> (Vec<String>, BTreeMap<String, u64>) {
    let thorough = tier == "thorough";
    let mut rng = Rng::new(seed);
    let mut g = Gen { cases: vec![], n: 0, stats: BTreeMap::new() };
    let full = |w: &World| -> Vec<String> { vec![h(w.a.iter().position(|f| f.sk == 5 || f.sk == 9).unwrap() as u8 + 1, NODE_B, "")] };

    // ---- stream "fab": fabric sets, honest network
    for icac in 0..4u8 {
        let w = base_world(icac, &[], &[]);
        g.push("fab", &w, &format!("shared_fabric_icac{}", icac), &full(&w));
    }
    {
        let w = base_world(0, &[0x0001_0001, 0x0002_0003], &[0x00AB_0001]);
        g.push("fab", &w, "cats", &full(&w));
        let w = base_world(1, &[0x0001_0001, 0x0002_0003, 0x0003_0009], &[]);
        g.push("fab", &w, "three_cats", &full(&w));
    }
    for (fa, fb) in [(false, false), (true, false), (false, true), (true, true)] {
        for same_ipk in [false, true] {
            for fid in [9u64, 10] {
                // fid 9: the SAME fabric id under a different root
                let mut w = base_world(0, &[], &[]);
                add_second_fabric(&mut w, fid, fa, fb, same_ipk);
                let ia = w.a.iter().position(|f| f.sk == 5).unwrap() as u8 + 1;
                let ja = w.a.iter().position(|f| f.sk == 7).unwrap() as u8 + 1;
                g.push("fab", &w, &format!("two_fabrics_fid{}_a{}_b{}_ipk{}", fid, fa as u8, fb as u8, same_ipk as u8), &[h(ia, NODE_B, ""), "cc:A".into(), "cc:B".into(), h(ja, NODE_B, "")]);
            }
        }
    }
    {
        // disjoint roots: no shared fabric at all
        let mut w = base_world(0, &[], &[]);
        let root2 = root_cert(2, 7002, None);
        let r2 = w.cert(root2.clone());
        let nb = w.cert(noc_cert(6, NODE_B, 9, &[], &root2));
        w.b[0] = FabSpec { root: r2, noc: nb, icac: None, sk: 6, ipk: 1 };
        g.push("fab", &w, "disjoint_roots_same_fabric_id", &full(&w));
        // same root, other fabric id at B
        let mut w = base_world(0, &[], &[]);
        let root = w.certs[w.b[0].root].clone();
        let nb = w.cert(noc_cert(6, NODE_B, 10, &[], &root));
        w.b[0].noc = nb;
        g.push("fab", &w, "same_root_other_fabric_id", &full(&w));
        // other IPK
        let mut w = base_world(0, &[], &[]);
        w.b[0].ipk = 2;
        g.push("fab", &w, "other_ipk", &full(&w));
        // wrong peer node id asked for
        let w = base_world(0, &[], &[]);
        g.push("fab", &w, "wrong_peer_node_id", &[h(1, 0x3333, "")]);
        // fabric index that does not exist at A
        g.push("fab", &w, "no_such_fabric_at_a", &[h(3, NODE_B, "")]);
        // A trusts another root than the one that issued its own chain (chain of another fabric presented)
        let mut w = base_world(0, &[], &[]);
        add_second_fabric(&mut w, 10, false, false, false);
        let stray = w.a[1].noc;
        w.a[0].noc = stray; // NOC of fabric (root 2, id 10) presented inside fabric (root 1, id 9)
        w.a[0].sk = 7;
        g.push("fab", &w, "noc_of_another_fabric_presented", &[h(1, NODE_B, "")]);
        // NOC of the sibling fabric (same fabric id, same epoch key, other root) presented inside the addressed one
        for on_a in [true, false] {
            let mut w = base_world(0, &[], &[]);
            add_second_fabric(&mut w, 9, false, false, true);
            if on_a {
                w.a[1].noc = w.a[0].noc;
                w.a[1].sk = 5;
            } else {
                w.b[1].noc = w.b[0].noc;
                w.b[1].sk = 6;
            }
            g.push("fab", &w, &format!("noc_of_sibling_fabric_presented_by_{}", if on_a { "A" } else { "B" }), &[h(2, NODE_B, "")]);
        }
        // last-known clock (notBefore not enforced)
        let mut w = base_world(0, &[], &[]);
        w.reliable = false;
        w.us = rs_matter::utils::epoch::FIRMWARE_BUILD_MATTER_US;
        g.push("fab", &w, "last_known_clock", &full(&w));
    }

    // ---- stream "chain": every single defect, in A's chain and in B's chain, with and without ICAC
    for (name, f) in DEFECTS {
        for on_a in [true, false] {
            for icac in [0u8, 3] {
                if (name.starts_with("icac_") || name.starts_with("ok_icac_")) && icac == 0 {
                    continue;
                }
                if name.starts_with("member_") && icac != 0 {
                    continue;
                }
                let mut w = base_world(icac, &[], &[]);
                if !f(&mut w, on_a) {
                    continue;
                }
                g.push("chain", &w, &format!("{}_{}_icac{}", name, if on_a { "A" } else { "B" }, icac), &[h(1, NODE_B, "")]);
            }
        }
    }
    for at_a in [true, false] {
        let mut w = base_world(3, &[], &[]);
        root_path_len_zero(&mut w, at_a);
        g.push("chain", &w, &format!("root_pathlen0_held_by_{}", if at_a { "A" } else { "B" }), &[h(1, NODE_B, "")]);
    }
    {
        // not-before in the future is tolerated with a last-known clock
        let mut w = base_world(0, &[], &[]);
        w.reliable = false;
        w.us = rs_matter::utils::epoch::FIRMWARE_BUILD_MATTER_US;
        let nb = (w.us / 1_000_000 + 100_000) as u32;
        with_chain(&mut w, true, |n, _, _| n.nb = nb);
        g.push("chain", &w, "noc_not_yet_valid_last_known_clock", &[h(1, NODE_B, "")]);
    }

    for on_a in [true, false] {
        // expired is expired also for a node that only has its last-known-good time (seeded change C01-mut5, C19's subject)
        let mut w = base_world(3, &[], &[]);
        w.reliable = false;
        w.us = rs_matter::utils::epoch::FIRMWARE_BUILD_MATTER_US;
        let na = (w.us / 1_000_000 - 100_000) as u32;
        with_chain(&mut w, on_a, |n, _, _| n.na = na);
        g.push("chain", &w, &format!("noc_expired_last_known_clock_{}", if on_a { "A" } else { "B" }), &[h(1, NODE_B, "")]);
        let mut w = base_world(3, &[], &[]);
        w.reliable = false;
        w.us = rs_matter::utils::epoch::FIRMWARE_BUILD_MATTER_US;
        with_chain(&mut w, on_a, |_, i, _| if let Some(i) = i { i.na = na });
        g.push("chain", &w, &format!("icac_expired_last_known_clock_{}", if on_a { "A" } else { "B" }), &[h(1, NODE_B, "")]);
    }

    // ---- stream "mitm": full handshake, every message, every field
    // messages of a full handshake: 0.0 Sigma1 {1,2,3,4}  1.0 Sigma2 {1,2,3,4,5}  0.1 Sigma3 {1}  1.1 status {0,1}
    let worlds: Vec<(u8, World)> = if thorough { (0..4).map(|i| (i, base_world(i, &[0x0001_0001], &[]))).collect() } else { vec![(1, base_world(1, &[0x0001_0001], &[]))] };
    for (wi, w) in &worlds {
        let msgs: [(u8, usize, &[u8], usize, &str); 4] = [(0, 0, &[1, 2, 3, 4], 4, "sigma1"), (1, 0, &[1, 2, 3, 4, 5], 5, "sigma2"), (0, 1, &[1], 1, "sigma3"), (1, 1, &[0, 1], 2, "status")];
        for (dir, k, tags, nf, name) in msgs {
            for m in message_mutations(dir, k, tags, nf, Some(0), &mut rng, thorough) {
                // run 0 = an honest full handshake (source of substituted / replayed values); caches cleared
                g.push("mitm", w, &format!("w{}_{}_{}", wi, name, m.replace(':', "_")), &[h(1, NODE_B, ""), "cc:A".into(), "cc:B".into(), h(1, NODE_B, &m)]);
            }
        }
        // a bit in the first, the middle and the last byte (thorough: every byte) of the randoms, ephemeral keys, destination id
        for (dir, k, t, len, name) in [(0u8, 0usize, 1u8, 32usize, "sigma1_random"), (0, 0, 3, 32, "sigma1_destid"), (0, 0, 4, 65, "sigma1_key"), (1, 0, 1, 32, "sigma2_random"), (1, 0, 3, 65, "sigma2_key")] {
            for m in byte_flips(dir, k, t, len, thorough, &mut rng) {
                g.push("mitm", w, &format!("w{}_{}_{}", wi, name, m.replace(':', "_")), &[h(1, NODE_B, ""), "cc:A".into(), "cc:B".into(), h(1, NODE_B, &m)]);
            }
        }
        // forged final status / swapped messages / reflection
        for (label, s) in [
            ("status_failure_to_success_after_sigma3_tamper", "0.1.fb:1:5+1.1.st:0:0"),
            ("status_success_to_failure", "1.1.st:1:2"),
            ("status_success_to_busy", "1.1.st:8:4"),
            ("sigma2_field5_tamper_and_status_forged", "1.0.fb:5:0+1.1.st:0:0"),
            ("sigma2_sessid_tamper_and_status_forged", "1.0.fb:2:3+1.1.st:0:0"),
            ("sigma1_reflected_as_sigma2", "1.0.rp:1:0:0"),
            ("sigma2_replaced_by_old_sigma2", "1.0.rp:0:1:0"),
            ("sigma3_replaced_by_old_sigma3", "0.1.rp:0:0:1"),
            ("sigma3_replaced_by_sigma1", "0.1.rp:1:0:0"),
            ("sigma1_replaced_by_old_sigma1", "0.0.rp:0:0:0"),
            ("sigma2_replaced_by_status_success", "1.0.rp:0:1:1"),
            ("final_status_replaced_by_sigma2", "1.1.rp:1:1:0"),
            ("sigma3_extra_field", "0.1.add:9"),
            ("sigma3_dup_field", "0.1.dupf:1"),
            ("sigma1_eph_key_from_old_run", "0.0.sb:4:0:0:0:4"),
            ("sigma2_eph_key_from_old_run", "1.0.sb:3:0:1:0:3"),
            ("sigma2_tbe_from_old_run", "1.0.sb:4:0:1:0:4"),
            ("sigma1_random_and_destid_from_old_run", "0.0.sb:1:0:0:0:1+0.0.sb:3:0:0:0:3"),
            ("sigma1_add_resumption_fields_from_nowhere", "0.0.add:6"),
            ("sigma1_two_messages_dropped_once", "0.0.d1+1.0.d1+0.1.d1+1.1.d1"),
            ("all_duplicated", "0.0.u+1.0.u+0.1.u+1.1.u"),
        ] {
            g.push("mitm", w, &format!("w{}_{}", wi, label), &[h(1, NODE_B, ""), "cc:A".into(), "cc:B".into(), h(1, NODE_B, s)]);
        }
    }

    // ---- stream "resume": resumption, every field of Sigma1 (6, 7), Sigma2Resume {1,2,3,4}, SigmaFinished
    {
        let w = base_world(0, &[0x0001_0001], &[0x0002_0002]);
        g.push("resume", &w, "resume_honest", &[h(1, NODE_B, ""), h(1, NODE_B, "")]);
        g.push("resume", &w, "resume_twice", &[h(1, NODE_B, ""), h(1, NODE_B, ""), h(1, NODE_B, "")]);
        g.push("resume", &w, "responder_forgot", &[h(1, NODE_B, ""), "cc:B".into(), h(1, NODE_B, "")]);
        g.push("resume", &w, "initiator_forgot", &[h(1, NODE_B, ""), "cc:A".into(), h(1, NODE_B, "")]);
        g.push("resume", &w, "responder_fabric_removed", &[h(1, NODE_B, ""), "rf:B:1".into(), h(1, NODE_B, "")]);
        // messages of a resumed run: 0.0 Sigma1 {1,2,3,4,6,7}  1.0 Sigma2Resume {1,2,3,4}  0.1 SigmaFinished {0,1}
        let msgs: [(u8, usize, &[u8], usize, &str); 3] = [(0, 0, &[1, 2, 3, 4, 6, 7], 6, "sigma1r"), (1, 0, &[1, 2, 3, 4], 4, "sigma2resume"), (0, 1, &[0, 1], 2, "finished")];
        for (dir, k, tags, nf, name) in msgs {
            // run 0 full, run 1 resumed (honest), run 2 resumed under attack; run 1 is the source of old values
            for m in message_mutations(dir, k, tags, nf, Some(1), &mut rng, thorough) {
                g.push("resume", &w, &format!("{}_{}", name, m.replace(':', "_")), &[h(1, NODE_B, ""), h(1, NODE_B, ""), h(1, NODE_B, &m)]);
            }
        }
        // RESUMED runs (added after the external seeded change C01-mut2): a bit in byte 0, 15, 16, 31 (thorough: every
        // byte) of the initiator random, and in the first / middle / last byte of the resumption id, of both MICs, of
        // the new resumption id and of the responder session id
        for (dir, k, t, len, name) in [(0u8, 0usize, 1u8, 32usize, "sigma1r_random"), (0, 0, 6, 16, "sigma1r_rid"), (0, 0, 7, 16, "sigma1r_mic"), (0, 0, 3, 32, "sigma1r_destid"),
                                       (1, 0, 1, 16, "sigma2resume_rid"), (1, 0, 2, 16, "sigma2resume_mic"), (1, 0, 3, 2, "sigma2resume_sessid")] {
            for m in byte_flips(dir, k, t, len, thorough, &mut rng) {
                g.push("resume", &w, &format!("{}_{}", name, m.replace(':', "_")), &[h(1, NODE_B, ""), h(1, NODE_B, &m)]);
            }
        }
        for (label, ops) in [
            ("sigma2resume_lost_then_old_sigma1_replayed", vec![h(1, NODE_B, ""), h(1, NODE_B, "1.0.x"), h(1, NODE_B, "0.0.rp:1:0:0")]),
            ("finished_lost_then_old_sigma1_replayed_and_finished_forged", vec![h(1, NODE_B, ""), h(1, NODE_B, "0.1.x"), h(1, NODE_B, "0.0.rp:1:0:0+0.1.st:0:0")]),
            ("finished_failure_forged_to_success", vec![h(1, NODE_B, ""), h(1, NODE_B, "1.0.fb:2:9+0.1.st:0:0")]),
            ("finished_success_to_failure", vec![h(1, NODE_B, ""), h(1, NODE_B, "0.1.st:1:2")]),
            ("sigma2resume_replaced_by_full_sigma2_of_run0", vec![h(1, NODE_B, ""), h(1, NODE_B, "1.0.rp:0:1:0")]),
            ("resumption_fields_removed", vec![h(1, NODE_B, ""), h(1, NODE_B, "0.0.del:6+0.0.del:7")]),
            ("resumption_id_only", vec![h(1, NODE_B, ""), h(1, NODE_B, "0.0.del:7")]),
            ("resume_mic_only", vec![h(1, NODE_B, ""), h(1, NODE_B, "0.0.del:6")]),
            ("sigma2resume_unrequested", vec![h(1, NODE_B, ""), h(1, NODE_B, ""), "cc:A".into(), "cc:B".into(), h(1, NODE_B, "1.0.rp:1:1:0")]),
        ] {
            g.push("resume", &w, label, &ops);
        }
        // RE-ISSUED CREDENTIALS (added after the external seeded change C01-mut6): the same peer completes a second FULL
        // handshake with a NOC that differs in its CATs; afterwards somebody still offers the resumption id of the FIRST
        // handshake.  The first record must be gone: the session carries the CATs of the latest validated certificate.
        for (label, c1, c2) in [("cat_replaced", vec![0x0001_0001u64], vec![0x0002_0002u64]), ("cat_dropped", vec![0x00AD_0001], vec![]), ("cat_added", vec![], vec![0x0003_0003])] {
            // the initiator's NOC is re-issued; the initiator kept (cs/cr) its record of the first handshake
            let mut wa = base_world(0, &c1, &[]);
            let root = wa.certs[wa.a[0].root].clone();
            let n2 = wa.cert(noc_cert(5, NODE_A, 9, &c2, &root));
            let fs = FabSpec { root: wa.a[0].root, noc: n2, icac: None, sk: 5, ipk: 1 };
            g.push("resume", &wa, &format!("initiator_noc_reissued_{}_old_id_offered", label),
                   &[h(1, NODE_B, ""), "cs:A".into(), "cc:A".into(), format!("un:A:1:{}", fs.token()), h(1, NODE_B, ""), "cr:A".into(), h(1, NODE_B, "")]);
            g.push("resume", &wa, &format!("initiator_noc_reissued_{}_then_resumed", label),
                   &[h(1, NODE_B, ""), "cc:A".into(), format!("un:A:1:{}", fs.token()), h(1, NODE_B, ""), h(1, NODE_B, "")]);
            // the responder's NOC is re-issued; the responder kept its record of the first handshake
            let mut wb = base_world(0, &[], &c1);
            let root = wb.certs[wb.b[0].root].clone();
            let n2 = wb.cert(noc_cert(6, NODE_B, 9, &c2, &root));
            let fs = FabSpec { root: wb.b[0].root, noc: n2, icac: None, sk: 6, ipk: 1 };
            g.push("resume", &wb, &format!("responder_noc_reissued_{}_old_id_offered", label),
                   &[h(1, NODE_B, ""), "cs:B".into(), "cc:B".into(), format!("un:B:1:{}", fs.token()), h(1, NODE_B, ""), "cr:B".into(), h(1, NODE_B, "")]);
        }
        // resumption between nodes with two fabrics: the record names the fabric
        let mut w2 = base_world(0, &[], &[]);
        add_second_fabric(&mut w2, 10, true, true, false);
        g.push("resume", &w2, "two_fabrics_resume_each", &[h(2, NODE_B, ""), h(1, NODE_B, ""), h(2, NODE_B, ""), h(1, NODE_B, "")]);
        g.push("resume", &w2, "two_fabrics_responder_fabric_removed", &[h(2, NODE_B, ""), "rf:B:2".into(), h(2, NODE_B, "")]);
    }

    // ---- stream "rand": random worlds x random scripts of 1-3 actions
    let n_rand = if thorough { 1500 } else { 60 };
    for _ in 0..n_rand {
        let icac = rng.below(4) as u8;
        let mut w = base_world(icac, &[0x0001_0001][..rng.below(2) as usize], &[]);
        if rng.chance(1, 3) {
            add_second_fabric(&mut w, *rng.pick(&[9u64, 10]), rng.chance(1, 2), rng.chance(1, 2), rng.chance(1, 2));
        }
        let mut label = String::from("rand");
        if rng.chance(1, 4) {
            let (name, f) = rng.pick(DEFECTS);
            if !((name.starts_with("icac_") || name.starts_with("ok_icac_")) && icac != 3) && !(name.starts_with("member_") && icac != 0) && f(&mut w, rng.chance(1, 2)) {
                label = format!("rand_{}", name);
            }
        }
        let ia = w.a.iter().position(|f| f.sk == 5 || f.sk == 9).unwrap() as u8 + 1;
        let resumed = rng.chance(1, 3);
        let mut items = Vec::new();
        for _ in 0..rng.range(1, 3) {
            let (dir, k, tags): (u8, usize, &[u8]) = if resumed {
                *rng.pick(&[(0u8, 0usize, &[1u8, 2, 3, 4, 6, 7][..]), (1, 0, &[1, 2, 3, 4][..]), (0, 1, &[0, 1][..])])
            } else {
                *rng.pick(&[(0u8, 0usize, &[1u8, 2, 3, 4][..]), (1, 0, &[1, 2, 3, 4, 5][..]), (0, 1, &[1][..]), (1, 1, &[0, 1][..])])
            };
            let ms = message_mutations(dir, k, tags, tags.len(), Some(0), &mut rng, false);
            items.push(rng.pick(&ms).clone());
        }
        let script = items.join("+");
        let ops = if resumed { vec![h(ia, NODE_B, ""), h(ia, NODE_B, &script)] } else { vec![h(ia, NODE_B, ""), "cc:A".into(), "cc:B".into(), h(ia, NODE_B, &script)] };
        g.push("rand", &w, &label, &ops);
    }
    (g.cases, g.stats)
}

fn main() {
    let args: Vec<String> = std::env::args().collect();
    match args.get(1).map(|s| s.as_str()) {
        Some("gen") => {
            let outdir = std::path::PathBuf::from(&args[4]);
            std::fs::create_dir_all(&outdir).unwrap();
            let (cases, stats) = generate(&args[2], args[3].parse().unwrap());
            let mut cf = std::io::BufWriter::new(std::fs::File::create(outdir.join("cases.txt")).unwrap());
            for c in &cases {
                writeln!(cf, "{}", c).unwrap();
            }
            let mut s = String::from("{");
            for (i, (k, v)) in stats.iter().enumerate() {
                if i > 0 {
                    s.push(',');
                }
                write!(s, "\"{}\":{}", k, v).unwrap();
            }
            s.push('}');
            std::fs::write(outdir.join("stats.json"), s).unwrap();
        }
        Some("run") => {
            rsm_harness::silence_panics();
            let text = std::fs::read_to_string(&args[2]).unwrap();
            let mut out = String::new();
            for line in text.lines() {
                run_line(line, &mut out);
            }
            print!("{}", out);
        }
        _ => {
            eprintln!("usage: c01 gen <tier> <seed> <outdir> | c01 run <cases>");
            std::process::exit(2);
        }
    }
}
