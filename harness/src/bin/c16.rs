//! C16 correspondence harness: the TLV codec (`rs_matter::tlv`).
//!
//! usage: c16 gen <quick|thorough> <seed> <outdir>     writes cases.txt + stats.json
//!        c16 run <cases-file>                         one canonical line per case from the REAL code
//!        c16 f9                                       replays the recorded F9 witnesses
//!
//! Case lines (same as ocaml/c16/driver.ml):
//!   R <id> <hex|->        every public accessor of TLVElement / TLVSequence / both iterators on the
//!                         byte string, each under catch_unwind; one field per accessor:
//!                         `=<value>` | `E` (error) | `P` (panic) | `F` (did not terminate within bound)
//!   X <id> <hex|-> <n>    the same for all 256^n suffixes after the prefix, as a digest + panic count
//!   T <id> <tok>...       a value tree written with TLVWrite::tlv/start_container/end_container and,
//!                         independently, with TLV::bytes_iter; tokens L,<tag>,<val> | N,<tag>,<k> | E;
//!                         then read back with the real reader (tree) and re-encoded through tlv_iter
//!   W <id> <tok>          one call of the minimal-width writer API (i8..u64, str, utf8, ...), also
//!                         through the TLV::i8.. constructors + bytes_iter
//!   D <id> <kind> <seed>  derived ToTLV/FromTLV encoders of wire structs: round trip and hostile
//!                         mutations under catch_unwind (implementation only; tested, not modelled)
//!   Z <id> <ty> <tag> <v> derived encoders of zoo type <ty> (harness/src/c16_zoo.rs = `zoo` of
//!                         Model/TlvDerive.v): to_tlv / tlv_iter bytes of value <v>, and from_tlv of them
//!   Y <id> <ty> <hex>     derived decoder of zoo type <ty> on arbitrary bytes
//!   K <id> <ty> <cap> <prefixhex|-> <v>   to_tlv into a WriteBuf of <cap> bytes after a prefix
//!   C <id> <cap> <tok>... a script on one WriteBuf of <cap> bytes: writer tokens, A (record
//!                         get_tail), R<k> (rewind_to the k-th anchor)
#![recursion_limit = "512"]
use std::collections::BTreeMap;
use std::fmt::Write as _;
use std::io::Write as _;
use std::panic::AssertUnwindSafe;

use rs_matter::error::Error;
use rs_matter::im::{
    AttrPath, AttrStatus, ClusterPath, CmdPath, DataVersionFilter, EventPath, IMStatusCode, Status,
    TimedReq,
};
use rs_matter::tlv::{
    FromTLV, Nullable, OctetStr, Octets, TLVArray, TLVElement, TLVSequence, TLVTag, TLVValue,
    TLVValueType, TLVWrite, ToTLV, Utf8Str, TLV,
};
use rs_matter::utils::storage::WriteBuf;
use rsm_harness::{catch, silence_panics, Rng};

#[path = "../c16_zoo.rs"]
mod zoo;
use zoo::{DVal, Dty, D};

// ------------------------------------------------------------------ canonical strings

fn hex(b: &[u8]) -> String {
    let mut s = String::with_capacity(b.len() * 2);
    for x in b {
        write!(s, "{:02x}", x).unwrap();
    }
    s
}

fn unhex(s: &str) -> Vec<u8> {
    if s == "-" || s.is_empty() {
        return Vec::new();
    }
    (0..s.len() / 2)
        .map(|i| u8::from_str_radix(&s[2 * i..2 * i + 2], 16).unwrap())
        .collect()
}

fn tag_s(t: &TLVTag) -> String {
    match t {
        TLVTag::Anonymous => "a".into(),
        TLVTag::Context(v) => format!("c{}", v),
        TLVTag::CommonPrf16(v) => format!("C16:{}", v),
        TLVTag::CommonPrf32(v) => format!("C32:{}", v),
        TLVTag::ImplPrf16(v) => format!("I16:{}", v),
        TLVTag::ImplPrf32(v) => format!("I32:{}", v),
        TLVTag::FullQual48 {
            vendor_id,
            profile,
            tag,
        } => format!("Q48:{}:{}:{}", vendor_id, profile, tag),
        TLVTag::FullQual64 {
            vendor_id,
            profile,
            tag,
        } => format!("Q64:{}:{}:{}", vendor_id, profile, tag),
    }
}

fn tag_of(s: &str) -> TLVTag {
    if s == "a" {
        return TLVTag::Anonymous;
    }
    if let Some(v) = s.strip_prefix('c') {
        return TLVTag::Context(v.parse().unwrap());
    }
    let p: Vec<&str> = s.split(':').collect();
    match p[0] {
        "C16" => TLVTag::CommonPrf16(p[1].parse().unwrap()),
        "C32" => TLVTag::CommonPrf32(p[1].parse().unwrap()),
        "I16" => TLVTag::ImplPrf16(p[1].parse().unwrap()),
        "I32" => TLVTag::ImplPrf32(p[1].parse().unwrap()),
        "Q48" => TLVTag::FullQual48 {
            vendor_id: p[1].parse().unwrap(),
            profile: p[2].parse().unwrap(),
            tag: p[3].parse().unwrap(),
        },
        "Q64" => TLVTag::FullQual64 {
            vendor_id: p[1].parse().unwrap(),
            profile: p[2].parse().unwrap(),
            tag: p[3].parse().unwrap(),
        },
        _ => panic!("bad tag {}", s),
    }
}

fn val_s(v: &TLVValue) -> String {
    match v {
        TLVValue::S8(a) => format!("S1:{}", a),
        TLVValue::S16(a) => format!("S2:{}", a),
        TLVValue::S32(a) => format!("S4:{}", a),
        TLVValue::S64(a) => format!("S8:{}", a),
        TLVValue::U8(a) => format!("U1:{}", a),
        TLVValue::U16(a) => format!("U2:{}", a),
        TLVValue::U32(a) => format!("U4:{}", a),
        TLVValue::U64(a) => format!("U8:{}", a),
        TLVValue::False => "B0".into(),
        TLVValue::True => "B1".into(),
        TLVValue::F32(a) => format!("F32:{}", a.to_bits()),
        TLVValue::F64(a) => format!("F64:{}", a.to_bits()),
        TLVValue::Utf8l(a) => format!("T1:{}", hex(a.as_bytes())),
        TLVValue::Utf16l(a) => format!("T2:{}", hex(a.as_bytes())),
        TLVValue::Utf32l(a) => format!("T4:{}", hex(a.as_bytes())),
        TLVValue::Utf64l(a) => format!("T8:{}", hex(a.as_bytes())),
        TLVValue::Str8l(a) => format!("O1:{}", hex(a)),
        TLVValue::Str16l(a) => format!("O2:{}", hex(a)),
        TLVValue::Str32l(a) => format!("O4:{}", hex(a)),
        TLVValue::Str64l(a) => format!("O8:{}", hex(a)),
        TLVValue::Null => "N".into(),
        TLVValue::Struct => "K0".into(),
        TLVValue::Array => "K1".into(),
        TLVValue::List => "K2".into(),
        TLVValue::EndCnt => "Z".into(),
    }
}

/// Parse a value token; string payloads are borrowed from `store`.
fn val_of<'a>(s: &str, store: &'a [u8]) -> TLVValue<'a> {
    match s {
        "B0" => return TLVValue::False,
        "B1" => return TLVValue::True,
        "N" => return TLVValue::Null,
        "Z" => return TLVValue::EndCnt,
        "K0" => return TLVValue::Struct,
        "K1" => return TLVValue::Array,
        "K2" => return TLVValue::List,
        _ => {}
    }
    let (h, b) = s.split_once(':').unwrap();
    match h {
        "F32" => TLVValue::F32(f32::from_bits(b.parse().unwrap())),
        "F64" => TLVValue::F64(f64::from_bits(b.parse().unwrap())),
        "S1" => TLVValue::S8(b.parse().unwrap()),
        "S2" => TLVValue::S16(b.parse().unwrap()),
        "S4" => TLVValue::S32(b.parse().unwrap()),
        "S8" => TLVValue::S64(b.parse().unwrap()),
        "U1" => TLVValue::U8(b.parse().unwrap()),
        "U2" => TLVValue::U16(b.parse().unwrap()),
        "U4" => TLVValue::U32(b.parse().unwrap()),
        "U8" => TLVValue::U64(b.parse().unwrap()),
        "T1" => TLVValue::Utf8l(core::str::from_utf8(store).unwrap()),
        "T2" => TLVValue::Utf16l(core::str::from_utf8(store).unwrap()),
        "T4" => TLVValue::Utf32l(core::str::from_utf8(store).unwrap()),
        "T8" => TLVValue::Utf64l(core::str::from_utf8(store).unwrap()),
        "O1" => TLVValue::Str8l(store),
        "O2" => TLVValue::Str16l(store),
        "O4" => TLVValue::Str32l(store),
        "O8" => TLVValue::Str64l(store),
        _ => panic!("bad value {}", s),
    }
}

fn val_payload_hex(s: &str) -> Vec<u8> {
    match s.split_once(':') {
        Some((h, b)) if h.starts_with('T') || h.starts_with('O') => unhex(b),
        _ => Vec::new(),
    }
}

// ------------------------------------------------------------------ reader probes

/// One accessor under catch_unwind.
fn probe<T>(f: impl FnOnce() -> Result<T, Error>, show: impl FnOnce(T) -> String) -> String {
    match catch(AssertUnwindSafe(f)) {
        Err(_) => "P".into(),
        Ok(Err(_)) => "E".into(),
        Ok(Ok(v)) => format!("={}", show(v)),
    }
}

/// Drain `seq.iter()` without stopping at errors; `None` = more items than the input can hold
/// (the iterator does not terminate).
fn items(seq: &TLVSequence, cap: usize) -> Option<String> {
    let mut parts = Vec::new();
    let mut it = seq.iter();
    loop {
        match it.next() {
            None => break,
            Some(Ok(e)) => parts.push(e.raw_data().len().to_string()),
            Some(Err(_)) => parts.push("E".into()),
        }
        if parts.len() > cap {
            return None;
        }
    }
    Some(format!("[{}]", parts.join(",")))
}

fn tlv_items(seq: &TLVSequence, cap: usize) -> Option<String> {
    let mut parts = Vec::new();
    let mut it = seq.tlv_iter();
    loop {
        match it.next() {
            None => break,
            Some(Ok(t)) => parts.push(format!("{}={}", tag_s(&t.tag), val_s(&t.value))),
            Some(Err(_)) => parts.push("E".into()),
        }
        if parts.len() > cap {
            return None;
        }
    }
    Some(format!("[{}]", parts.join(",")))
}

/// Decode an element into a tree through the public accessors (as `TLVElement`'s Debug impl walks it).
fn tree_s(e: &TLVElement) -> Result<String, Error> {
    let t = e.tag()?;
    let v = e.value()?;
    let k = match v {
        TLVValue::Struct => 0,
        TLVValue::Array => 1,
        TLVValue::List => 2,
        _ => return Ok(format!("L({}={})", tag_s(&t), val_s(&v))),
    };
    let seq = e.container()?;
    let mut parts = Vec::new();
    for c in seq.iter() {
        let c = c?;
        parts.push(tree_s(&c)?);
    }
    Ok(format!("N({},K{},[{}])", tag_s(&t), k, parts.join(";")))
}

fn unbounded(o: Option<String>) -> String {
    match o {
        Some(s) => format!("={}", s),
        None => "F".into(),
    }
}

fn probe_fields(bs: &[u8]) -> Vec<String> {
    let e = TLVElement::new(bs);
    let cap = bs.len() + 3;
    let mut f: Vec<String> = Vec::with_capacity(56);
    f.push(probe(|| e.control(), |c| format!("{}.{}", c.tag_type as u8, c.value_type as u8)));
    f.push(probe(|| e.tag(), |t| tag_s(&t)));
    f.push(probe(|| e.value(), |v| val_s(&v)));
    f.push(probe(|| e.tlv(), |t| format!("{}={}", tag_s(&t.tag), val_s(&t.value))));
    f.push(probe(|| e.raw_value(), |v| format!("x{}", hex(v))));
    f.push(probe(|| e.i8(), |v| v.to_string()));
    f.push(probe(|| e.i16(), |v| v.to_string()));
    f.push(probe(|| e.i32(), |v| v.to_string()));
    f.push(probe(|| e.i64(), |v| v.to_string()));
    f.push(probe(|| e.u8(), |v| v.to_string()));
    f.push(probe(|| e.u16(), |v| v.to_string()));
    f.push(probe(|| e.u32(), |v| v.to_string()));
    f.push(probe(|| e.u64(), |v| v.to_string()));
    f.push(probe(|| e.f32(), |v| v.to_bits().to_string()));
    f.push(probe(|| e.f64(), |v| v.to_bits().to_string()));
    f.push(probe(|| e.str(), |v| format!("x{}", hex(v))));
    f.push(probe(|| e.utf8(), |v| format!("x{}", hex(v.as_bytes()))));
    f.push(probe(|| e.octets(), |v| format!("x{}", hex(v))));
    f.push(probe(|| e.bool(), |v| (v as u8).to_string()));
    f.push(probe(|| e.is_container(), |v| (v as u8).to_string()));
    f.push(probe(|| e.null(), |_| "u".into()));
    f.push(probe(|| e.structure(), |_| "u".into()));
    f.push(probe(|| e.array(), |_| "u".into()));
    f.push(probe(|| e.list(), |_| "u".into()));
    f.push(probe(|| e.container(), |_| "u".into()));
    f.push(probe(|| e.confirm_anon(), |_| "u".into()));
    f.push(probe(|| e.ctx(), |v| v.to_string()));
    f.push(probe(
        || e.try_ctx(),
        |v| match v {
            Some(x) => x.to_string(),
            None => "-".into(),
        },
    ));
    f.push(probe(|| tree_s(&e), |s| s));
    f.push(probe(
        || {
            let t = e.tag()?;
            let mut buf = vec![0u8; bs.len() + 32];
            let mut wb = WriteBuf::new(&mut buf);
            e.to_tlv(&t, &mut wb)?;
            Ok(wb.as_slice().to_vec())
        },
        |v| format!("x{}", hex(&v)),
    ));

    // the TLVSequence over `bs`: the content of a structure whose bytes are 0x15 :: bs
    let mut outer = Vec::with_capacity(bs.len() + 1);
    outer.push(0x15u8);
    outer.extend_from_slice(bs);
    let seq = TLVElement::new(&outer)
        .structure()
        .expect("structure() of 0x15 :: bs");
    f.push(match catch(AssertUnwindSafe(|| items(&seq, cap))) {
        Err(_) => "P".into(),
        Ok(o) => unbounded(o),
    });
    f.push(match catch(AssertUnwindSafe(|| tlv_items(&seq, cap))) {
        Err(_) => "P".into(),
        Ok(o) => unbounded(o),
    });
    f.push(probe(|| seq.raw_value(), |v| format!("x{}", hex(v))));
    let keys = [
        0u8,
        1,
        2,
        255,
        bs.get(1).copied().unwrap_or(0),
        bs.get(2).copied().unwrap_or(7),
    ];
    for k in keys {
        f.push(probe(|| seq.find_ctx(k), |e| e.raw_data().len().to_string()));
    }
    for k in keys {
        f.push(probe(|| seq.ctx(k), |e| e.raw_data().len().to_string()));
    }
    for k in keys {
        let r = catch(AssertUnwindSafe(|| {
            let mut s2 = seq.clone();
            match s2.scan_ctx(k) {
                Err(_) => Ok("E".to_string()),
                Ok(el) => match items(&s2, cap) {
                    Some(rest) => Ok(format!("={}@{}", el.raw_data().len(), rest)),
                    None => Err(()),
                },
            }
        }));
        f.push(match r {
            Err(_) => "P".into(),
            Ok(Ok(s)) => s,
            Ok(Err(())) => "F".into(),
        });
    }
    f
}

fn digest_str(h: &mut u64, s: &str) {
    for b in s.bytes() {
        *h = (*h ^ b as u64).wrapping_mul(0x0000_0100_0000_01b3);
    }
}

// ------------------------------------------------------------------ writer

struct Tok {
    kind: String,
    tag: TLVTag,
    arg: String,
    payload: Vec<u8>,
}

fn parse_tok(t: &str) -> Tok {
    let p: Vec<&str> = t.split(',').collect();
    if p[0] == "E" {
        return Tok {
            kind: "E".into(),
            tag: TLVTag::Anonymous,
            arg: String::new(),
            payload: Vec::new(),
        };
    }
    let arg = p.get(2).copied().unwrap_or("").to_string();
    let payload = match p[0] {
        "L" => val_payload_hex(&arg),
        "str" | "utf8" => unhex(&arg),
        _ => Vec::new(),
    };
    Tok {
        kind: p[0].to_string(),
        tag: tag_of(p[1]),
        arg,
        payload,
    }
}

fn kind_vt(k: &str) -> TLVValueType {
    match k {
        "0" => TLVValueType::Struct,
        "1" => TLVValueType::Array,
        _ => TLVValueType::List,
    }
}

/// One writer call on a `TLVWrite`.
fn write_tok(wb: &mut WriteBuf, t: &Tok) -> Result<(), Error> {
    let tag = &t.tag;
    match t.kind.as_str() {
        "L" => wb.tlv(tag, &val_of(&t.arg, &t.payload)),
        "N" => wb.start_container(tag, kind_vt(&t.arg)),
        "E" => wb.end_container(),
        "i1" => wb.i8(tag, t.arg.parse().unwrap()),
        "i2" => wb.i16(tag, t.arg.parse().unwrap()),
        "i4" => wb.i32(tag, t.arg.parse().unwrap()),
        "i8" => wb.i64(tag, t.arg.parse().unwrap()),
        "u1" => wb.u8(tag, t.arg.parse().unwrap()),
        "u2" => wb.u16(tag, t.arg.parse().unwrap()),
        "u4" => wb.u32(tag, t.arg.parse().unwrap()),
        "u8" => wb.u64(tag, t.arg.parse().unwrap()),
        "f32" => wb.f32(tag, f32::from_bits(t.arg.parse().unwrap())),
        "f64" => wb.f64(tag, f64::from_bits(t.arg.parse().unwrap())),
        "str" => wb.str(tag, &t.payload),
        "utf8" => wb.utf8(tag, core::str::from_utf8(&t.payload).unwrap()),
        "bool" => wb.bool(tag, t.arg == "1"),
        "null" => wb.null(tag),
        other => panic!("bad op {}", other),
    }
}

/// Write the tokens through `TLVWrite`.
fn write_direct(toks: &[Tok], buf: &mut [u8]) -> Result<Vec<u8>, Error> {
    let mut wb = WriteBuf::new(buf);
    for t in toks {
        write_tok(&mut wb, t)?;
    }
    Ok(wb.as_slice().to_vec())
}

/// The same tokens through the `TLV` constructors and `TLV::bytes_iter`.
fn write_iter(toks: &[Tok]) -> Vec<u8> {
    let mut out = Vec::new();
    for t in toks {
        let tag = t.tag.clone();
        let tlv = match t.kind.as_str() {
            "L" => TLV::new(tag, val_of(&t.arg, &t.payload)),
            "N" => match t.arg.as_str() {
                "0" => TLV::structure(tag),
                "1" => TLV::array(tag),
                _ => TLV::list(tag),
            },
            "E" => TLV::end_container(),
            "i1" => TLV::i8(tag, t.arg.parse().unwrap()),
            "i2" => TLV::i16(tag, t.arg.parse().unwrap()),
            "i4" => TLV::i32(tag, t.arg.parse().unwrap()),
            "i8" => TLV::i64(tag, t.arg.parse().unwrap()),
            "u1" => TLV::u8(tag, t.arg.parse().unwrap()),
            "u2" => TLV::u16(tag, t.arg.parse().unwrap()),
            "u4" => TLV::u32(tag, t.arg.parse().unwrap()),
            "u8" => TLV::u64(tag, t.arg.parse().unwrap()),
            "f32" => TLV::f32(tag, f32::from_bits(t.arg.parse().unwrap())),
            "f64" => TLV::f64(tag, f64::from_bits(t.arg.parse().unwrap())),
            "str" => TLV::str(tag, &t.payload),
            "utf8" => TLV::utf8(tag, core::str::from_utf8(&t.payload).unwrap()),
            "bool" => TLV::bool(tag, t.arg == "1"),
            "null" => TLV::null(tag),
            other => panic!("bad op {}", other),
        };
        out.extend(tlv.bytes_iter());
    }
    out
}

fn run_writer(kind: &str, id: &str, toks: &[&str], out: &mut String) {
    let toks: Vec<Tok> = toks.iter().map(|t| parse_tok(t)).collect();
    let size: usize = toks.iter().map(|t| t.payload.len() + 32).sum::<usize>() + 64;
    let r = catch(AssertUnwindSafe(|| {
        let mut buf = vec![0u8; size];
        let a = write_direct(&toks, &mut buf);
        let b = write_iter(&toks);
        (a, b)
    }));
    match r {
        Err(_) => writeln!(out, "{} {} P", kind, id).unwrap(),
        Ok((Err(_), _)) => writeln!(out, "{} {} E", kind, id).unwrap(),
        Ok((Ok(a), b)) => {
            let bytes = if a == b {
                hex(&a)
            } else {
                format!("{}!=iter:{}", hex(&a), hex(&b))
            };
            if kind == "T" {
                // read the written bytes back with the real reader (tag(), value(),
                // container()?.iter() recursively) and re-encode that element through
                // ToTLV::tlv_iter + TLV::bytes_iter
                let e = TLVElement::new(&a);
                let readback = probe(|| tree_s(&e), |s| s);
                let readback = readback.strip_prefix('=').unwrap_or(&readback).to_string();
                let reenc = probe(
                    || {
                        let t = e.tag()?;
                        let mut v = Vec::new();
                        for x in ToTLV::tlv_iter(&e, t) {
                            v.extend(x?.bytes_iter());
                        }
                        Ok(v)
                    },
                    |v| hex_or_dash(&v),
                );
                let reenc = reenc.strip_prefix('=').unwrap_or(&reenc).to_string();
                writeln!(out, "{} {} {} {} {}", kind, id, bytes, readback, reenc).unwrap()
            } else {
                writeln!(out, "{} {} {}", kind, id, bytes).unwrap()
            }
        }
    }
}

// ------------------------------------------------------------------ derived encoders (tested only)

#[derive(Debug, Clone, PartialEq, FromTLV, ToTLV)]
struct Inner {
    a: u8,
    b: Option<i32>,
    c: bool,
}

type Arr3 = [u8; 3];

#[derive(Debug, Clone, PartialEq, FromTLV, ToTLV)]
#[tlvargs(lifetime = "'a")]
struct Mixed<'a> {
    u_8: u8,
    u_16: u16,
    u_32: u32,
    u_64: u64,
    i_8: i8,
    i_16: i16,
    i_32: i32,
    i_64: i64,
    flag: bool,
    opt: Option<u32>,
    nul: Nullable<u16>,
    inner: Inner,
    octets: OctetStr<'a>,
    text: Utf8Str<'a>,
    arr: Arr3,
    #[tagval(0xFE)]
    fab_idx: u8,
}

#[derive(Debug, Clone, PartialEq, FromTLV, ToTLV)]
enum Choice {
    First(u32),
    Second(Inner),
}

#[derive(Debug, Clone, PartialEq, FromTLV, ToTLV)]
#[tlvargs(datatype = "list")]
struct AsList {
    x: Option<u16>,
    y: Option<u64>,
}

fn pick_u64(r: &mut Rng) -> u64 {
    const E: [u64; 14] = [
        0,
        1,
        127,
        128,
        255,
        256,
        32767,
        32768,
        65535,
        65536,
        0x7fff_ffff,
        0xffff_ffff,
        0x1_0000_0000,
        u64::MAX,
    ];
    match r.below(3) {
        0 => *r.pick(&E),
        1 => r.next() >> r.below(64),
        _ => r.next(),
    }
}

fn pick_i64(r: &mut Rng) -> i64 {
    const E: [i64; 16] = [
        0,
        -1,
        127,
        128,
        -128,
        -129,
        32767,
        32768,
        -32768,
        -32769,
        2147483647,
        2147483648,
        -2147483648,
        -2147483649,
        i64::MAX,
        i64::MIN,
    ];
    match r.below(3) {
        0 => *r.pick(&E),
        1 => (r.next() as i64) >> r.below(64),
        _ => r.next() as i64,
    }
}

macro_rules! opt {
    ($r:expr, $v:expr $(,)?) => {{
        let v = $v;
        if $r.chance(2, 3) {
            Some(v)
        } else {
            None
        }
    }};
}

/// Hostile-input decoding per kind: the derived decoder must return, never panic or spin.
fn derived_hostile(kind: &str, m: &[u8]) -> Result<(), String> {
    let res = catch(AssertUnwindSafe(|| {
        let el = TLVElement::new(m);
        match kind {
            "mixed" => {
                let _ = Mixed::from_tlv(&el);
            }
            "choice" => {
                let _ = Choice::from_tlv(&el);
            }
            "aslist" => {
                let _ = AsList::from_tlv(&el);
            }
            "attrpath" => {
                let _ = AttrPath::from_tlv(&el);
            }
            "eventpath" => {
                let _ = EventPath::from_tlv(&el);
            }
            "cmdpath" => {
                let _ = CmdPath::from_tlv(&el);
            }
            "dvf" => {
                let _ = DataVersionFilter::from_tlv(&el);
            }
            "timed" => {
                let _ = TimedReq::from_tlv(&el);
            }
            "attrstatus" => {
                let _ = AttrStatus::from_tlv(&el);
            }
            "array" => {
                // a typed array of a derived struct, iterated and debug-printed (bounded)
                if let Ok(a) = TLVArray::<Inner>::from_tlv(&el) {
                    let mut k = 0usize;
                    for it in a.iter() {
                        let _ = it;
                        k += 1;
                        if k > m.len() + 3 {
                            panic!("TLVArray iteration does not terminate");
                        }
                    }
                    struct Bounded(usize);
                    impl std::fmt::Write for Bounded {
                        fn write_str(&mut self, s: &str) -> std::fmt::Result {
                            self.0 += s.len();
                            if self.0 > 1_000_000 {
                                panic!("Debug of TLVArray does not terminate");
                            }
                            Ok(())
                        }
                    }
                    let mut w = Bounded(0);
                    let _ = write!(w, "{:?}", a);
                }
            }
            _ => {}
        }
    }));
    res.map_err(|p| {
        format!(
            "PANIC on hostile input {}: {}",
            hex(m),
            p.lines().next().unwrap_or("")
        )
    })
}

fn hostile_variants(direct: &[u8], r: &mut Rng) -> Vec<Vec<u8>> {
    let mut variants: Vec<Vec<u8>> = Vec::new();
    for cut in 0..direct.len() {
        variants.push(direct[..cut].to_vec());
    }
    for i in 0..direct.len() {
        for x in [0x00u8, 0x18, 0x15, 0x16, 0x13, 0x0f, 0xff, 0x04, 0x24] {
            let mut m = direct.to_vec();
            m[i] = x;
            variants.push(m);
        }
        let mut m = direct.to_vec();
        m[i] ^= 1 << r.below(8);
        variants.push(m);
    }
    variants
}

/// Encode `v` with to_tlv and with tlv_iter (same bytes), re-encode the encoded element through
/// `ToTLV for TLVElement` both ways (same bytes), decode it back (equal value), then feed hostile
/// variants of the encoding to the derived decoder.
macro_rules! derived_case {
    ($kind:expr, $ty:ty, $v:expr, $r:expr) => {{
        let v: $ty = $v;
        (|| -> Result<u32, String> {
            let mut tmp = vec![0u8; 4096];
            let mut wb = WriteBuf::new(&mut tmp);
            v.to_tlv(&TLVTag::Anonymous, &mut wb)
                .map_err(|e| format!("to_tlv error {:?} for {:?}", e.code(), v))?;
            let direct = wb.as_slice().to_vec();
            let mut via_iter = Vec::new();
            for t in v.tlv_iter(TLVTag::Anonymous) {
                let t = t.map_err(|e| format!("tlv_iter error {:?}", e.code()))?;
                via_iter.extend(t.bytes_iter());
            }
            if via_iter != direct {
                return Err(format!(
                    "to_tlv {} != tlv_iter {} for {:?}",
                    hex(&direct),
                    hex(&via_iter),
                    v
                ));
            }
            {
                let el = TLVElement::new(&direct);
                let mut tmp2 = vec![0u8; 4096];
                let mut wb2 = WriteBuf::new(&mut tmp2);
                el.to_tlv(&TLVTag::Anonymous, &mut wb2)
                    .map_err(|e| format!("element to_tlv error {:?}", e.code()))?;
                if wb2.as_slice() != &direct[..] {
                    return Err(format!(
                        "element to_tlv {} != {}",
                        hex(wb2.as_slice()),
                        hex(&direct)
                    ));
                }
                let mut again = Vec::new();
                for t in ToTLV::tlv_iter(&el, TLVTag::Anonymous) {
                    let t = t.map_err(|e| format!("element tlv_iter error {:?}", e.code()))?;
                    again.extend(t.bytes_iter());
                }
                if again != direct {
                    return Err(format!(
                        "element tlv_iter {} != {}",
                        hex(&again),
                        hex(&direct)
                    ));
                }
            }
            let el = TLVElement::new(&direct);
            let back = <$ty>::from_tlv(&el)
                .map_err(|e| format!("from_tlv error {:?} on {}", e.code(), hex(&direct)))?;
            if back != v {
                return Err(format!("decoded {:?} != written {:?}", back, v));
            }
            let mut n = 0u32;
            for m in hostile_variants(&direct, $r) {
                derived_hostile($kind, &m)?;
                n += 1;
            }
            Ok(n)
        })()
    }};
}

fn run_derived(id: &str, kind: &str, seed: u64, out: &mut String) {
    // a panic anywhere in the round trip itself is a failure of the case, not of the harness
    let mut line = String::new();
    match catch(AssertUnwindSafe(|| run_derived_inner(id, kind, seed, &mut line))) {
        Ok(()) => out.push_str(&line),
        Err(p) => writeln!(
            out,
            "D {} FAIL PANIC in the round trip of a valid value: {}",
            id,
            p.lines().next().unwrap_or("")
        )
        .unwrap(),
    }
}

fn run_derived_inner(id: &str, kind: &str, seed: u64, out: &mut String) {
    let mut rng = Rng::new(seed);
    let r = &mut rng;
    let octets: Vec<u8> = (0..r.below(40)).map(|_| r.next() as u8).collect();
    let text: String = (0..r.below(20))
        .map(|_| *r.pick(&['a', 'Z', '0', ' ', '\u{e9}', '\u{4e16}', '\u{1f600}']))
        .collect();
    let inner = |r: &mut Rng| Inner {
        a: pick_u64(r) as u8,
        b: opt!(r, pick_i64(r) as i32),
        c: r.chance(1, 2),
    };
    let res = match kind {
        "mixed" => {
            let nul_v = pick_u64(r) as u16;
            let v = Mixed {
                u_8: pick_u64(r) as u8,
                u_16: pick_u64(r) as u16,
                u_32: pick_u64(r) as u32,
                u_64: pick_u64(r),
                i_8: pick_i64(r) as i8,
                i_16: pick_i64(r) as i16,
                i_32: pick_i64(r) as i32,
                i_64: pick_i64(r),
                flag: r.chance(1, 2),
                opt: opt!(r, pick_u64(r) as u32),
                nul: if r.chance(1, 3) || nul_v == u16::MAX {
                    Nullable::none()
                } else {
                    Nullable::some(nul_v)
                },
                inner: inner(r),
                octets: Octets(&octets),
                text: &text,
                arr: [r.next() as u8, r.next() as u8, r.next() as u8],
                fab_idx: r.next() as u8,
            };
            derived_case!("mixed", Mixed, v, r)
        }
        "choice" => {
            let v = if r.chance(1, 2) {
                Choice::First(pick_u64(r) as u32)
            } else {
                Choice::Second(inner(r))
            };
            derived_case!("choice", Choice, v, r)
        }
        "aslist" => {
            let v = AsList {
                x: opt!(r, pick_u64(r) as u16),
                y: opt!(r, pick_u64(r)),
            };
            derived_case!("aslist", AsList, v, r)
        }
        "attrpath" => {
            let li = pick_u64(r) as u16;
            let v = AttrPath {
                tag_compression: opt!(r, r.chance(1, 2)),
                node: opt!(r, pick_u64(r)),
                endpoint: opt!(r, pick_u64(r) as u16),
                cluster: opt!(r, pick_u64(r) as u32),
                attr: opt!(r, pick_u64(r) as u32),
                list_index: opt!(
                    r,
                    if li == u16::MAX || li % 3 == 0 {
                        Nullable::none()
                    } else {
                        Nullable::some(li)
                    },
                ),
            };
            derived_case!("attrpath", AttrPath, v, r)
        }
        "eventpath" => {
            let v = EventPath {
                node: opt!(r, pick_u64(r)),
                endpoint: opt!(r, pick_u64(r) as u16),
                cluster: opt!(r, pick_u64(r) as u32),
                event: opt!(r, pick_u64(r) as u32),
                is_urgent: opt!(r, r.chance(1, 2)),
            };
            derived_case!("eventpath", EventPath, v, r)
        }
        "cmdpath" => {
            let v = CmdPath {
                endpoint: opt!(r, pick_u64(r) as u16),
                cluster: opt!(r, pick_u64(r) as u32),
                cmd: opt!(r, pick_u64(r) as u32),
            };
            derived_case!("cmdpath", CmdPath, v, r)
        }
        "dvf" => {
            let v = DataVersionFilter {
                path: ClusterPath {
                    node: opt!(r, pick_u64(r)),
                    endpoint: pick_u64(r) as u16,
                    cluster: pick_u64(r) as u32,
                },
                data_ver: pick_u64(r) as u32,
            };
            derived_case!("dvf", DataVersionFilter, v, r)
        }
        "timed" => {
            let v = TimedReq {
                timeout: pick_u64(r) as u16,
                interaction_model_revision: opt!(r, r.next() as u8),
            };
            derived_case!("timed", TimedReq, v, r)
        }
        "attrstatus" => {
            let codes = [
                IMStatusCode::Success,
                IMStatusCode::Failure,
                IMStatusCode::UnsupportedAccess,
                IMStatusCode::InvalidAction,
            ];
            let v = AttrStatus {
                path: AttrPath {
                    tag_compression: None,
                    node: opt!(r, pick_u64(r)),
                    endpoint: opt!(r, pick_u64(r) as u16),
                    cluster: opt!(r, pick_u64(r) as u32),
                    attr: opt!(r, pick_u64(r) as u32),
                    list_index: None,
                },
                status: Status::new(*r.pick(&codes), opt!(r, pick_u64(r) as u16)),
            };
            derived_case!("attrstatus", AttrStatus, v, r)
        }
        "array" => {
            // an array of derived structs written through the slice encoder, read back as TLVArray
            let n = r.below(5) as usize;
            let xs: Vec<Inner> = (0..n).map(|_| inner(r)).collect();
            (|| -> Result<u32, String> {
                let mut tmp = vec![0u8; 4096];
                let mut wb = WriteBuf::new(&mut tmp);
                xs.as_slice()
                    .to_tlv(&TLVTag::Anonymous, &mut wb)
                    .map_err(|e| format!("to_tlv error {:?}", e.code()))?;
                let direct = wb.as_slice().to_vec();
                let el = TLVElement::new(&direct);
                let arr = TLVArray::<Inner>::from_tlv(&el)
                    .map_err(|e| format!("from_tlv {:?}", e.code()))?;
                let back: Result<Vec<Inner>, Error> = arr.iter().collect();
                let back = back.map_err(|e| format!("item error {:?}", e.code()))?;
                if back != xs {
                    return Err(format!("decoded {:?} != written {:?}", back, xs));
                }
                let mut k = 0u32;
                for m in hostile_variants(&direct, r) {
                    derived_hostile("array", &m)?;
                    k += 1;
                }
                // a non-container where an array is expected must be an error, not a panic (F9d)
                for m in [
                    vec![0x04u8, 0x01],
                    vec![0x24, 0x00, 0x01],
                    vec![0x10, 0x00],
                    vec![0x14],
                ] {
                    derived_hostile("array", &m)?;
                    let el = TLVElement::new(&m);
                    if TLVArray::<Inner>::from_tlv(&el).is_ok() {
                        return Err(format!("TLVArray::from_tlv accepted non-array {}", hex(&m)));
                    }
                    k += 1;
                }
                Ok(k)
            })()
        }
        other => Err(format!("unknown kind {}", other)),
    };
    match res {
        Ok(n) => writeln!(out, "D {} ok {}", id, n).unwrap(),
        Err(e) => writeln!(out, "D {} FAIL {}", id, e.replace('\n', " ")).unwrap(),
    }
}

// ------------------------------------------------------------------ run

fn run_line(line: &str, out: &mut String) {
    let f: Vec<&str> = line.split(' ').collect();
    match f[0] {
        "R" => {
            let bs = unhex(f[2]);
            writeln!(out, "R {} {}", f[1], probe_fields(&bs).join(" ")).unwrap();
        }
        "X" => {
            let prefix = unhex(f[2]);
            let n: usize = f[3].parse().unwrap();
            let total = 1usize << (8 * n);
            let mut h: u64 = 0xcbf2_9ce4_8422_2325;
            let mut panics = 0usize;
            let mut bs = prefix.clone();
            bs.resize(prefix.len() + n, 0);
            for i in 0..total {
                for k in 0..n {
                    bs[prefix.len() + k] = (i >> (8 * (n - 1 - k))) as u8;
                }
                let fields = probe_fields(&bs);
                panics += fields.iter().filter(|x| *x == "P" || *x == "F").count();
                digest_str(&mut h, &fields.join(" "));
            }
            writeln!(out, "X {} {:016x} P={}", f[1], h, panics).unwrap();
        }
        "T" | "W" => run_writer(f[0], f[1], &f[2..], out),
        "D" => run_derived(f[1], f[2], f[3].parse().unwrap(), out),
        "Z" => run_z(&f, out),
        "Y" => run_y(&f, out),
        "K" => run_k(&f, out),
        "C" => run_c(&f, out),
        _ => {}
    }
}

// ------------------------------------------------------------------ zoo cases

fn z_enc<'a, T: D<'a> + ToTLV>(v: &'a DVal, tag: &TLVTag) -> (String, Option<Vec<u8>>) {
    match zoo::enc::<T>(v, tag) {
        Err(_) => ("E".into(), None),
        Ok((direct, Some(it))) if it == direct => (hex_or_dash(&direct), Some(direct)),
        Ok((direct, Some(it))) => (format!("{}!=iter:{}", hex_or_dash(&direct), hex(&it)), Some(direct)),
        Ok((direct, None)) => (format!("{}!=iter:E", hex_or_dash(&direct)), Some(direct)),
    }
}

fn z_dec<'b, T: D<'b> + FromTLV<'b>>(bytes: &'b [u8]) -> String {
    match zoo::dec::<T>(bytes) {
        Ok(v) => format!("={}", v.show()),
        Err(_) => "E".into(),
    }
}

fn z_cap<'a, T: D<'a> + ToTLV>(v: &'a DVal, cap: usize, prefix: &[u8]) -> (bool, Vec<u8>) {
    zoo::enc_cap::<T>(v, &TLVTag::Anonymous, cap, prefix)
}

fn hex_or_dash(b: &[u8]) -> String {
    if b.is_empty() {
        "-".into()
    } else {
        hex(b)
    }
}

fn decode_with(ty: usize, bytes: &[u8]) -> String {
    match catch(AssertUnwindSafe(|| crate::zoo_dispatch!(ty, z_dec, bytes))) {
        Ok(s) => s,
        Err(_) => "P".into(),
    }
}

fn run_z(f: &[&str], out: &mut String) {
    let ty: usize = f[2].parse().unwrap();
    let tag = tag_of(f[3]);
    let v = DVal::parse(f[4]);
    let (e, bytes) = match catch(AssertUnwindSafe(|| crate::zoo_dispatch!(ty, z_enc, &v, &tag))) {
        Ok(x) => x,
        Err(_) => ("P".to_string(), None),
    };
    let d = match &bytes {
        Some(b) => decode_with(ty, b),
        None => "-".into(),
    };
    writeln!(out, "Z {} {} {}", f[1], e, d).unwrap();
}

fn run_y(f: &[&str], out: &mut String) {
    let ty: usize = f[2].parse().unwrap();
    let bytes = unhex(f[3]);
    writeln!(out, "Y {} {}", f[1], decode_with(ty, &bytes)).unwrap();
}

fn run_k(f: &[&str], out: &mut String) {
    let ty: usize = f[2].parse().unwrap();
    let cap: usize = f[3].parse().unwrap();
    let prefix = unhex(f[4]);
    let v = DVal::parse(f[5]);
    match catch(AssertUnwindSafe(|| crate::zoo_dispatch!(ty, z_cap, &v, cap, &prefix))) {
        Ok((ok, sl)) => writeln!(out, "K {} {} {}", f[1], if ok { "0" } else { "E" }, hex_or_dash(&sl)).unwrap(),
        Err(_) => writeln!(out, "K {} P -", f[1]).unwrap(),
    }
}

fn run_c(f: &[&str], out: &mut String) {
    let cap: usize = f[2].parse().unwrap();
    let r = catch(AssertUnwindSafe(|| {
        let mut buf = vec![0u8; cap];
        let mut res = String::new();
        let sl;
        {
            let mut wb = WriteBuf::new(&mut buf);
            let mut anchors: Vec<usize> = Vec::new();
            for t in &f[3..] {
                if *t == "A" {
                    anchors.push(TLVWrite::get_tail(&wb));
                } else if let Some(k) = t.strip_prefix('R') {
                    let k: usize = k.parse().unwrap();
                    if let Some(a) = anchors.get(k) {
                        TLVWrite::rewind_to(&mut wb, *a);
                    }
                } else {
                    let tok = parse_tok(t);
                    res.push(if write_tok(&mut wb, &tok).is_ok() { '0' } else { 'E' });
                }
            }
            sl = wb.as_slice().to_vec();
        }
        (res, sl, buf)
    }));
    match r {
        Ok((res, sl, mem)) => writeln!(
            out,
            "C {} {} {} {}",
            f[1],
            if res.is_empty() { "-".to_string() } else { res },
            hex_or_dash(&sl),
            hex_or_dash(&mem)
        )
        .unwrap(),
        Err(_) => writeln!(out, "C {} P - -", f[1]).unwrap(),
    }
}

// ---- generation of zoo values and hostile encodings

fn gen_int(r: &mut Rng, signed: bool, w: u8) -> i128 {
    let bits = 8 * w as u32;
    if signed {
        let z = pick_i64(r);
        let z = if bits == 64 { z } else { (z << (64 - bits)) >> (64 - bits) };
        let lo = if bits == 64 { i64::MIN } else { -(1i64 << (bits - 1)) };
        let hi = if bits == 64 { i64::MAX } else { (1i64 << (bits - 1)) - 1 };
        (match r.below(8) {
            0 => lo,
            1 => hi,
            2 => lo + 1,
            _ => z,
        }) as i128
    } else {
        let n = pick_u64(r);
        let hi = if bits == 64 { u64::MAX } else { (1u64 << bits) - 1 };
        (match r.below(8) {
            0 => hi,
            1 => hi - 1,
            _ => n & hi,
        }) as i128
    }
}

fn gen_val(r: &mut Rng, d: &Dty) -> DVal {
    match d {
        Dty::Int(s, w) => DVal::Int(gen_int(r, *s, *w)),
        Dty::Bool => DVal::Bool(r.chance(1, 2)),
        Dty::F32 => DVal::Bits(*r.pick(&[0u64, 0x3eaa_aaab, 0x7f80_0000, 0xff80_0000, 0x8000_0000, 0x4049_0fdb])),
        Dty::F64 => DVal::Bits(*r.pick(&[0u64, 0x3fd5_5555_5555_5555, 0x7ff0_0000_0000_0000, 1 << 63, 0x4009_21fb_5444_2d18])),
        Dty::Octets => {
            let n = match r.below(6) {
                0 => 0,
                1 => 255,
                2 => 256,
                _ => r.below(12) as usize,
            };
            DVal::Bytes(gen_bytes(r, n))
        }
        Dty::Utf8 => {
            let n = r.below(10) as usize;
            DVal::Bytes(gen_utf8(r, n))
        }
        Dty::Option(d) => {
            if r.chance(1, 3) {
                DVal::None
            } else {
                DVal::Some(Box::new(gen_val(r, d)))
            }
        }
        Dty::Nullable(d) => {
            if r.chance(1, 3) {
                DVal::Null
            } else {
                DVal::NN(Box::new(gen_val(r, d)))
            }
        }
        Dty::Vec(cap, d) => {
            let n = r.below(*cap as u64 + 1) as usize;
            DVal::List((0..n).map(|_| gen_val(r, d)).collect())
        }
        Dty::Fixed(n, d) => DVal::List((0..*n).map(|_| gen_val(r, d)).collect()),
        Dty::Struct(fs) => DVal::Rec(fs.iter().map(|d| gen_val(r, d)).collect()),
        Dty::Enum(vs) => {
            let i = r.below(vs.len() as u64) as usize;
            DVal::Var(i, Box::new(gen_val(r, &vs[i])))
        }
        Dty::Unit(vals) => DVal::Unit(r.below(vals.len() as u64) as usize),
    }
}

fn z_bytes<'a, T: D<'a> + ToTLV>(v: &'a DVal) -> Option<Vec<u8>> {
    zoo::enc::<T>(v, &TLVTag::Anonymous).ok().map(|x| x.0)
}

/// children of the top-level container of `enc` as (start, end) offsets
fn children(enc: &[u8]) -> Option<Vec<(usize, usize)>> {
    let seq = TLVElement::new(enc).container().ok()?;
    let mut starts = Vec::new();
    for c in seq.iter() {
        starts.push(enc.len() - c.ok()?.raw_data().len());
    }
    let mut out = Vec::new();
    for (i, s) in starts.iter().enumerate() {
        let e = if i + 1 < starts.len() { starts[i + 1] } else { enc.len() - 1 };
        out.push((*s, e));
    }
    Some(out)
}

fn hostile_structural(enc: &[u8], r: &mut Rng) -> Vec<(&'static str, Vec<u8>)> {
    let mut v: Vec<(&'static str, Vec<u8>)> = Vec::new();
    for cut in 0..enc.len() {
        v.push(("y-truncated", enc[..cut].to_vec()));
    }
    for _ in 0..6 {
        let mut m = enc.to_vec();
        let i = r.below(m.len() as u64) as usize;
        m[i] = match r.below(3) {
            0 => *r.pick(&[0x18u8, 0x15, 0x16, 0x17, 0x14, 0x24, 0x25, 0x30, 0x2c]),
            1 => m[i] ^ (1 << r.below(8)),
            _ => r.next() as u8,
        };
        v.push(("y-byte", m));
    }
    let mut tr = enc.to_vec();
    tr.extend([0x24, 0x00, 0x09]);
    v.push(("y-trailing", tr));
    if let Some(ch) = children(enc) {
        let head = if ch.is_empty() { enc.len() - 1 } else { ch[0].0 };
        let build = |parts: &[&[u8]]| {
            let mut m = enc[..head].to_vec();
            for p in parts {
                m.extend_from_slice(p);
            }
            m.push(0x18);
            m
        };
        let slices: Vec<&[u8]> = ch.iter().map(|(s, e)| &enc[*s..*e]).collect();
        // a field removed
        for i in 0..slices.len() {
            let parts: Vec<&[u8]> = slices.iter().enumerate().filter(|(j, _)| *j != i).map(|(_, s)| *s).collect();
            v.push(("y-field-removed", build(&parts)));
        }
        // fields in another order
        if slices.len() > 1 {
            let mut rev = slices.clone();
            rev.reverse();
            v.push(("y-reordered", build(&rev)));
            let mut rot = slices.clone();
            rot.rotate_left(1);
            v.push(("y-reordered", build(&rot)));
        }
        // unknown extra fields
        let extras: [&[u8]; 5] = [
            &[0x24, 0x4d, 0x01],
            &[0x35, 0x4e, 0x24, 0x00, 0x01, 0x24, 0x01, 0x02, 0x18],
            &[0x04, 0x05],
            &[0x44, 0x01, 0x00, 0x07],
            &[0x36, 0x4f, 0x18],
        ];
        for x in extras {
            for pos in [0usize, slices.len() / 2, slices.len()] {
                let mut parts = slices.clone();
                parts.insert(pos, x);
                v.push(("y-extra-field", build(&parts)));
            }
        }
        // a field twice (the first one counts)
        for i in 0..slices.len() {
            let mut parts = slices.clone();
            parts.push(slices[i]);
            v.push(("y-duplicate", build(&parts)));
        }
        // a field of another type under the same tag
        for i in 0..slices.len() {
            let c = slices[i];
            if c[0] >> 5 == 1 {
                let k = c[1];
                let repl: [Vec<u8>; 6] = [
                    vec![0x34, k],
                    vec![0x29, k],
                    vec![0x27, k, 1, 2, 3, 4, 5, 6, 7, 8],
                    vec![0x2c, k, 0x01, 0x41],
                    vec![0x35, k, 0x18],
                    vec![0x36, k, 0x04, 0x01, 0x18],
                ];
                for x in &repl {
                    let mut parts = slices.clone();
                    parts[i] = x;
                    v.push(("y-type-confused", build(&parts)));
                }
            }
        }
        // integer fields at the extremes of their encoded width (what a Nullable must refuse)
        for i in 0..slices.len() {
            let c = slices[i];
            let vt = c[0] & 0x1f;
            if c[0] >> 5 == 1 && vt < 8 {
                let w = 1usize << (vt & 3);
                if c.len() == 2 + w {
                    for fill in [0u8, 1, 2] {
                        let mut x = c.to_vec();
                        for (j, b) in x[2..].iter_mut().enumerate() {
                            *b = match fill {
                                0 => 0xff,
                                1 => if j + 1 == w { 0x80 } else { 0x00 },
                                _ => if j + 1 == w { 0x7f } else { 0xff },
                            };
                        }
                        let mut parts = slices.clone();
                        parts[i] = &x;
                        v.push(("y-int-extreme", build(&parts)));
                    }
                }
            }
        }
        // another container type
        for b in [0x15u8, 0x16, 0x17] {
            if enc[0] & 0x1f != b & 0x1f {
                let mut m = enc.to_vec();
                m[0] = (m[0] & 0xe0) | (b & 0x1f);
                v.push(("y-container-kind", m));
            }
        }
    }
    v
}

// ------------------------------------------------------------------ gen

#[derive(Clone)]
enum GVal {
    S(u8, i64),
    U(u8, u64),
    Bool(bool),
    F32(u32),
    F64(u64),
    Utf(u8, Vec<u8>),
    Str(u8, Vec<u8>),
    Null,
}

#[derive(Clone)]
enum GTree {
    Leaf(TLVTag, GVal),
    Node(TLVTag, u8, Vec<GTree>),
}

struct LenField {
    ctl: usize,
    off: usize,
    width: usize,
    len: u64,
}

fn gval_tok(v: &GVal) -> String {
    match v {
        GVal::S(w, z) => format!("S{}:{}", w, z),
        GVal::U(w, n) => format!("U{}:{}", w, n),
        GVal::Bool(b) => format!("B{}", *b as u8),
        GVal::F32(b) => format!("F32:{}", b),
        GVal::F64(b) => format!("F64:{}", b),
        GVal::Utf(w, s) => format!("T{}:{}", w, hex(s)),
        GVal::Str(w, s) => format!("O{}:{}", w, hex(s)),
        GVal::Null => "N".into(),
    }
}

fn gtree_toks(t: &GTree, out: &mut Vec<String>) {
    match t {
        GTree::Leaf(tag, v) => out.push(format!("L,{},{}", tag_s(tag), gval_tok(v))),
        GTree::Node(tag, k, cs) => {
            out.push(format!("N,{},{}", tag_s(tag), k));
            for c in cs {
                gtree_toks(c, out);
            }
            out.push("E".into());
        }
    }
}

fn enc_tag(t: &TLVTag, out: &mut Vec<u8>) -> u8 {
    match t {
        TLVTag::Anonymous => 0,
        TLVTag::Context(v) => {
            out.push(*v);
            1
        }
        TLVTag::CommonPrf16(v) => {
            out.extend(v.to_le_bytes());
            2
        }
        TLVTag::CommonPrf32(v) => {
            out.extend(v.to_le_bytes());
            3
        }
        TLVTag::ImplPrf16(v) => {
            out.extend(v.to_le_bytes());
            4
        }
        TLVTag::ImplPrf32(v) => {
            out.extend(v.to_le_bytes());
            5
        }
        TLVTag::FullQual48 {
            vendor_id,
            profile,
            tag,
        } => {
            out.extend(vendor_id.to_le_bytes());
            out.extend(profile.to_le_bytes());
            out.extend(tag.to_le_bytes());
            6
        }
        TLVTag::FullQual64 {
            vendor_id,
            profile,
            tag,
        } => {
            out.extend(vendor_id.to_le_bytes());
            out.extend(profile.to_le_bytes());
            out.extend(tag.to_le_bytes());
            7
        }
    }
}

fn widx(w: u8) -> u8 {
    match w {
        1 => 0,
        2 => 1,
        4 => 2,
        _ => 3,
    }
}

/// The generator's own encoder (inputs for the reader cases only), recording where length fields sit.
fn genc(t: &GTree, out: &mut Vec<u8>, lens: &mut Vec<LenField>) {
    let ctl = out.len();
    out.push(0);
    match t {
        GTree::Leaf(tag, v) => {
            let tt = enc_tag(tag, out);
            let vt = match v {
                GVal::S(w, z) => {
                    out.extend(&z.to_le_bytes()[..*w as usize]);
                    widx(*w)
                }
                GVal::U(w, n) => {
                    out.extend(&n.to_le_bytes()[..*w as usize]);
                    4 + widx(*w)
                }
                GVal::Bool(b) => 8 + *b as u8,
                GVal::F32(b) => {
                    out.extend(b.to_le_bytes());
                    10
                }
                GVal::F64(b) => {
                    out.extend(b.to_le_bytes());
                    11
                }
                GVal::Utf(w, s) | GVal::Str(w, s) => {
                    lens.push(LenField {
                        ctl,
                        off: out.len(),
                        width: *w as usize,
                        len: s.len() as u64,
                    });
                    out.extend(&(s.len() as u64).to_le_bytes()[..*w as usize]);
                    out.extend(s);
                    (if matches!(v, GVal::Utf(..)) { 12 } else { 16 }) + widx(*w)
                }
                GVal::Null => 20,
            };
            out[ctl] = (tt << 5) | vt;
        }
        GTree::Node(tag, k, cs) => {
            let tt = enc_tag(tag, out);
            out[ctl] = (tt << 5) | (21 + k);
            for c in cs {
                genc(c, out, lens);
            }
            out.push(0x18);
        }
    }
}

fn gen_tag(r: &mut Rng, ctx_heavy: bool) -> TLVTag {
    let pick16 = |r: &mut Rng| *r.pick(&[0u16, 1, 255, 256, 0xfff1, 0xffff]);
    let pick32 = |r: &mut Rng| *r.pick(&[0u32, 1, 65535, 65536, 0xaa55_feed, 0xffff_ffff]);
    let k = if ctx_heavy { r.below(12) } else { r.below(8) };
    match k {
        0 => TLVTag::Anonymous,
        2 => TLVTag::CommonPrf16(pick16(r)),
        3 => TLVTag::CommonPrf32(pick32(r)),
        4 => TLVTag::ImplPrf16(pick16(r)),
        5 => TLVTag::ImplPrf32(pick32(r)),
        6 => TLVTag::FullQual48 {
            vendor_id: pick16(r),
            profile: pick16(r),
            tag: pick16(r),
        },
        7 => TLVTag::FullQual64 {
            vendor_id: pick16(r),
            profile: pick16(r),
            tag: pick32(r),
        },
        _ => TLVTag::Context(*r.pick(&[0u8, 1, 2, 3, 5, 7, 254, 255])),
    }
}

const UTF8_SAMPLES: [&str; 8] = [
    "",
    "a",
    "Hello!",
    "Tsch\u{fc}s",
    "\u{4e16}\u{754c}",
    "\u{1f600}",
    "\u{7ff}\u{800}\u{ffff}\u{10000}\u{10ffff}",
    "\u{0}\u{7f}\u{80}",
];

fn gen_bytes(r: &mut Rng, n: usize) -> Vec<u8> {
    (0..n).map(|_| r.next() as u8).collect()
}

fn gen_utf8(r: &mut Rng, approx: usize) -> Vec<u8> {
    let mut s = String::new();
    while s.len() < approx {
        s.push_str(*r.pick(&UTF8_SAMPLES[..]));
        if r.chance(1, 4) {
            s.push((b'a' + r.below(26) as u8) as char);
        }
    }
    s.into_bytes()
}

fn gen_leaf(r: &mut Rng, hist: &mut BTreeMap<String, u64>) -> GVal {
    let w = *r.pick(&[1u8, 2, 4, 8]);
    let k = r.below(10);
    let (name, v) = match k {
        0 | 1 => {
            let bits = 8 * w as u32;
            let z = pick_i64(r);
            let z = if bits == 64 {
                z
            } else {
                (z << (64 - bits)) >> (64 - bits)
            };
            // extremes of the width
            let z = match r.below(6) {
                0 => {
                    if bits == 64 {
                        i64::MIN
                    } else {
                        -(1i64 << (bits - 1))
                    }
                }
                1 => {
                    if bits == 64 {
                        i64::MAX
                    } else {
                        (1i64 << (bits - 1)) - 1
                    }
                }
                _ => z,
            };
            ("signed", GVal::S(w, z))
        }
        2 | 3 => {
            let bits = 8 * w as u32;
            let n = pick_u64(r);
            let n = if bits == 64 { n } else { n & ((1u64 << bits) - 1) };
            let n = match r.below(6) {
                0 => {
                    if bits == 64 {
                        u64::MAX
                    } else {
                        (1u64 << bits) - 1
                    }
                }
                _ => n,
            };
            ("unsigned", GVal::U(w, n))
        }
        4 => ("bool", GVal::Bool(r.chance(1, 2))),
        5 => {
            if r.chance(1, 2) {
                (
                    "f32",
                    GVal::F32(*r.pick(&[
                        0u32,
                        0x3eaa_aaab,
                        0x418f_3333,
                        0x7f80_0000,
                        0xff80_0000,
                        0x7fc0_0001,
                        0xffff_ffff,
                        0x8000_0000,
                    ])),
                )
            } else {
                (
                    "f64",
                    GVal::F64(*r.pick(&[
                        0u64,
                        0x3fd5_5555_5555_5555,
                        0x7ff0_0000_0000_0000,
                        0xfff0_0000_0000_0000,
                        0x7ff8_0000_0000_0001,
                        u64::MAX,
                        1 << 63,
                    ])),
                )
            }
        }
        6 | 7 => {
            let n = match r.below(8) {
                0 => 0,
                1 => 255,
                2 => 256,
                _ => r.below(24) as usize,
            };
            if k == 6 {
                let mut s = gen_utf8(r, n);
                if w == 1 && s.len() > 255 {
                    s.truncate(0);
                }
                ("utf8", GVal::Utf(w, s))
            } else {
                // the length must fit the width of its field
                let w = if n > 255 && w == 1 { 2 } else { w };
                ("octets", GVal::Str(w, gen_bytes(r, n)))
            }
        }
        _ => ("null", GVal::Null),
    };
    *hist.entry(name.to_string()).or_insert(0) += 1;
    v
}

fn gen_tree(r: &mut Rng, depth: u32, hist: &mut BTreeMap<String, u64>) -> GTree {
    if depth == 0 || r.chance(3, 5) {
        GTree::Leaf(gen_tag(r, true), gen_leaf(r, hist))
    } else {
        let n = r.below(5) as usize;
        *hist.entry("container".into()).or_insert(0) += 1;
        GTree::Node(
            gen_tag(r, true),
            r.below(3) as u8,
            (0..n).map(|_| gen_tree(r, depth - 1, hist)).collect(),
        )
    }
}

fn gen_root(r: &mut Rng, depth: u32, hist: &mut BTreeMap<String, u64>) -> GTree {
    let n = 1 + r.below(5) as usize;
    *hist.entry("container".into()).or_insert(0) += 1;
    GTree::Node(
        gen_tag(r, false),
        r.below(3) as u8,
        (0..n).map(|_| gen_tree(r, depth - 1, hist)).collect(),
    )
}

struct Out {
    lines: Vec<String>,
    stats: BTreeMap<String, u64>,
    id: u64,
}

impl Out {
    fn push(&mut self, stream: &str, kind: &str, body: String) {
        self.id += 1;
        *self.stats.entry(stream.to_string()).or_insert(0) += 1;
        self.lines.push(format!("{} {} {}", kind, self.id, body));
    }
    fn r(&mut self, stream: &str, b: &[u8]) {
        let h = if b.is_empty() { "-".to_string() } else { hex(b) };
        self.push(stream, "R", h);
    }
}

fn gen(tier: &str, seed: u64, outdir: &str) {
    let thorough = tier == "thorough";
    let mut rng = Rng::new(seed ^ 0xC16);
    let r = &mut rng;
    let mut o = Out {
        lines: Vec::new(),
        stats: BTreeMap::new(),
        id: 0,
    };
    let mut hist: BTreeMap<String, u64> = BTreeMap::new();

    // 0. recorded witnesses (F9a, F9b, F9c and relatives) first
    let witnesses: [&[u8]; 12] = [
        &[0x15, 0x13, 0xff, 0xff, 0xff, 0xff, 0xff, 0xff, 0xff, 0xff],
        &[0x15, 0x04, 0x00, 0x18],
        &[0x15, 0x35, 0x01, 0x04, 0x07, 0x18, 0x04, 0x09, 0x18],
        &[0x15, 0x04, 0x00, 0x35, 0x01, 0x04, 0x07, 0x18, 0x04, 0x09, 0x18],
        &[0x13, 0xff, 0xff, 0xff, 0xff, 0xff, 0xff, 0xff, 0xff],
        &[0x0f, 0xff, 0xff, 0xff, 0xff, 0xff, 0xff, 0xff, 0xff],
        &[0x15, 0x10, 0x01, 0x41, 0x13, 0xf0, 0xff, 0xff, 0xff, 0xff, 0xff, 0xff, 0xff],
        &[0x16, 0xff, 0x18],
        &[0x15, 0x15, 0x15, 0x18, 0x18, 0x18],
        &[0x15, 0x38, 0x18],
        &[0x18, 0x18],
        &[0x15, 0x24, 0x00, 0x01, 0x18],
    ];
    for w in witnesses {
        o.r("witness", w);
    }

    // 1. exhaustive: all byte strings of length 0, 1, 2 (and 3 in the thorough tier), as digests
    o.push("sweep", "X", "- 0".into());
    o.push("sweep", "X", "- 1".into());
    for b0 in 0..=255u8 {
        o.push("sweep", "X", format!("{:02x} 1", b0));
    }
    if thorough {
        for b0 in 0..=255u8 {
            o.push("sweep3", "X", format!("{:02x} 2", b0));
        }
    } else {
        // quick tier: all strings of length 3 behind the 16 most interesting control bytes
        for b0 in [
            0x15u8, 0x16, 0x17, 0x18, 0x35, 0x38, 0x0c, 0x0d, 0x0f, 0x10, 0x13, 0x30, 0x04, 0x24,
            0x14, 0xf5,
        ] {
            o.push("sweep3-sample", "X", format!("{:02x} 2", b0));
        }
    }
    // every control byte followed by a few fixed tails, explicitly (visible in the evidence samples)
    for b0 in 0..=255u8 {
        for tail in [
            &[][..],
            &[0x00][..],
            &[0x01, 0x41][..],
            &[0x02, 0x00, 0x18][..],
            &[0xff; 9][..],
        ] {
            let mut b = vec![b0];
            b.extend_from_slice(tail);
            o.r("control-bytes", &b);
        }
    }

    // 2. valid encodings and their hostile variants
    let n_trees = if thorough { 1500 } else { 260 };
    const BOUND: [u64; 6] = [0, 1, 0xff, 0xffff, 0xffff_ffff, 1 << 63];
    for ti in 0..n_trees {
        let depth = 1 + (ti % 5) as u32;
        let t = gen_root(r, depth, &mut hist);
        let mut enc = Vec::new();
        let mut lens = Vec::new();
        genc(&t, &mut enc, &mut lens);
        o.r("valid", &enc);
        // valid encoding followed by trailing data
        let mut tr = enc.clone();
        let extra = 1 + r.below(4) as usize;
        tr.extend(gen_bytes(r, extra));
        o.r("valid+trailing", &tr);
        // (ii) every length field replaced by boundary values, in place and widened to 8 bytes
        for lf in &lens {
            let mut vals: Vec<u64> = BOUND.to_vec();
            vals.push(u64::MAX);
            vals.push(lf.len.wrapping_sub(1));
            vals.push(lf.len + 1);
            vals.push((enc.len() - lf.off) as u64);
            vals.push(u64::MAX - 8);
            vals.push(u64::MAX - (lf.off as u64 + lf.width as u64));
            for v in vals {
                let mut m = enc.clone();
                m[lf.off..lf.off + lf.width].copy_from_slice(&v.to_le_bytes()[..lf.width]);
                o.r("lenfield-inplace", &m);
                let mut m = enc[..lf.off].to_vec();
                m[lf.ctl] = (m[lf.ctl] & 0xfc) | 3;
                m.extend(v.to_le_bytes());
                m.extend(&enc[lf.off + lf.width..]);
                o.r("lenfield-wide", &m);
            }
        }
        // (iii) truncation at every offset (long encodings: every offset near the ends + a sample)
        for cut in 0..enc.len() {
            if enc.len() <= 48 || cut < 12 || cut + 12 > enc.len() || r.chance(1, 6) {
                o.r("truncated", &enc[..cut]);
            }
        }
        // single byte replaced (control bytes, end markers, random)
        let nmut = if thorough { 24 } else { 10 };
        for _ in 0..nmut {
            let mut m = enc.clone();
            let i = r.below(m.len() as u64) as usize;
            m[i] = match r.below(4) {
                0 => 0x18,
                1 => *r.pick(&[0x15u8, 0x16, 0x17, 0x35, 0x36, 0x37]),
                2 => *r.pick(&[0x0cu8, 0x0d, 0x0e, 0x0f, 0x10, 0x11, 0x12, 0x13, 0x2f, 0x33]),
                _ => r.next() as u8,
            };
            o.r("byte-replaced", &m);
        }
        // an end-of-container removed / inserted
        if let Some(p) = enc.iter().rposition(|b| *b == 0x18) {
            let mut m = enc.clone();
            m.remove(p);
            o.r("end-removed", &m);
        }
        let mut m = enc.clone();
        m.insert(r.below(enc.len() as u64 + 1) as usize, 0x18);
        o.r("end-inserted", &m);
    }

    // nesting depth: d open containers, d (or d±1) closes
    for d in [1usize, 2, 3, 8, 32, 100, 200] {
        for (opens, closes) in [(d, d), (d, d - 1), (d, d + 1), (d, 0)] {
            let mut b = vec![0x15u8; opens];
            b.extend(vec![0x18u8; closes]);
            o.r("nesting", &b);
        }
        let mut b = Vec::new();
        for i in 0..d {
            b.extend([0x35 + (i % 3) as u8, i as u8]);
        }
        b.extend([0x24, 0x07, 0x2a]);
        b.extend(vec![0x18u8; d]);
        o.r("nesting", &b);
    }

    // (iv) random bytes, plain and biased towards control bytes / small lengths
    let n_rand = if thorough { 60000 } else { 6000 };
    for i in 0..n_rand {
        let n = 1 + r.below(if i % 4 == 0 { 40 } else { 12 }) as usize;
        let b: Vec<u8> = (0..n)
            .map(|_| match r.below(4) {
                0 => r.next() as u8,
                1 => *r.pick(&[
                    0x15u8, 0x16, 0x17, 0x18, 0x35, 0x24, 0x04, 0x00, 0x0c, 0x10, 0x13, 0x0f, 0x14,
                    0x08, 0x09,
                ]),
                2 => r.below(4) as u8,
                _ => (r.below(8) << 5) as u8 | r.below(26) as u8,
            })
            .collect();
        o.r("random", &b);
    }

    // utf-8 validity: all 1-byte strings, boundary 2/3/4-byte sequences, as Utf8l payloads
    for a in 0..=255u8 {
        o.r("utf8", &[0x0c, 0x01, a]);
    }
    for a in (0xc0..=0xffu8).chain([0x7f, 0x80, 0xbf]) {
        for b in [0x00u8, 0x7f, 0x80, 0x8f, 0x90, 0x9f, 0xa0, 0xbf, 0xc0, 0xff] {
            o.r("utf8", &[0x0c, 0x02, a, b]);
            o.r("utf8", &[0x0c, 0x03, a, b, 0x80]);
            o.r("utf8", &[0x0c, 0x03, a, b, 0xbf]);
            o.r("utf8", &[0x0c, 0x04, a, b, 0x80, 0x80]);
            o.r("utf8", &[0x0c, 0x04, a, b, 0xbf, 0xc0]);
        }
    }

    // 3. writer: trees with explicit widths
    let n_wtrees = if thorough { 12000 } else { 1500 };
    for ti in 0..n_wtrees {
        let depth = 1 + (ti % 6) as u32;
        let t = if ti % 7 == 0 {
            GTree::Leaf(gen_tag(r, false), gen_leaf(r, &mut hist))
        } else {
            gen_root(r, depth, &mut hist)
        };
        let mut toks = Vec::new();
        gtree_toks(&t, &mut toks);
        o.push("writer-tree", "T", toks.join(" "));
    }
    // strings whose length sits at each boundary of the length-field widths (explicit widths)
    for n in [0usize, 1, 254, 255, 256, 257, 65535, 65536] {
        for w in [1u8, 2, 4, 8] {
            if (w == 1 && n > 255) || (w == 2 && n > 65535) {
                continue;
            }
            let t = GTree::Leaf(TLVTag::Context(1), GVal::Str(w, vec![0x5a; n]));
            let mut toks = Vec::new();
            gtree_toks(&t, &mut toks);
            o.push("writer-tree", "T", toks.join(" "));
            let t = GTree::Leaf(TLVTag::Anonymous, GVal::Utf(w, vec![b'x'; n]));
            let mut toks = Vec::new();
            gtree_toks(&t, &mut toks);
            o.push("writer-tree", "T", toks.join(" "));
        }
    }

    // 4. writer: the minimal-width API, one call per case, every boundary of every width
    let ivals: Vec<i64> = vec![
        0,
        1,
        -1,
        126,
        127,
        128,
        129,
        -127,
        -128,
        -129,
        -130,
        255,
        256,
        32766,
        32767,
        32768,
        -32767,
        -32768,
        -32769,
        65535,
        65536,
        2147483646,
        2147483647,
        2147483648,
        -2147483647,
        -2147483648,
        -2147483649,
        4294967295,
        4294967296,
        i64::MAX - 1,
        i64::MAX,
        i64::MIN + 1,
        i64::MIN,
    ];
    let uvals: Vec<u64> = vec![
        0,
        1,
        127,
        128,
        254,
        255,
        256,
        257,
        65534,
        65535,
        65536,
        65537,
        4294967294,
        4294967295,
        4294967296,
        4294967297,
        (1 << 63) - 1,
        1 << 63,
        u64::MAX - 1,
        u64::MAX,
    ];
    let n_rnd = if thorough { 2000 } else { 150 };
    for (w, lo, hi) in [
        (1u8, i8::MIN as i64, i8::MAX as i64),
        (2, i16::MIN as i64, i16::MAX as i64),
        (4, i32::MIN as i64, i32::MAX as i64),
        (8, i64::MIN, i64::MAX),
    ] {
        for v in ivals.iter().filter(|v| **v >= lo && **v <= hi) {
            let tag = gen_tag(r, true);
            o.push("writer-minwidth", "W", format!("i{},{},{}", w, tag_s(&tag), v));
        }
        for _ in 0..n_rnd {
            let v = pick_i64(r).clamp(lo, hi);
            let tag = gen_tag(r, true);
            o.push("writer-minwidth", "W", format!("i{},{},{}", w, tag_s(&tag), v));
        }
    }
    for (w, hi) in [
        (1u8, u8::MAX as u64),
        (2, u16::MAX as u64),
        (4, u32::MAX as u64),
        (8, u64::MAX),
    ] {
        for v in uvals.iter().filter(|v| **v <= hi) {
            let tag = gen_tag(r, true);
            o.push("writer-minwidth", "W", format!("u{},{},{}", w, tag_s(&tag), v));
        }
        for _ in 0..n_rnd {
            let v = pick_u64(r).min(hi);
            let tag = gen_tag(r, true);
            o.push("writer-minwidth", "W", format!("u{},{},{}", w, tag_s(&tag), v));
        }
    }
    for n in [0usize, 1, 2, 100, 254, 255, 256, 257, 1000, 65534, 65535, 65536, 65537] {
        let tag = gen_tag(r, true);
        let data = gen_bytes(r, n);
        o.push("writer-minwidth", "W", format!("str,{},{}", tag_s(&tag), hex(&data)));
        o.push("writer-minwidth", "W", format!("utf8,{},{}", tag_s(&tag), hex(&vec![b'q'; n])));
    }
    for _ in 0..(if thorough { 1500 } else { 200 }) {
        let tag = gen_tag(r, true);
        let tok = match r.below(6) {
            0 => format!("bool,{},{}", tag_s(&tag), r.below(2)),
            1 => format!("null,{}", tag_s(&tag)),
            2 => format!("f32,{},{}", tag_s(&tag), r.next() as u32),
            3 => format!("f64,{},{}", tag_s(&tag), r.next()),
            4 => {
                let n = r.below(300) as usize;
                format!("str,{},{}", tag_s(&tag), hex(&gen_bytes(r, n)))
            }
            _ => {
                let n = r.below(300) as usize;
                format!("utf8,{},{}", tag_s(&tag), hex(&gen_utf8(r, n)))
            }
        };
        o.push("writer-minwidth", "W", tok);
    }

    // 5. derived encoders (implementation only)
    let kinds = [
        "mixed",
        "choice",
        "aslist",
        "attrpath",
        "eventpath",
        "cmdpath",
        "dvf",
        "timed",
        "attrstatus",
        "array",
    ];
    let per_kind = if thorough { 200 } else { 24 };
    for k in kinds {
        for _ in 0..per_kind {
            let s = r.next() >> 1;
            o.push("derived", "D", format!("{} {}", k, s));
        }
    }

    // 6. the zoo of derived types against the generic model of the derive scheme
    let per_ty = if thorough { 160 } else { 30 };
    for &ty in zoo::ZOO.iter() {
        let d = zoo::zoo_dty(ty);
        for i in 0..per_ty {
            let v = gen_val(r, &d);
            let tag = if i % 3 == 0 { TLVTag::Anonymous } else { gen_tag(r, true) };
            o.push("zoo-roundtrip", "Z", format!("{} {} {}", ty, tag_s(&tag), v.show()));
        }
        // decoder on hostile variants of valid encodings
        let n_y = if thorough { 24 } else { 5 };
        for _ in 0..n_y {
            let v = gen_val(r, &d);
            if let Some(enc) = crate::zoo_dispatch!(ty, z_bytes, &v) {
                o.push("y-valid", "Y", format!("{} {}", ty, hex(&enc)));
                for (stream, m) in hostile_structural(&enc, r) {
                    if !m.is_empty() {
                        o.push(stream, "Y", format!("{} {}", ty, hex(&m)));
                    }
                }
            }
        }
        for _ in 0..(if thorough { 200 } else { 20 }) {
            let n = 1 + r.below(10) as usize;
            let mut b = gen_bytes(r, n);
            b[0] = *r.pick(&[0x15u8, 0x17, 0x16, 0x04, 0x05, 0x24, 0x14]);
            o.push("y-random", "Y", format!("{} {}", ty, hex(&b)));
        }
        // to_tlv into a WriteBuf of every capacity around the size of the encoding
        let n_k = if thorough { 8 } else { 2 };
        for j in 0..n_k {
            let v = gen_val(r, &d);
            if let Some(enc) = crate::zoo_dispatch!(ty, z_bytes, &v) {
                let prefix: Vec<u8> = if j % 2 == 0 { Vec::new() } else { vec![0x15, 0x24, 0x00] };
                let top = prefix.len() + enc.len() + 2;
                for cap in prefix.len()..=top {
                    if enc.len() <= 60 || cap < prefix.len() + 12 || cap + 12 > top || r.chance(1, 6) {
                        o.push(
                            "zoo-capacity",
                            "K",
                            format!("{} {} {} {}", ty, cap, hex_or_dash(&prefix), v.show()),
                        );
                    }
                }
            }
        }
    }
    // 7. WriteBuf scripts: writer calls, anchors and rewinds, under every capacity
    let n_scripts = if thorough { 400 } else { 60 };
    for si in 0..n_scripts {
        let t = gen_root(r, 1 + (si % 3) as u32, &mut hist);
        let mut toks = Vec::new();
        gtree_toks(&t, &mut toks);
        let mut enc = Vec::new();
        let mut lens = Vec::new();
        genc(&t, &mut enc, &mut lens);
        if enc.len() > 120 {
            continue;
        }
        // sprinkle anchors and rewinds
        let mut script: Vec<String> = Vec::new();
        let mut n_anchor = 0usize;
        for tk in toks {
            if r.chance(1, 4) {
                script.push("A".into());
                n_anchor += 1;
            }
            script.push(tk);
            if n_anchor > 0 && r.chance(1, 6) {
                script.push(format!("R{}", r.below(n_anchor as u64)));
            }
        }
        if si % 2 == 0 {
            // the pattern of the chunker: anchor, try to write, rewind on failure, write something small
            script.insert(0, "A".into());
            script.push(format!("R{}", 0));
            script.push("u1,c1,7".into());
        }
        for cap in 0..=enc.len() + 2 {
            o.push("writebuf-script", "C", format!("{} {}", cap, script.join(" ")));
        }
    }

    let mut f = std::fs::File::create(format!("{}/cases.txt", outdir)).unwrap();
    for l in &o.lines {
        writeln!(f, "{}", l).unwrap();
    }
    let mut s = String::from("{\n \"streams\": {");
    let mut first = true;
    for (k, v) in &o.stats {
        if !first {
            s.push(',');
        }
        first = false;
        write!(s, "\n  \"{}\": {}", k, v).unwrap();
    }
    s.push_str("\n },\n \"tree_nodes_by_kind\": {");
    first = true;
    for (k, v) in &hist {
        if !first {
            s.push(',');
        }
        first = false;
        write!(s, "\n  \"{}\": {}", k, v).unwrap();
    }
    s.push_str("\n }\n}\n");
    std::fs::write(format!("{}/stats.json", outdir), s).unwrap();
}

// ------------------------------------------------------------------ F9 replay

fn f9() {
    let show = |name: &str, r: Result<String, String>| match r {
        Ok(v) => println!("{}: {}", name, v),
        Err(p) => println!("{}: PANIC {}", name, p.lines().next().unwrap_or("")),
    };
    show(
        "F9a TLVElement::new(&[0x15,0x13,0xff x8]).raw_value()",
        catch(|| {
            format!(
                "{:?}",
                TLVElement::new(&[0x15, 0x13, 0xff, 0xff, 0xff, 0xff, 0xff, 0xff, 0xff, 0xff])
                    .raw_value()
                    .map(|s| s.len())
                    .map_err(|e| e.code())
            )
        }),
    );
    show(
        "F9b TLVElement::new(&[0x15,0x04,0x00,0x18]).structure()?.tlv_iter()",
        catch(|| {
            let s = TLVElement::new(&[0x15, 0x04, 0x00, 0x18]).structure().unwrap();
            tlv_items(&s, 10).unwrap_or("unbounded".into())
        }),
    );
    show(
        "F9c tlv_iter of {0, 1:{7}, 9}",
        catch(|| {
            let s = TLVElement::new(&[
                0x15, 0x04, 0x00, 0x35, 0x01, 0x04, 0x07, 0x18, 0x04, 0x09, 0x18,
            ])
            .structure()
            .unwrap();
            tlv_items(&s, 20).unwrap_or("unbounded".into())
        }),
    );
    show(
        "F9d TLVArray::<u8>::from_tlv(U8 element).iter()",
        catch(|| match TLVArray::<u8>::from_tlv(&TLVElement::new(&[0x04, 0x01])) {
            Err(e) => format!("Err({:?})", e.code()),
            Ok(a) => format!("Ok, {} items", a.iter().take(3).count()),
        }),
    );
    show(
        "F9e items yielded by iter() over the content of [0x16,0xff,0x18] (cap 10)",
        catch(|| {
            let s = TLVElement::new(&[0x16, 0xff, 0x18]).array().unwrap();
            items(&s, 10).unwrap_or("unbounded".into())
        }),
    );
    show(
        "F9f TLV::new(Anonymous, Str64l([1,2,3])).bytes_iter()",
        catch(|| {
            hex(&TLV::new(TLVTag::Anonymous, TLVValue::Str64l(&[1, 2, 3]))
                .bytes_iter()
                .collect::<Vec<u8>>())
        }),
    );
}

fn main() {
    let a: Vec<String> = std::env::args().collect();
    silence_panics();
    match a.get(1).map(|s| s.as_str()) {
        Some("gen") => gen(&a[2], a[3].parse().unwrap(), &a[4]),
        Some("run") => {
            let text = std::fs::read_to_string(&a[2]).unwrap();
            let mut out = String::new();
            let stdout = std::io::stdout();
            let mut lock = stdout.lock();
            for line in text.lines() {
                if line.is_empty() {
                    continue;
                }
                run_line(line, &mut out);
                if out.len() > 1 << 16 {
                    lock.write_all(out.as_bytes()).unwrap();
                    out.clear();
                }
            }
            lock.write_all(out.as_bytes()).unwrap();
        }
        Some("f9") => f9(),
        _ => {
            eprintln!("usage: c16 gen <quick|thorough> <seed> <outdir> | run <cases-file> | f9");
            std::process::exit(2);
        }
    }
}
