//! C16 probe (temporary skeleton)
use rs_matter::tlv::{FromTLV, TLVArray, TLVElement, TLVTag, TLVValue, TLVWrite, ToTLV, TLV};
use rs_matter::utils::storage::WriteBuf;
use rsm_harness::{catch, silence_panics};

fn show<T: std::fmt::Debug>(name: &str, r: Result<T, String>) {
    match r {
        Ok(v) => println!("{name}: returned {v:?}"),
        Err(p) => println!("{name}: PANIC {p}"),
    }
}

fn main() {
    silence_panics();
    show("F9a raw_value", catch(|| {
        TLVElement::new(&[0x15, 0x13, 0xff, 0xff, 0xff, 0xff, 0xff, 0xff, 0xff, 0xff]).raw_value().map(|s| s.len()).map_err(|e| e.code())
    }));
    show("F9a value", catch(|| {
        TLVElement::new(&[0x15, 0x13, 0xff, 0xff, 0xff, 0xff, 0xff, 0xff, 0xff, 0xff]).value().map(|_| ()).map_err(|e| e.code())
    }));
    show("F9b tlv_iter", catch(|| {
        let s = TLVElement::new(&[0x15, 0x04, 0x00, 0x18]).structure().unwrap();
        s.tlv_iter().map(|r| format!("{:?}", r.map_err(|e| e.code()))).collect::<Vec<_>>()
    }));
    show("F9b element tlv_iter", catch(|| {
        let e = TLVElement::new(&[0x15, 0x04, 0x00, 0x18]);
        ToTLV::tlv_iter(&e, TLVTag::Anonymous).map(|r| format!("{:?}", r.map_err(|e| e.code()))).collect::<Vec<_>>()
    }));
    show("nested tlv_iter", catch(|| {
        let e = TLVElement::new(&[0x15, 0x35, 0x01, 0x04, 0x07, 0x18, 0x04, 0x09, 0x18]);
        ToTLV::tlv_iter(&e, TLVTag::Anonymous).map(|r| format!("{:?}", r.map_err(|e| e.code()))).collect::<Vec<_>>()
    }));
    show("nested tlv_iter (leading scalar)", catch(|| {
        let e = TLVElement::new(&[0x15, 0x04, 0x00, 0x35, 0x01, 0x04, 0x07, 0x18, 0x04, 0x09, 0x18]);
        ToTLV::tlv_iter(&e, TLVTag::Anonymous).map(|r| format!("{:?}", r.map_err(|e| e.code()))).collect::<Vec<_>>()
    }));
    show("TLVArray from non-container .iter()", catch(|| {
        let e = TLVElement::new(&[0x04, 0x01]);
        let a = TLVArray::<u8>::from_tlv(&e).map_err(|e| e.code())?;
        Ok::<_, rs_matter::error::ErrorCode>(a.iter().take(3).map(|r| r.map_err(|e| e.code())).collect::<Vec<_>>())
    }));
    show("iter on malformed: errors repeat?", catch(|| {
        let s = TLVElement::new(&[0x16, 0xff, 0x18]).array().unwrap();
        s.iter().take(5).map(|r| r.map(|_| ()).map_err(|e| e.code())).collect::<Vec<_>>()
    }));
    show("bytes_iter Str64l", catch(|| {
        TLV::new(TLVTag::Anonymous, TLVValue::Str64l(&[1, 2, 3])).bytes_iter().collect::<Vec<u8>>()
    }));
    show("TLVWrite::tlv Str64l", catch(|| {
        let mut buf = [0u8; 32];
        let mut wb = WriteBuf::new(&mut buf);
        wb.tlv(&TLVTag::Anonymous, &TLVValue::Str64l(&[1, 2, 3])).unwrap();
        wb.as_slice().to_vec()
    }));
}
