//! C20 correspondence harness (session / exchange slot accounting, rendezvous, handshakes).
//!
//! usage: c20 gen <quick|thorough> <seed> <outdir>   -> cases.txt (+ stats.json)
//!        c20 run <cases-file>                        -> one line per case from the REAL code
//!        c20 maxs                                    -> MAX_SESSIONS of this build
//!        c20 probe                                   -> the findings' witnesses on the real code
//!
//! Case kinds (a binary only runs the lines whose `n=` equals its own MAX_SESSIONS)
//!   D <id> n=<cap> <op>,<op>,...    direct op sequence on Sessions / ReservedSession / Exchange
//!   V <id> n=<cap> <op>,<op>,...    mDNS resolve rendezvous (requesters polled by hand, fake responder)
//!   W <id> n=<cap> <op>,<op>,...    mDNS browse rendezvous
//!   E <id> n=<cap> k=<P|C> beh=<b>.<b>.. conc=<0|1> g=<n> j=<n> age=<0|1>
//!                                   e2e: initiators against one device, then snapshot + probe handshake
use core::future::Future;
use core::net::{IpAddr, Ipv4Addr};
use core::num::NonZeroU8;
use core::pin::Pin;
use core::task::{Context, Poll, Waker};
use std::cell::RefCell;
use std::collections::BTreeMap;
use std::fmt::Write as _;
use std::io::Write as _;
use std::rc::Rc;

use embassy_futures::select::{select, Either};
use embassy_time::{Duration, Timer};

use rs_matter::crypto::test_only_crypto;
use rs_matter::error::{Error, ErrorCode};
use rs_matter::respond::Responder;
use rs_matter::sc::case::CaseInitiator;
use rs_matter::sc::pase::{PaseInitiator, MAX_COMM_WINDOW_TIMEOUT_SECS};
use rs_matter::sc::SecureChannel;
use rs_matter::transport::exchange::Exchange;
use rs_matter::transport::network::mdns::{CommissionableFilter, DottedName, MdnsRemoteService};
use rs_matter::transport::network::{Address, MatterRemoteService, NoNetwork};
use rs_matter::transport::packet::PacketHdr;
use rs_matter::transport::session::{ReservedSession, SessionMode, MAX_SESSIONS};
use rs_matter::Matter;

use rsm_harness::e2e::{self, Action, Net};
use rsm_harness::Rng;

const FAR: u64 = 1 << 50; // "in the future" stamp (ticks)
const PROTO: u16 = 0x00F0;

// ------------------------------------------------------------------ D: direct op sequences

fn mode_char(m: &SessionMode) -> char {
    match m {
        SessionMode::PlainText => 'N',
        SessionMode::Pase { .. } => 'P',
        SessionMode::Case { fab_idx, .. } => {
            if fab_idx.get() == 2 {
                'D'
            } else {
                'C'
            }
        }
        SessionMode::Group { .. } => 'G',
    }
}

fn mode_of(c: &str) -> SessionMode {
    match c {
        "P" => SessionMode::Pase { fab_idx: 0 },
        "C" => SessionMode::Case {
            fab_idx: NonZeroU8::new(1).unwrap(),
            cat_ids: Default::default(),
        },
        "D" => SessionMode::Case {
            fab_idx: NonZeroU8::new(2).unwrap(),
            cat_ids: Default::default(),
        },
        "G" => SessionMode::Group {
            fab_idx: NonZeroU8::new(1).unwrap(),
            group_id: 1,
        },
        _ => SessionMode::PlainText,
    }
}

#[derive(Clone, PartialEq)]
struct Row {
    id: u32,
    mode: char,
    reserved: bool,
    expired: bool,
    last: u64,
    /// (index, state, exch_id)
    slots: Vec<(usize, char, u16)>,
    /// (index, message counter of the pending retransmission)
    retr: Vec<(usize, u32)>,
}

fn table(matter: &Matter<'_>) -> Vec<Row> {
    matter.with_state(|s| {
        s.verif_sessions()
            .iter()
            .map(|x| {
                let sn = x.verif_snapshot();
                Row {
                    id: sn.id,
                    mode: mode_char(&sn.mode),
                    reserved: sn.reserved,
                    expired: sn.expired,
                    last: x.verif_last_use_ticks(),
                    retr: sn.exchanges.iter().filter_map(|e| e.retrans_ctr.map(|c| (e.index, c))).collect(),
                    slots: sn
                        .exchanges
                        .iter()
                        .map(|e| {
                            let st = match e.state {
                                'o' => 'o',
                                'p' => 'p',
                                _ => {
                                    if e.retrans_ctr.is_some() {
                                        'R'
                                    } else {
                                        'A'
                                    }
                                }
                            };
                            (e.index, st, e.exch_id)
                        })
                        .collect(),
                }
            })
            .collect()
    })
}

fn table_str(t: &[Row]) -> String {
    let mut s = String::new();
    for r in t {
        let last = if r.last >= FAR / 2 { "F".to_string() } else { r.last.to_string() };
        write!(s, "{}{}{}{}@{}[", r.id, r.mode, r.reserved as u8, r.expired as u8, last).unwrap();
        for (i, st, _) in &r.slots {
            write!(s, "{}{}", i, st).unwrap();
        }
        s.push_str("];");
    }
    s
}

fn set_last(matter: &Matter<'_>, id: u32, ticks: u64) {
    matter.with_state(|s| {
        // `Sessions::get` would refresh the stamp: go through the table by hand
        let ids: Vec<u32> = s.verif_sessions().iter().map(|x| x.id()).collect();
        if ids.contains(&id) {
            let sess = s.verif_sessions().get(id).unwrap();
            sess.verif_set_last_use_ticks(ticks);
        }
    });
}

fn run_d(ops: &str) -> String {
    let crypto = test_only_crypto();
    let det = e2e::dev_det(Some(40), Some(80));
    let matter = e2e::new_matter(det, false);
    let mut handles: BTreeMap<u32, ReservedSession<'_>> = BTreeMap::new();
    let mut exchanges: BTreeMap<(u32, usize), Exchange<'_>> = BTreeMap::new();
    let mut rx_ctr: u32 = 100;
    let mut rx_exch: u16 = 500;
    let mut out = String::new();
    let mut monitor = String::new();
    for op in ops.split(',').filter(|x| !x.is_empty()) {
        let p: Vec<&str> = op.split(':').collect();
        let before = table(&matter);
        let num = |i: usize| -> u64 {
            if p[i] == "F" {
                FAR
            } else {
                p[i].parse().unwrap()
            }
        };
        let mut now: Option<u64> = None;
        let mut stamped: Option<u32> = None;
        let res: String = match p[0] {
            "a" => {
                now = Some(num(1));
                let r = matter.with_state(|s| {
                    s.verif_sessions()
                        .add(0, false, Address::new(), None, det)
                        .map(|x| x.id())
                });
                match r {
                    Ok(id) => format!("id{}", id),
                    Err(_) => "nospace".into(),
                }
            }
            "r" | "R" => {
                now = Some(num(1));
                let r = if p[0] == "r" {
                    ReservedSession::reserve_now(&matter, &crypto)
                } else {
                    e2e::block_on(ReservedSession::reserve(&matter, &crypto))
                };
                match r {
                    Ok(h) => {
                        let id = h.verif_id();
                        handles.insert(id, h);
                        format!("id{}", id)
                    }
                    Err(_) => "nospace".into(),
                }
            }
            "u" => {
                now = Some(num(3));
                let id = num(1) as u32;
                match handles.get_mut(&id) {
                    Some(h) => match h.update(1, 2, 3, 4, Address::new(), mode_of(p[2]), None, None, None, None) {
                        Ok(()) => "ok".into(),
                        Err(_) => "nosess".into(),
                    },
                    None => "none".into(),
                }
            }
            "c" => {
                let id = num(1) as u32;
                if let Some(h) = handles.get_mut(&id) {
                    h.complete();
                }
                "ok".into()
            }
            "d" => {
                now = Some(num(2));
                let id = num(1) as u32;
                let h = handles.remove(&id);
                match rsm_harness::catch(std::panic::AssertUnwindSafe(move || drop(h))) {
                    Ok(()) => "-".into(),
                    Err(_) => "panic".into(),
                }
            }
            "x" => {
                let id = num(1) as u32;
                match matter.with_state(|s| s.verif_sessions().remove(id).map(|_| ())) {
                    Some(()) => "ok".into(),
                    None => "none".into(),
                }
            }
            "e" => {
                now = Some(num(1));
                let victim = matter.with_state(|s| s.verif_sessions().get_session_for_eviction().map(|x| x.id()));
                match victim {
                    Some(id) => {
                        let v = before.iter().find(|r| r.id == id).unwrap();
                        write!(monitor, "{}{}{},", v.reserved as u8, v.slots.len(), ((v.expired) as u8)).unwrap();
                        matter.with_state(|s| s.verif_sessions().remove(id));
                        format!("id{}", id)
                    }
                    None => "none".into(),
                }
            }
            "t" => {
                now = Some(num(2));
                let id = num(1) as u32;
                match matter.with_state(|s| s.verif_sessions().get(id).map(|_| ())) {
                    Some(()) => "ok".into(),
                    None => "none".into(),
                }
            }
            "E" => {
                let id = num(1) as u32;
                matter.with_state(|s| {
                    if let Some(x) = s.verif_sessions().get(id) {
                        x.verif_set_expired(true);
                    }
                });
                "ok".into()
            }
            "L" => {
                stamped = Some(num(1) as u32);
                set_last(&matter, num(1) as u32, num(2));
                "ok".into()
            }
            "M" => {
                let id = num(1) as u32;
                let done = matter.with_state(|s| match s.verif_sessions().get(id) {
                    Some(x) if !x.verif_snapshot().reserved => {
                        x.verif_set_session_mode(mode_of(p[2]));
                        true
                    }
                    _ => false,
                });
                if done { "ok".into() } else { "none".into() }
            }
            "p" => {
                let keep = if p[1] == "-" { None } else { Some(num(1) as u32) };
                matter.with_state(|s| s.verif_sessions().remove_pase(keep));
                "ok".into()
            }
            "xa" => {
                now = Some(num(3));
                let id = num(1) as u32;
                let pending = p[2] == "1";
                let row = before.iter().find(|r| r.id == id);
                let r: Result<(), ErrorCode> = match row {
                    None => Err(ErrorCode::NoSession),
                    Some(row) => {
                        if pending {
                            if row.reserved {
                                // Session::is_for_rx never matches a reserved slot
                                Err(ErrorCode::NoSession)
                            } else {
                                rx_ctr += 1;
                                rx_exch += 1;
                                let mut hdr = PacketHdr::new();
                                hdr.plain.ctr = rx_ctr;
                                hdr.proto.exch_id = rx_exch;
                                hdr.proto.proto_id = PROTO;
                                hdr.proto.proto_opcode = 1;
                                hdr.proto.set_initiator();
                                hdr.proto.set_reliable();
                                matter.with_state(|s| {
                                    let x = s.verif_sessions().get(id).unwrap();
                                    x.verif_post_recv(&hdr).map(|_| ()).map_err(|e| e.code())
                                })
                            }
                        } else {
                            match Exchange::initiate_for_session(&matter, &crypto, id) {
                                Ok(ex) => {
                                    // find the slot it took
                                    let after = table(&matter);
                                    let a = after.iter().find(|r| r.id == id).unwrap();
                                    let idx = a
                                        .slots
                                        .iter()
                                        .find(|(i, _, _)| !row.slots.iter().any(|(j, _, _)| j == i))
                                        .map(|(i, _, _)| *i)
                                        .unwrap();
                                    exchanges.insert((id, idx), ex);
                                    Ok(())
                                }
                                Err(e) => Err(e.code()),
                            }
                        }
                    }
                };
                match r {
                    Ok(()) => {
                        let after = table(&matter);
                        let a = after.iter().find(|r| r.id == id).unwrap();
                        let row = row.unwrap();
                        let idx = a
                            .slots
                            .iter()
                            .find(|(i, _, _)| !row.slots.iter().any(|(j, _, _)| j == i))
                            .map(|(i, _, _)| *i)
                            .unwrap();
                        format!("ix{}", idx)
                    }
                    Err(ErrorCode::NoSpaceExchanges) => "noexch".into(),
                    Err(_) => "nosess".into(),
                }
            }
            "xd" => {
                now = Some(num(4));
                let id = num(1) as u32;
                let xi = num(2) as usize;
                let retr = p[3].as_bytes()[0] == b'1';
                let ack = p[3].as_bytes()[1] == b'1';
                let row = before.iter().find(|r| r.id == id);
                let owned = row.map(|r| r.slots.iter().any(|(i, st, _)| *i == xi && *st == 'o')).unwrap_or(false);
                if owned && exchanges.contains_key(&(id, xi)) {
                    let exch_id = row.unwrap().slots.iter().find(|(i, _, _)| *i == xi).unwrap().2;
                    matter.with_state(|s| {
                        let x = s.verif_sessions().get(id).unwrap();
                        if ack {
                            rx_ctr += 1;
                            let mut hdr = PacketHdr::new();
                            hdr.plain.ctr = rx_ctr;
                            hdr.proto.exch_id = exch_id;
                            hdr.proto.proto_id = PROTO;
                            hdr.proto.proto_opcode = 2;
                            hdr.proto.set_reliable();
                            let _ = x.verif_post_recv(&hdr);
                        }
                        if retr {
                            let mut hdr = PacketHdr::new();
                            hdr.proto.proto_id = PROTO;
                            hdr.proto.proto_opcode = 1;
                            hdr.proto.set_reliable();
                            let _ = x.verif_pre_send(Some(xi), &mut hdr);
                        }
                    });
                    drop(exchanges.remove(&(id, xi)));
                    "ok".into()
                } else {
                    // an Exchange whose session is gone: dropping it must be harmless
                    if let Some(ex) = exchanges.remove(&(id, xi)) {
                        drop(ex);
                    }
                    "none".into()
                }
            }
            "xk" => {
                // the peer's stand-alone acknowledgement reaches an exchange that was dropped with its
                // retransmission pending: afterwards nothing is pending on it
                now = Some(num(3));
                let id = num(1) as u32;
                let xi = num(2) as usize;
                let row = before.iter().find(|r| r.id == id);
                let hit = row.and_then(|r| {
                    let st = r.slots.iter().find(|(i, _, _)| *i == xi)?;
                    let c = r.retr.iter().find(|(i, _)| *i == xi)?;
                    if st.1 == 'R' { Some((st.2, c.1)) } else { None }
                });
                match hit {
                    Some((exch_id, ctr)) => {
                        rx_ctr += 1;
                        let mut hdr = PacketHdr::new();
                        hdr.plain.ctr = rx_ctr;
                        hdr.proto.exch_id = exch_id;
                        hdr.proto.proto_id = 0;
                        hdr.proto.proto_opcode = 0x10;
                        hdr.proto.set_ack(Some(ctr));
                        matter.with_state(|s| {
                            let x = s.verif_sessions().get(id).unwrap();
                            let _ = x.verif_post_recv(&hdr);
                        });
                        "ok".into()
                    }
                    None => "none".into(),
                }
            }
            "xr" => {
                // a datagram that opens a new exchange on an unsecured session (the first one the
                // receive path matches: peer address, session id 0): post_recv, and on
                // NoSpaceExchanges the session is closed
                now = Some(num(1));
                rx_ctr += 1;
                rx_exch += 1;
                let mut hdr = PacketHdr::new();
                hdr.plain.ctr = rx_ctr;
                hdr.proto.exch_id = rx_exch;
                hdr.proto.proto_id = PROTO;
                hdr.proto.proto_opcode = 1;
                hdr.proto.set_initiator();
                hdr.proto.set_reliable();
                let mut buf = [0u8; 128];
                let (start, end) = {
                    let mut wb = rs_matter::utils::storage::WriteBuf::new_with(&mut buf, 64, 64);
                    wb.append(&[0x15, 0x18]).unwrap();
                    hdr.encode(&crypto, None, 0, &mut wb).unwrap();
                    (wb.get_start(), wb.get_tail())
                };
                let runner = matter.transport_runner(&crypto);
                let r = e2e::block_on(runner.verif_rx_once(&buf[start..end], Address::new(), NullSend));
                let after = table(&matter);
                if after.len() < before.len() {
                    let gone = before.iter().find(|r| !after.iter().any(|a| a.id == r.id)).unwrap();
                    format!("closed{}", gone.id)
                } else {
                    let mut res = match r {
                        Ok(true) => "?".to_string(),
                        _ => "none".to_string(),
                    };
                    for b in &before {
                        if let Some(a) = after.iter().find(|a| a.id == b.id) {
                            if a.slots.len() > b.slots.len() {
                                let i = a.slots.iter().find(|(i, _, _)| !b.slots.iter().any(|(j, _, _)| j == i)).unwrap().0;
                                res = format!("ix{}", i);
                            }
                        }
                    }
                    res
                }
            }
            "f" => {
                let fab = NonZeroU8::new(num(1) as u8).unwrap();
                let keep = if p[2] == "-" { None } else { Some(num(2) as u32) };
                matter.with_state(|s| s.verif_sessions().remove_for_fabric(fab, keep));
                "ok".into()
            }
            "s" => {
                now = Some(num(1));
                let runner = matter.transport_runner(&crypto);
                let _ = e2e::block_on(runner.verif_sweep_dropped_once());
                let after = table(&matter);
                if after.len() < before.len() {
                    let gone = before.iter().find(|r| !after.iter().any(|a| a.id == r.id)).unwrap();
                    format!("id{}", gone.id)
                } else {
                    let mut r = "none".to_string();
                    for b in &before {
                        if let Some(a) = after.iter().find(|a| a.id == b.id) {
                            if a.slots.len() < b.slots.len() {
                                let i = b.slots.iter().find(|(i, _, _)| !a.slots.iter().any(|(j, _, _)| j == i)).unwrap().0;
                                r = format!("ix{}", i);
                            }
                        }
                    }
                    r
                }
            }
            _ => "?".into(),
        };
        let _ = matter.transport().reset();
        // re-stamp: what the operation touched gets the logical time, everything else keeps its stamp
        let after = table(&matter);
        for a in &after {
            if stamped == Some(a.id) {
                continue;
            }
            let old = before.iter().find(|b| b.id == a.id);
            match (old, now) {
                (Some(b), _) if b.last == a.last => {}
                (Some(b), None) => set_last(&matter, a.id, b.last),
                (_, Some(t)) => set_last(&matter, a.id, t),
                (None, None) => set_last(&matter, a.id, 0),
            }
        }
        let t = table(&matter);
        let nres = t.iter().filter(|r| r.reserved).count();
        let nlive = handles.keys().filter(|id| t.iter().any(|r| r.id == **id)).count();
        write!(out, "{}>{}#{}={} ", res, table_str(&t), nres, nlive).unwrap();
    }
    // quiescence: the dropped-exchange sweeper runs until it finds nothing to do
    {
        let runner = matter.transport_runner(&crypto);
        for _ in 0..(MAX_SESSIONS * 8 + 8) {
            let idle = e2e::block_on(runner.verif_sweep_dropped_once()).unwrap_or(true);
            let _ = matter.transport().reset();
            if idle {
                break;
            }
        }
    }
    let t = table(&matter);
    let dl: usize = t.iter().map(|r| r.slots.iter().filter(|(_, st, _)| *st == 'A' || *st == 'R').count()).sum();
    let mut fin = String::new();
    for r in &t {
        write!(fin, "{}{}[", r.id, r.mode).unwrap();
        for (i, st, _) in &r.slots {
            write!(fin, "{}{}", i, st).unwrap();
        }
        fin.push_str("];");
    }
    write!(out, "swept>{}", fin).unwrap();
    drop(exchanges);
    drop(handles);
    format!("{} | ev={} dl={}", out.trim_end(), if monitor.is_empty() { "-" } else { &monitor }, dl)
}

/// a sender that loses everything
struct NullSend;

impl rs_matter::transport::network::NetworkSend for NullSend {
    async fn send_to(&mut self, _data: &[u8], _addr: Address) -> Result<(), Error> {
        Ok(())
    }
}

// ------------------------------------------------------------------ V / W: rendezvous

type Req<'a> = Pin<Box<dyn Future<Output = Result<(), Error>> + 'a>>;

fn poll_once<T>(f: &mut Pin<Box<dyn Future<Output = T> + '_>>) -> Poll<T> {
    let mut cx = Context::from_waker(Waker::noop());
    f.as_mut().poll(&mut cx)
}

fn run_v(browse: bool, ops: &str) -> String {
    let det = e2e::dev_det(Some(40), Some(80));
    let matter = e2e::new_matter(det, false);
    let tr = matter.transport();
    let oplist: Vec<&str> = ops.split(',').filter(|x| !x.is_empty()).collect();
    // requesters that will be timed out get a short timer
    let mut will_timeout = std::collections::BTreeSet::new();
    for o in &oplist {
        if let Some(r) = o.strip_prefix('t') {
            will_timeout.insert(r.parse::<usize>().unwrap());
        }
    }
    let filters: RefCell<Vec<Box<CommissionableFilter>>> = RefCell::new(Vec::new());
    let _ = &filters;
    let mut reqs: Vec<Option<Req<'_>>> = Vec::new();
    let mut out = String::new();
    let slot = || {
        let (r, b) = tr.verif_rendezvous_state();
        if browse { b } else { r }
    };
    for o in &oplist {
        let (k, arg) = o.split_at(1);
        let res: String = match k {
            "s" => {
                let svc: u64 = arg.parse().unwrap();
                let idx = reqs.len();
                let timeout = if will_timeout.contains(&idx) { 15 } else { 600_000 };
                let fut: Req<'_> = if browse {
                    let filter: &'static CommissionableFilter = Box::leak(Box::new(CommissionableFilter {
                        discriminator: Some(svc as u16),
                        ..Default::default()
                    }));
                    Box::pin(async move { tr.browse_commissionable(filter, &[], timeout).await.map(|_| ()) })
                } else {
                    let service = MatterRemoteService::Operational { compressed_fabric_id: 0x1122, node_id: svc };
                    Box::pin(async move { tr.verif_resolve(service, timeout).await.map(|_| ()) })
                };
                reqs.push(Some(fut));
                "-".into()
            }
            "p" | "t" => {
                let i: usize = arg.parse().unwrap();
                if k == "t" {
                    std::thread::sleep(std::time::Duration::from_millis(25));
                }
                match reqs.get_mut(i).and_then(|r| r.as_mut()) {
                    None => "-".into(),
                    Some(f) => match poll_once(f) {
                        Poll::Pending => "-".into(),
                        Poll::Ready(r) => {
                            reqs[i] = None;
                            match r {
                                Ok(()) => "ok".into(),
                                Err(e) if e.code() == ErrorCode::NotFound => "nf".into(),
                                Err(_) => "err".into(),
                            }
                        }
                    },
                }
            }
            "c" => {
                let i: usize = arg.parse().unwrap();
                if let Some(r) = reqs.get_mut(i) {
                    *r = None;
                }
                "-".into()
            }
            "k" => {
                if browse {
                    let mut f: Pin<Box<dyn Future<Output = CommissionableFilter> + '_>> = Box::pin(tr.wait_mdns_browse_request());
                    match poll_once(&mut f) {
                        Poll::Ready(flt) => format!("pick{}", flt.discriminator.unwrap_or(0)),
                        Poll::Pending => "-".into(),
                    }
                } else {
                    let mut f: Pin<Box<dyn Future<Output = MatterRemoteService> + '_>> = Box::pin(tr.wait_mdns_resolve_request());
                    match poll_once(&mut f) {
                        Poll::Ready(MatterRemoteService::Operational { node_id, .. }) => format!("pick{}", node_id),
                        Poll::Ready(_) => "pick?".into(),
                        Poll::Pending => "-".into(),
                    }
                }
            }
            "d" => {
                let (svc, has) = arg.split_once(':').unwrap();
                let svc: u64 = svc.parse().unwrap();
                let addrs: Vec<IpAddr> = if has == "1" { vec![IpAddr::V4(Ipv4Addr::new(10, 0, 0, 5))] } else { vec![] };
                if browse {
                    let name = format!("{:016X}._matterc._udp.local", 0x1000 + svc);
                    let d = format!("{}", svc);
                    let answer = MdnsRemoteService {
                        instance_name: DottedName(name.as_str()),
                        port: Some(5540),
                        addrs: addrs.into_iter(),
                        txt: [("D", d.as_str()), ("CM", "1")].into_iter(),
                        scope_id: 0,
                    };
                    tr.try_deposit_mdns_browse(&answer);
                } else {
                    let service = MatterRemoteService::Operational { compressed_fabric_id: 0x1122, node_id: svc };
                    let mut name = heapless::String::<128>::new();
                    service.instance_name(&mut name);
                    let answer = MdnsRemoteService {
                        instance_name: DottedName(name.as_str()),
                        port: Some(1234),
                        addrs: addrs.into_iter(),
                        txt: core::iter::empty::<(&str, &str)>(),
                        scope_id: 0,
                    };
                    tr.try_deposit_mdns_resolve(&answer, &[]);
                }
                "-".into()
            }
            _ => "?".into(),
        };
        write!(out, "{}>{} ", res, slot()).unwrap();
    }
    // every remaining requester is cancelled: the slot must be free afterwards
    reqs.clear();
    format!("{} | end={}", out.trim_end(), slot())
}

// ------------------------------------------------------------------ E: end to end

const DEV: u16 = 100;
const DEV_NODE: u64 = 0x2222;
const PROBE: u16 = 50;

struct Snap {
    reserved: usize,
    live: usize,
    dropped: usize,
    est: usize,
    plain: usize,
    total: usize,
    idle: usize,
    /// the single RX buffer is locked or holds a packet
    rx_busy: bool,
    marker: &'static str,
    rdv: (u8, u8),
    detail: String,
}

fn snapshot(matter: &Matter<'_>) -> Snap {
    let t = table(matter);
    let marker = matter.with_state(|s| match s.verif_pase().verif_session_marker() {
        None => "none",
        Some((_, _, true)) => "expired",
        Some((_, _, false)) => "live",
    });
    let mut rows: Vec<String> = t
        .iter()
        .map(|r| {
            let mut s = format!("{}{}{}[", r.mode, r.reserved as u8, r.expired as u8);
            for (_, st, _) in &r.slots {
                s.push(*st);
            }
            s.push(']');
            s
        })
        .collect();
    rows.sort();
    Snap {
        reserved: t.iter().filter(|r| r.reserved).count(),
        live: t.iter().map(|r| r.slots.iter().filter(|(_, st, _)| *st == 'o' || *st == 'p').count()).sum(),
        dropped: t.iter().map(|r| r.slots.iter().filter(|(_, st, _)| *st == 'A' || *st == 'R').count()).sum(),
        est: t.iter().filter(|r| r.mode != 'N' && !r.reserved).count(),
        plain: t.iter().filter(|r| r.mode == 'N' && !r.reserved).count(),
        total: t.len(),
        rx_busy: {
            let crypto = test_only_crypto();
            let (locked, full, _) = matter.transport_runner(&crypto).verif_rx_state();
            locked || full
        },
        idle: t.iter().filter(|r| !r.reserved && r.slots.is_empty()).count(),
        marker,
        rdv: matter.transport().verif_rendezvous_state(),
        detail: rows.join(","),
    }
}

fn field<'a>(f: &[&'a str], k: &str) -> &'a str {
    for x in f {
        if let Some(v) = x.strip_prefix(k) {
            if let Some(v) = v.strip_prefix('=') {
                return v;
            }
        }
    }
    ""
}

type BoxFut<'a, T> = Pin<Box<dyn Future<Output = T> + 'a>>;

/// resolves when the first of the futures does
async fn first_of<'a, T>(mut v: Vec<BoxFut<'a, T>>) -> T {
    core::future::poll_fn(move |cx| {
        for f in v.iter_mut() {
            if let Poll::Ready(r) = f.as_mut().poll(cx) {
                return Poll::Ready(r);
            }
        }
        Poll::Pending
    })
    .await
}

/// resolves when all futures have
async fn all_of<'a, T>(v: Vec<BoxFut<'a, T>>) -> Vec<T> {
    let mut v: Vec<(BoxFut<'a, T>, Option<T>)> = v.into_iter().map(|f| (f, None)).collect();
    core::future::poll_fn(move |cx| {
        let mut done = true;
        for (f, r) in v.iter_mut() {
            if r.is_none() {
                match f.as_mut().poll(cx) {
                    Poll::Ready(x) => *r = Some(x),
                    Poll::Pending => done = false,
                }
            }
        }
        if done {
            Poll::Ready(v.iter_mut().map(|(_, r)| r.take().unwrap()).collect())
        } else {
            Poll::Pending
        }
    })
    .await
}

fn err_tag(e: &Error) -> &'static str {
    match e.code() {
        ErrorCode::TxTimeout => "txto",
        ErrorCode::RxTimeout => "rxto",
        ErrorCode::Busy => "busy",
        ErrorCode::NoSpaceSessions => "nospace",
        _ => "err",
    }
}

async fn handshake<C: rs_matter::crypto::Crypto>(
    mt: &Matter<'static>,
    crypto: &C,
    pase: bool,
    peer: Address,
    fab: NonZeroU8,
    tries: usize,
) -> (&'static str, usize) {
    let mut last = "none";
    for t in 0..tries {
        if t > 0 {
            Timer::after(Duration::from_millis(250)).await;
        }
        let r: Option<Result<(), Error>> = e2e::with_timeout(3500, async {
            let ex = Exchange::initiate_plaintext(mt, crypto, peer).await?;
            if pase {
                PaseInitiator::perform(ex, crypto, 20202021).await
            } else {
                CaseInitiator::perform(ex, crypto, fab, DEV_NODE).await
            }
        })
        .await;
        match r {
            Some(Ok(())) => return ("ok", t + 1),
            Some(Err(e)) => last = err_tag(&e),
            None => last = "hang",
        }
    }
    (last, tries)
}

fn run_e(f: &[&str]) -> String {
    let kind = field(f, "k").to_string();
    let pase = kind == "P";
    let beh: Vec<String> = field(f, "beh").split('.').filter(|x| !x.is_empty()).map(|x| x.to_string()).collect();
    let conc = field(f, "conc") == "1";
    let garbage: usize = field(f, "g").parse().unwrap_or(0);
    let junk: usize = field(f, "j").parse().unwrap_or(0);
    let seed: u64 = field(f, "sd").parse().unwrap_or(1);
    let m = beh.len();

    // datagrams of source `src` with index >= cut[src] are lost
    // (`a<k>`: ... except its stand-alone acknowledgements: the initiator acknowledges, then is silent)
    let cut: Rc<RefCell<BTreeMap<u16, (usize, bool)>>> = Rc::new(RefCell::new(BTreeMap::new()));
    let further: Rc<RefCell<BTreeMap<u16, usize>>> = Rc::new(RefCell::new(BTreeMap::new()));
    let due: Rc<RefCell<Vec<u16>>> = Rc::new(RefCell::new(Vec::new()));
    for (i, b) in beh.iter().enumerate() {
        if let Some(k) = b.strip_prefix('s') {
            cut.borrow_mut().insert(i as u16 + 1, (k.parse().unwrap(), false));
        }
        if let Some(k) = b.strip_prefix('a') {
            cut.borrow_mut().insert(i as u16 + 1, (k.parse().unwrap(), true));
        }
        if let Some(k) = b.strip_prefix('m') {
            // `m<k>`: silent after its k-th datagram like `s<k>`, but when the device's k-th answer goes
            // out, a FURTHER message on the same exchange is delivered instead of the acknowledgement:
            // no A flag (the answer stays unacknowledged) and no R flag (nothing is owed for it)
            let k: usize = k.parse().unwrap();
            cut.borrow_mut().insert(i as u16 + 1, (k, false));
            further.borrow_mut().insert(i as u16 + 1, k);
        }
    }
    let cut2 = cut.clone();
    let further2 = further.clone();
    let due2 = due.clone();
    let net = Net::new(move |src, dst, idx, b| {
        if src == DEV {
            if let Some(k) = further2.borrow().get(&dst) {
                if idx + 1 == *k {
                    due2.borrow_mut().push(dst);
                }
            }
        }
        script_cut(&cut2, src, idx, b)
    });
    let fill = field(f, "fill");
    let (n_busy, n_idle): (usize, usize) = match fill.split_once('.') {
        Some((a, b)) => (a.parse().unwrap_or(0), b.parse().unwrap_or(0)),
        None => (0, 0),
    };
    let cancel_at: usize = field(f, "cx").parse().unwrap_or(0);
    // `u=<n>`: n first handshake messages WITHOUT the reliability flag (no MRP ack requested)
    let unreliable: usize = field(f, "u").parse().unwrap_or(0);
    // `noresp=1`: no handler accepts anything until the snapshot is taken (then the responder starts)
    let serve = Rc::new(core::cell::Cell::new(field(f, "noresp") != "1"));
    let quiet_wait: u32 = field(f, "qw").parse().unwrap_or(9000);
    let crypto = test_only_crypto();
    let det = e2e::dev_det(Some(40), Some(80));
    let dev = e2e::new_matter(det, false);
    let (d_tx, d_rx) = net.attach(DEV);
    // sources of injected datagrams (nobody listens there)
    let _silent: Vec<_> = (80u16..95).map(|n| net.attach(n)).collect();
    let peer = e2e::node_addr(DEV);
    if pase {
        dev.open_basic_comm_window(MAX_COMM_WINDOW_TIMEOUT_SECS, &crypto, &()).unwrap();
    }
    // initiators 1..m and the probe
    let mut nodes: Vec<(u16, Matter<'static>, NonZeroU8)> = Vec::new();
    for i in 0..=m {
        let no = if i == m { PROBE } else { i as u16 + 1 };
        let mt = e2e::new_matter(det, false);
        let mut fab = NonZeroU8::new(1).unwrap();
        if !pase {
            let (fa, _) = e2e::install_shared_fabric(&crypto, &mt, 0x1000 + no as u64, &dev, DEV_NODE).unwrap();
            fab = fa;
        }
        nodes.push((no, mt, fab));
    }
    let sc = SecureChannel::new(&crypto, &());
    let responder = Responder::new("dev-sc", sc, &dev, 0);
    // established sessions that exist before the disturbance: `n_busy` carry an exchange for the
    // whole run (held below), `n_idle` do not
    let mut held: Vec<Exchange<'_>> = Vec::new();
    for i in 0..(n_busy + n_idle) {
        e2e::preset_case_session(
            &dev,
            &crypto,
            DEV_NODE,
            0x7000 + i as u64,
            3000 + i as u16,
            4000 + i as u16,
            e2e::node_addr(200 + i as u16),
            1,
            Default::default(),
        )
        .unwrap();
        if i < n_busy {
            let id = table(&dev).last().unwrap().id;
            held.push(Exchange::initiate_for_session(&dev, &crypto, id).unwrap());
        }
    }
    let n_held = held.len();
    let cancelled = Rc::new(core::cell::Cell::new(0usize));

    let line = e2e::block_on(async {
        let mut runners: Vec<BoxFut<'_, Result<(), Error>>> = Vec::new();
        runners.push(Box::pin(dev.run(&crypto, d_tx, d_rx, NoNetwork)));
        {
            // the device's handlers; with `cx=k` the whole responder future is dropped (all handlers
            // cancelled at whatever await they are in) at its k-th poll after a handler has reserved
            // its slot, and a fresh responder is started
            let responder = &responder;
            let dev = &dev;
            let cancelled = cancelled.clone();
            let serve = serve.clone();
            let mut cur: Option<BoxFut<'_, Result<(), Error>>> = Some(Box::pin(responder.run::<4>()));
            let mut polls = 0usize;
            runners.push(Box::pin(core::future::poll_fn(move |cx| {
                if !serve.get() {
                    return Poll::Pending; // re-polled with the other runners on every wake-up
                }
                if cancel_at > 0 && cancelled.get() == 0 && table(dev).iter().any(|r| r.reserved) {
                    polls += 1;
                    if polls >= cancel_at {
                        cur = None;
                        cancelled.set(1);
                        cur = Some(Box::pin(responder.run::<4>()));
                    }
                }
                cur.as_mut().unwrap().as_mut().poll(cx)
            })));
        }
        for (no, mt, _) in nodes.iter() {
            let (tx, rx) = net.attach(*no);
            runners.push(Box::pin(mt.run(&crypto, tx, rx, NoNetwork)));
        }
        {
            // delivers the further messages of the `m<k>` initiators as soon as they are due
            let net = net.clone();
            let due = due.clone();
            runners.push(Box::pin(core::future::poll_fn(move |_cx| {
                let todo: Vec<u16> = due.borrow_mut().drain(..).collect();
                for src in todo {
                    let first = net.tap().into_iter().find(|t| t.src == src && t.dst == DEV && t.idx == 0);
                    if let Some(t0) = first {
                        let mut b = t0.bytes.clone();
                        if b.len() > 8 {
                            let c = u32::from_le_bytes([b[4], b[5], b[6], b[7]]).wrapping_add(7000);
                            b[4..8].copy_from_slice(&c.to_le_bytes());
                        }
                        if let Some(off) = proto_offset(&b) {
                            b[off] &= !0x06; // neither A nor R
                            b[off + 1] = 0x22; // PASEPake1, whatever the handshake
                        }
                        net.inject(src, DEV, &b);
                    }
                }
                Poll::<Result<(), Error>>::Pending
            })));
        }
        let background = first_of(runners);

        let flow = async {
            let mut rng = Rng::new(seed);
            // garbage first
            for j in 0..garbage {
                let len = 1 + rng.below(40) as usize;
                let bytes: Vec<u8> = (0..len).map(|_| rng.next() as u8).collect();
                net.inject(90 + j as u16 % 5, DEV, &bytes);
            }
            // the initiators
            let mut results: Vec<(&'static str, usize)> = Vec::new();
            if conc {
                let futs: Vec<BoxFut<'_, (&'static str, usize)>> = nodes[..m]
                    .iter()
                    .zip(beh.iter())
                    .map(|((no, mt, fab), b)| {
                        let tries = if b.starts_with('f') { 6 } else { 1 };
                        { let _ = no; Box::pin(handshake(mt, &crypto, pase, peer, *fab, tries)) as BoxFut<'_, _> }
                    })
                    .collect();
                results = all_of(futs).await;
            } else {
                for ((no, mt, fab), b) in nodes[..m].iter().zip(beh.iter()) {
                    let tries = if b.starts_with('f') { 6 } else { 1 };
                    { let _ = no; results.push(handshake(mt, &crypto, pase, peer, *fab, tries).await); }
                }
            }
            // junk shaped like a first handshake message: a tapped first datagram with a fresh
            // message counter, a damaged payload and another source address
            let first = net.tap().into_iter().find(|t| t.dst == DEV && t.idx == 0 && t.src < PROBE);
            if let Some(t0) = first {
                for j in 0..junk {
                    let mut b = t0.bytes.clone();
                    if b.len() > 8 {
                        let c = u32::from_le_bytes([b[4], b[5], b[6], b[7]]).wrapping_add(1000 + j as u32);
                        b[4..8].copy_from_slice(&c.to_le_bytes());
                    }
                    let n = b.len();
                    match j % 3 {
                        0 => {
                            for x in b[n - 6..].iter_mut() {
                                *x ^= 0x5a;
                            }
                        }
                        1 => b.truncate(n - 9),
                        _ => {}
                    }
                    net.inject(80 + j as u16 % 5, DEV, &b);
                }
            }
            // first handshake messages that do not ask for an acknowledgement: the tapped first
            // datagram with the R flag cleared, a fresh counter and another source address
            let first = net.tap().into_iter().find(|t| t.dst == DEV && t.idx == 0 && t.src < PROBE);
            if let Some(t0) = first {
                for j in 0..unreliable {
                    let mut b = t0.bytes.clone();
                    if b.len() > 8 {
                        let c = u32::from_le_bytes([b[4], b[5], b[6], b[7]]).wrapping_add(5000 + j as u32);
                        b[4..8].copy_from_slice(&c.to_le_bytes());
                    }
                    if let Some(off) = proto_offset(&b) {
                        b[off] &= !0x04;
                    }
                    net.inject(85 + j as u16 % 5, DEV, &b);
                }
            }
            // wait until the device is quiet: no reserved slot, no exchange, three polls in a row
            let mut quiet = 0;
            let mut waited = 0u32;
            while waited < quiet_wait {
                Timer::after(Duration::from_millis(50)).await;
                waited += 50;
                let s = snapshot(&dev);
                if s.reserved == 0 && s.live == n_held && s.dropped == 0 && !s.rx_busy {
                    quiet += 1;
                    if quiet >= 4 {
                        break;
                    }
                } else {
                    quiet = 0;
                }
            }
            if field(f, "age") == "1" {
                dev.with_state(|s| s.verif_pase().verif_age_session_marker(61));
            }
            let snap = snapshot(&dev);
            serve.set(true);
            if cancelled.get() == 0 {
                // the cancellation point was not reached during the disturbance: it must not hit the probe
                cancelled.set(2);
            }
            // the probe: a legitimate initiator that honours Busy
            let (pno, pmt, pfab) = &nodes[m];
            let _ = pno; let (probe, tries) = handshake(pmt, &crypto, pase, peer, *pfab, 6).await;
            Timer::after(Duration::from_millis(150)).await;
            let after = snapshot(&dev);
            let mut s = String::new();
            write!(
                s,
                "q={} res={} xl={} xd={} rx={} marker={} rdv={}{} recl={} probe={} | w={} cx={} est={} plain={} total={} tries={} after:res={} est={} results=",
                (quiet >= 4) as u8,
                snap.reserved,
                snap.live - n_held.min(snap.live),
                snap.dropped,
                snap.rx_busy as u8,
                snap.marker,
                snap.rdv.0,
                snap.rdv.1,
                // slots a new handshake can get: free ones plus idle sessions
                (MAX_SESSIONS - snap.total) + snap.idle,
                probe,
                waited / 1000,
                (cancelled.get() == 1) as u8,
                snap.est,
                snap.plain,
                snap.total,
                tries,
                after.reserved,
                after.est
            )
            .unwrap();
            for (r, t) in &results {
                write!(s, "{}:{},", r, t).unwrap();
            }
            write!(s, " tbl={}", snap.detail).unwrap();
            s
        };

        match select(
            core::pin::pin!(select(core::pin::pin!(background), core::pin::pin!(flow))),
            core::pin::pin!(Timer::after(Duration::from_secs(90))),
        )
        .await
        {
            Either::First(Either::First(r)) => format!("transport-exit:{:?}", r.map_err(|e| e.code())),
            Either::First(Either::Second(s)) => s,
            Either::Second(_) => "hang".to_string(),
        }
    });
    drop(held);
    line
}

fn script_cut(cut: &Rc<RefCell<BTreeMap<u16, (usize, bool)>>>, src: u16, idx: usize, b: &[u8]) -> Action {
    match cut.borrow().get(&src) {
        Some((k, acks)) if idx >= *k => {
            if *acks && is_standalone_ack(b) {
                Action::Deliver
            } else {
                Action::Drop
            }
        }
        _ => Action::Deliver,
    }
}

/// offset of the protocol header of an unsecured datagram (session id 0)
fn proto_offset(b: &[u8]) -> Option<usize> {
    if b.len() < 8 || b[1] != 0 || b[2] != 0 {
        return None; // not session 0
    }
    let mut off = 8;
    if b[0] & 0x04 != 0 {
        off += 8;
    }
    match b[0] & 0x03 {
        1 => off += 8,
        2 => off += 2,
        _ => {}
    }
    if b.len() >= off + 6 {
        Some(off)
    } else {
        None
    }
}

/// an unsecured MRP stand-alone acknowledgement (Secure Channel opcode 0x10)?
fn is_standalone_ack(b: &[u8]) -> bool {
    match proto_offset(b) {
        Some(off) => b[off + 1] == 0x10 && b[off + 4] == 0 && b[off + 5] == 0,
        None => false,
    }
}

// ------------------------------------------------------------------ dispatcher

fn run_line(line: &str, out: &mut String) {
    let f: Vec<&str> = line.split(' ').collect();
    if f.len() < 3 {
        return;
    }
    let n: usize = f[2].strip_prefix("n=").and_then(|x| x.parse().ok()).unwrap_or(0);
    if n != MAX_SESSIONS {
        return;
    }
    let rest = f.get(3).copied().unwrap_or("");
    let r = match f[0] {
        "D" => rsm_harness::catch(std::panic::AssertUnwindSafe(|| run_d(rest))),
        "V" => rsm_harness::catch(std::panic::AssertUnwindSafe(|| run_v(false, rest))),
        "W" => rsm_harness::catch(std::panic::AssertUnwindSafe(|| run_v(true, rest))),
        "E" => rsm_harness::catch(std::panic::AssertUnwindSafe(|| run_e(&f[3..]))),
        _ => return,
    };
    match r {
        Ok(s) => writeln!(out, "{} {} {}", f[0], f[1], s).unwrap(),
        Err(msg) => writeln!(out, "{} {} PANIC {}", f[0], f[1], msg.replace(' ', "_").replace('\n', "_")).unwrap(),
    }
}

// ------------------------------------------------------------------ generator

/// a light mirror of the table, only to steer the generator towards valid identifiers
struct GenState {
    next: u32,
    live: Vec<u32>,
    handles: Vec<(u32, bool)>,
    exch: Vec<(u32, usize)>,
}

fn gen_d(rng: &mut Rng, cap: usize, len: usize, style: u32) -> String {
    let mut g = GenState { next: 0, live: vec![], handles: vec![], exch: vec![] };
    let mut ops: Vec<String> = Vec::new();
    let mut clock = 1u64;
    let pick = |rng: &mut Rng, v: &Vec<u32>, next: u32| -> u32 {
        if v.is_empty() || rng.chance(1, 12) {
            rng.below(next as u64 + 2) as u32
        } else {
            *rng.pick(v)
        }
    };
    for _ in 0..len {
        clock += 1;
        let now = clock;
        let full = g.live.len() >= cap;
        let roll = rng.below(100);
        let w = match style {
            0 => roll,                    // everything
            1 => roll % 45,               // table churn: adds / reserves / drops / evictions
            2 => 45 + roll % 55,          // exchanges and sweeps on a populated table
            _ => roll,
        };
        if g.live.len() < 2 && style == 2 {
            ops.push(format!("a:{}", now));
            g.live.push(g.next);
            g.next += 1;
            continue;
        }
        let op = match w {
            0..=9 => {
                if !full { g.live.push(g.next); }
                g.next += 1;
                format!("a:{}", now)
            }
            10..=16 => {
                if !full { g.live.push(g.next); g.handles.push((g.next, false)); }
                g.next += 1;
                format!("r:{}", now)
            }
            17..=26 => {
                // reserve with eviction: the mirror cannot know the victim; keep ids loosely
                let id = g.next;
                if full { g.next += 2; } else { g.next += 1; }
                let nid = if full { id + 1 } else { id };
                g.live.push(nid);
                g.handles.push((nid, false));
                format!("R:{}", now)
            }
            27..=31 => {
                let hs: Vec<u32> = g.handles.iter().map(|h| h.0).collect();
                let id = pick(rng, &hs, g.next);
                format!("u:{}:{}:{}", id, *rng.pick(&["P", "C", "P", "N", "D"]), now)
            }
            32..=36 => {
                let hs: Vec<u32> = g.handles.iter().map(|h| h.0).collect();
                let id = pick(rng, &hs, g.next);
                format!("c:{}", id)
            }
            37..=44 => {
                let hs: Vec<u32> = g.handles.iter().map(|h| h.0).collect();
                let id = pick(rng, &hs, g.next);
                g.handles.retain(|h| h.0 != id);
                format!("d:{}:{}", id, now)
            }
            45..=48 => format!("x:{}", pick(rng, &g.live, g.next)),
            49..=56 => format!("e:{}", now),
            57..=62 => format!("t:{}:{}", pick(rng, &g.live, g.next), now),
            63..=66 => format!("E:{}", pick(rng, &g.live, g.next)),
            67..=69 => {
                let t = if rng.chance(1, 2) { "F".to_string() } else { rng.below(clock).to_string() };
                format!("L:{}:{}", pick(rng, &g.live, g.next), t)
            }
            70..=72 => format!("M:{}:{}", pick(rng, &g.live, g.next), *rng.pick(&["P", "C", "N", "P", "D"])),
            73..=75 => match rng.below(5) {
                0 => "p:-".to_string(),
                1 => format!("p:{}", pick(rng, &g.live, g.next)),
                2 => format!("f:{}:-", 1 + rng.below(2)),
                _ => format!("f:{}:{}", 1 + rng.below(2), pick(rng, &g.live, g.next)),
            },
            76..=86 if rng.chance(1, 4) => format!("xr:{}", now),
            76..=86 => {
                let id = pick(rng, &g.live, g.next);
                let pending = rng.chance(1, 3);
                if !pending {
                    // the mirror does not know the slot index: remember a plausible one
                    let used = g.exch.iter().filter(|e| e.0 == id).count();
                    g.exch.push((id, used));
                }
                format!("xa:{}:{}:{}", id, pending as u8, now)
            }
            87..=94 => {
                let (id, xi) = if g.exch.is_empty() || rng.chance(1, 10) {
                    (pick(rng, &g.live, g.next), rng.below(6) as usize)
                } else {
                    let k = rng.below(g.exch.len() as u64) as usize;
                    g.exch.remove(k)
                };
                let fl = *rng.pick(&["00", "00", "01", "10", "11", "10"]);
                if fl == "10" && rng.chance(1, 2) {
                    // dropped with the retransmission pending, then the peer's acknowledgement arrives
                    clock += 1;
                    format!("xd:{}:{}:{}:{},xk:{}:{}:{}", id, xi, fl, now, id, xi, clock)
                } else {
                    format!("xd:{}:{}:{}:{}", id, xi, fl, now)
                }
            }
            _ => format!("s:{}", now),
        };
        ops.push(op);
    }
    ops.join(",")
}

fn gen_v(rng: &mut Rng, len: usize) -> String {
    let mut ops: Vec<String> = Vec::new();
    let mut nreq = 0usize;
    let timeout_req = rng.below(3) as usize; // only this requester may be timed out
    for _ in 0..len {
        let roll = rng.below(100);
        let r = if nreq == 0 { 0 } else { rng.below(nreq as u64) as usize };
        let op = match roll {
            0..=17 => {
                nreq += 1;
                format!("s{}", 1 + rng.below(3))
            }
            18..=47 => format!("p{}", r),
            48..=57 => format!("c{}", r),
            58..=65 => format!("t{}", timeout_req),
            66..=79 => "k".to_string(),
            _ => format!("d{}:{}", 1 + rng.below(3), if rng.chance(4, 5) { 1 } else { 0 }),
        };
        if nreq == 0 && !op.starts_with('s') && !op.starts_with('d') && op != "k" {
            continue;
        }
        ops.push(op);
    }
    ops.join(",")
}

fn generate(tier: &str, seed: u64) -> Vec<String> {
    let mut rng = Rng::new(seed ^ 0xC20);
    let mut cases: Vec<String> = Vec::new();
    let thorough = tier == "thorough";
    let mut id = 0u32;
    let mut push = |cases: &mut Vec<String>, kind: &str, n: usize, body: String| {
        id += 1;
        cases.push(format!("{} {} n={} {}", kind, id, n, body));
    };
    // --- hand-written branch stream (one per arm of the model), for both table sizes
    for n in [16usize, 3] {
        // completed handle purged before the drop (the repaired panic), both orders
        push(&mut cases, "D", n, "r:2,u:0:P:3,c:0,p:-,d:0:5,a:6".into());
        push(&mut cases, "D", n, "r:2,u:0:P:3,p:-,c:0,d:0:5".into());
        push(&mut cases, "D", n, "r:2,u:0:C:3,c:0,x:0,d:0:5".into());
        // incomplete drop removes, complete drop keeps and clears the flag
        push(&mut cases, "D", n, "r:2,d:0:3,r:4,c:1,d:1:6,e:7".into());
        // eviction: expired first, else least recently used, never reserved / never with an exchange
        push(&mut cases, "D", n, "a:2,a:3,a:4,t:0:5,e:6,e:7,e:8,e:9".into());
        push(&mut cases, "D", n, "a:2,a:3,a:4,E:2,e:6,E:0,e:7,e:8".into());
        push(&mut cases, "D", n, "a:2,a:3,r:4,xa:0:0:5,e:6,e:7,xd:0:0:00:8,e:9,e:10".into());
        push(&mut cases, "D", n, "a:2,a:3,L:0:F,L:1:F,e:5,E:1,e:7,e:8".into());
        push(&mut cases, "D", n, "a:2,a:3,a:4,L:0:2,L:1:2,L:2:2,e:6,e:7,e:8".into());
        // swap_remove order then eviction ties
        push(&mut cases, "D", n, "a:2,a:3,a:4,x:0,L:1:1,L:2:1,e:8,e:9".into());
        // remove_pase with and without a kept session; reserved PASE slot is purged too
        push(&mut cases, "D", n, "a:2,a:3,a:4,M:0:P,M:2:P,p:2,e:7,e:8,e:9".into());
        push(&mut cases, "D", n, "a:2,M:0:P,r:4,u:1:P:5,p:-,d:1:7".into());
        // exchange slots: push then reuse of holes, NoSpaceExchanges, drop flavours, sweeper
        push(&mut cases, "D", n, "a:2,xa:0:0:3,xa:0:0:4,xa:0:1:5,xa:0:0:6,xa:0:0:7,xa:0:0:8,xd:0:1:00:9,xa:0:0:10,xd:0:0:01:11,xd:0:3:10:12,s:13,s:14,s:15".into());
        push(&mut cases, "D", n, "a:2,a:3,xa:0:0:4,xa:1:0:5,xd:1:0:01:6,xd:0:0:11:7,s:8,s:9,s:10".into());
        push(&mut cases, "D", n, "a:2,E:0,xa:0:0:3,xa:0:1:4,r:5,xa:1:1:6,xa:1:0:7,xd:1:0:00:8".into());
        push(&mut cases, "D", n, "a:2,xa:0:0:3,x:0,xd:0:0:00:5,a:6".into());
        // a handler gone with its last message unacknowledged, then the acknowledgement arrives before
        // the sweeper runs: the slot is Dropped with nothing pending and must still be swept
        push(&mut cases, "D", n, "a:2,xa:0:0:3,xd:0:0:10:4,xk:0:0:5,s:6,e:7".into());
        push(&mut cases, "D", n, "a:2,a:3,xa:0:0:4,xa:1:0:5,xd:0:0:10:6,xd:1:0:10:7,xk:1:0:8,xk:0:0:9,xk:0:0:10".into());
        push(&mut cases, "D", n, "a:2,xa:0:0:3,xa:0:0:4,xd:0:1:11:5,xk:0:1:6,xk:0:0:7,e:8".into());
        // receive path: new exchanges on the first unsecured session; the sixth closes the session
        push(&mut cases, "D", n, "a:2,xr:3,xr:4,xr:5,xr:6,xr:7,xr:8,a:9,xr:10".into());
        push(&mut cases, "D", n, "r:2,a:3,E:1,xr:4,M:1:C,xr:5,a:6,xa:2:0:7,xr:8,xr:9".into());
        // remove_for_fabric: every session of the fabric but the kept one, reserved ones included
        push(&mut cases, "D", n, "a:2,a:3,M:0:C,M:1:D,r:5,u:2:C:6,f:1:-,c:2,d:2:8,f:2:1,e:9".into());
        push(&mut cases, "D", n, "a:2,a:3,a:4,M:0:C,M:1:C,M:2:G,f:1:1,e:7,e:8".into());
    }
    // table full: reserve evicts an idle session, refuses when none is idle
    let fill3 = "a:2,a:3,a:4";
    push(&mut cases, "D", 3, format!("{},R:5,R:6,R:7,R:8,d:3:9,R:10", fill3));
    push(&mut cases, "D", 3, format!("{},xa:0:0:5,xa:1:0:6,R:7,R:8,xd:0:0:00:9,R:10", fill3));
    push(&mut cases, "D", 3, format!("{},xa:0:0:5,xa:1:0:6,xa:2:1:7,R:8,a:9,e:10", fill3));
    let fill16: Vec<String> = (0..16).map(|i| format!("a:{}", i + 2)).collect();
    push(&mut cases, "D", 16, format!("{},R:20,R:21,a:22,e:23,R:24,d:16:25,d:17:26,R:27", fill16.join(",")));
    // --- random streams
    let nd = if thorough { 6000 } else { 900 };
    for i in 0..nd {
        let n = if i % 3 == 0 { 3 } else { 16 };
        let len = 6 + rng.below(if n == 3 { 22 } else { 45 }) as usize;
        let style = (i % 4) as u32;
        let body = gen_d(&mut rng, n, len, style);
        push(&mut cases, "D", n, body);
    }
    // --- rendezvous: hand-written, then random
    for kind in ["V", "W"] {
        push(&mut cases, kind, 16, "s1,p0,k,d1:1,p0".into());
        push(&mut cases, kind, 16, "s1,p0,c0,d1:1,k,s2,p1,k,d1:1,d2:0,d2:1,p1".into());
        push(&mut cases, kind, 16, "s1,p0,k,t0,d1:1,s2,p1".into());
        push(&mut cases, kind, 16, "s1,s2,p0,p1,k,c1,d1:1,d3:1,p0,p1".into());
        push(&mut cases, kind, 16, "d1:1,k,s1,p0,t0,s1,p1,k,d1:1,d1:1,c1".into());
        push(&mut cases, kind, 16, "s1,s2,s3,p2,p0,c2,p0,k,c0,p1,k,d2:1,p1".into());
    }
    let nv = if thorough { 3000 } else { 500 };
    for i in 0..nv {
        let len = 4 + rng.below(16) as usize;
        let body = gen_v(&mut rng, len);
        if body.is_empty() {
            continue;
        }
        push(&mut cases, if i % 2 == 0 { "V" } else { "W" }, 16, body);
    }
    // --- end to end
    let mut e2e_cases: Vec<(usize, String)> = Vec::new();
    for n in [16usize, 3] {
        for k in ["P", "C"] {
            let stops: &[&str] = if k == "P" { &["s1", "s2", "s3"] } else { &["s1", "s2"] };
            for s in stops {
                e2e_cases.push((n, format!("k={} beh={} conc=0 g=0 j=0 age=0", k, s)));
            }
            e2e_cases.push((n, format!("k={} beh=f conc=0 g=3 j=0 age=0", k)));
            e2e_cases.push((n, format!("k={} beh=s1.s2.f conc=0 g=2 j=2 age=0", k)));
            e2e_cases.push((n, format!("k={} beh=f.f conc=1 g=0 j=0 age=0", k)));
            e2e_cases.push((n, format!("k={} beh=s1.s1.s2 conc=1 g=4 j=3 age=0", k)));
        }
        e2e_cases.push((n, "k=P beh=s3.s2.s1.f conc=0 g=1 j=1 age=0".into()));
        e2e_cases.push((n, "k=P beh= conc=0 g=6 j=0 age=0".into()));
        e2e_cases.push((n, "k=P beh=s2 conc=0 g=0 j=4 age=1".into()));
        // table full before the handshake: all but r sessions carry an exchange (r = 0, 1, 2 reclaimable)
        for k in ["P", "C"] {
            e2e_cases.push((n, format!("k={} beh= conc=0 g=0 j=0 age=0 fill={}.1", k, n - 1)));
            e2e_cases.push((n, format!("k={} beh= conc=0 g=0 j=0 age=0 fill={}.2", k, n - 2)));
        }
        e2e_cases.push((n, format!("k=P beh= conc=0 g=0 j=0 age=0 fill={}.0", n)));
        e2e_cases.push((n, format!("k=C beh=s1 conc=0 g=0 j=0 age=0 fill={}.3", n - 3)));
        // the device's handler futures are dropped at their k-th poll after `reserve`
        let cxs: &[usize] = if thorough { &[1, 2, 3, 4, 5, 6, 8, 11, 15] } else { &[1, 2, 4, 7] };
        for cx in cxs {
            e2e_cases.push((n, format!("k=P beh=f conc=0 g=0 j=0 age=1 cx={}", cx)));
            e2e_cases.push((n, format!("k=C beh=f conc=0 g=0 j=0 age=1 cx={}", cx)));
        }
        // first handshake messages without the reliability flag while no handler accepts: accept time-out,
        // the exchange is Dropped with nothing pending and must still be swept
        for k in ["P", "C"] {
            e2e_cases.push((n, format!("k={} beh=s1 conc=0 g=0 j=0 age=0 u={} noresp=1 ut=1", k, if n == 3 { 3 } else { 6 })));
        }
        e2e_cases.push((n, "k=P beh=s1 conc=0 g=0 j=0 age=0 u=2".into()));
        // the answer is never acknowledged, a further (unreliable) message arrives instead and waits in the
        // RX buffer; the handler gives up (TxTimeout) and its exchange closes cleanly: the message is an orphan
        e2e_cases.push((n, "k=P beh=m1 conc=0 g=0 j=0 age=0".into()));
        e2e_cases.push((n, "k=C beh=m1 conc=0 g=0 j=0 age=0".into()));
        e2e_cases.push((n, "k=P beh=m2.f conc=0 g=0 j=0 age=0".into()));
        e2e_cases.push((n, "k=C beh=m1 conc=0 g=0 j=0 age=0 cx=3".into()));
        // the initiator acknowledges the answer and then falls silent: the handler's receive time-out (30 s + ladders)
        if n == 16 || thorough {
            e2e_cases.push((n, "k=P beh=a1 conc=0 g=0 j=0 age=0 qw=45000".into()));
            // all four handlers busy (each waits for a Sigma3 that never comes) while unreliable Sigma1s arrive
            e2e_cases.push((n, "k=C beh=a1.a1.a1.a1 conc=1 g=0 j=0 age=0 u=3 ut=1 qw=45000".into()));
        }
        if thorough {
            e2e_cases.push((n, "k=P beh=a2 conc=0 g=0 j=0 age=0 qw=45000".into()));
            e2e_cases.push((n, "k=C beh=a1 conc=0 g=0 j=0 age=0 qw=45000".into()));
        }
    }
    if thorough {
        for i in 0..40 {
            let n = if i % 2 == 0 { 16 } else { 3 };
            let k = if rng.chance(3, 5) { "P" } else { "C" };
            let m = 1 + rng.below(3) as usize;
            let mut b = Vec::new();
            for _ in 0..m {
                let c = if k == "P" { ["s1", "s2", "s3", "f"][rng.below(4) as usize] } else { ["s1", "s2", "f"][rng.below(3) as usize] };
                b.push(c);
            }
            e2e_cases.push((n, format!("k={} beh={} conc={} g={} j={} age=0", k, b.join("."), rng.below(2), rng.below(5), rng.below(4))));
        }
    }
    for (i, (n, body)) in e2e_cases.into_iter().enumerate() {
        push(&mut cases, "E", n, format!("{} sd={}", body, seed + i as u64));
    }
    cases
}

fn probe() {
    // finding 1 (repaired): a completed handle whose slot was purged
    let crypto = test_only_crypto();
    let det = e2e::dev_det(Some(40), Some(80));
    let matter = e2e::new_matter(det, false);
    let r = rsm_harness::catch(std::panic::AssertUnwindSafe(|| {
        let mut h = ReservedSession::reserve_now(&matter, &crypto).unwrap();
        h.update(0, 0, 1, 2, Address::new(), SessionMode::Pase { fab_idx: 0 }, None, None, None, None).unwrap();
        h.complete();
        matter.with_state(|s| s.verif_sessions().remove_pase(None));
        drop(h);
        matter.with_state(|s| s.verif_sessions().iter().count())
    }));
    println!("purge-then-complete-drop: {:?}", r);
    println!("D-case form: {}", run_d("r:2,u:0:P:3,c:0,p:-,d:0:5,a:6"));
}

fn main() {
    let args: Vec<String> = std::env::args().collect();
    // let the timer driver's clock move past the logical stamps used by the D cases
    let _ = embassy_time::Instant::now();
    std::thread::sleep(std::time::Duration::from_millis(5));
    match args.get(1).map(|s| s.as_str()) {
        Some("maxs") => println!("{}", MAX_SESSIONS),
        Some("probe") => probe(),
        Some("gen") => {
            let tier = args.get(2).map(|s| s.as_str()).unwrap_or("quick");
            let seed: u64 = args.get(3).and_then(|s| s.parse().ok()).unwrap_or_else(rsm_harness::seed_from_env);
            let outdir = args.get(4).cloned().unwrap_or_else(|| ".".into());
            let cases = generate(tier, seed);
            let mut f = std::fs::File::create(format!("{}/cases.txt", outdir)).unwrap();
            for c in &cases {
                writeln!(f, "{}", c).unwrap();
            }
            let mut kinds: BTreeMap<String, usize> = BTreeMap::new();
            let mut opk: BTreeMap<String, usize> = BTreeMap::new();
            for c in &cases {
                let f: Vec<&str> = c.split(' ').collect();
                *kinds.entry(format!("{}/{}", f[0], f[2])).or_insert(0) += 1;
                if f[0] == "D" {
                    for o in f[3].split(',') {
                        *opk.entry(o.split(':').next().unwrap().to_string()).or_insert(0) += 1;
                    }
                }
            }
            let mut s = String::from("{\"cases_by_kind\":{");
            s.push_str(&kinds.iter().map(|(k, v)| format!("\"{}\":{}", k, v)).collect::<Vec<_>>().join(","));
            s.push_str("},\"d_ops_by_kind\":{");
            s.push_str(&opk.iter().map(|(k, v)| format!("\"{}\":{}", k, v)).collect::<Vec<_>>().join(","));
            s.push_str("}}");
            std::fs::write(format!("{}/stats.json", outdir), s).unwrap();
        }
        Some("run") => {
            rsm_harness::silence_panics();
            let path = args.get(2).expect("cases file");
            let text = std::fs::read_to_string(path).unwrap();
            let mut out = String::new();
            for line in text.lines() {
                run_line(line, &mut out);
            }
            std::io::stdout().write_all(out.as_bytes()).unwrap();
        }
        _ => eprintln!("usage: c20 gen|run|maxs|probe"),
    }
}
