//! C20 probe (temporary skeleton; replaced by the full harness)
use rs_matter::crypto::test_only_crypto;
use rs_matter::transport::network::Address;
use rs_matter::transport::session::{ReservedSession, SessionMode};
use rsm_harness::e2e;

fn main() {
    let crypto = test_only_crypto();
    let det = e2e::dev_det(Some(40), Some(80));
    let matter = e2e::new_matter(det, false);
    let r = rsm_harness::catch(std::panic::AssertUnwindSafe(|| {
        let mut h = ReservedSession::reserve_now(&matter, &crypto).unwrap();
        h.update(0, 0, 1, 2, Address::new(), SessionMode::Pase { fab_idx: 0 }, None, None, None, None)
            .unwrap();
        h.complete();
        matter.with_state(|s| s.verif_sessions().remove_pase(None));
        drop(h);
        matter.with_state(|s| s.verif_sessions().iter().count())
    }));
    println!("purge-then-complete-drop: {:?}", r);
}
